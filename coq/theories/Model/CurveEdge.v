(* Bit-exact model of QuadraticEdge (src/edge.rs): set-up of the forward differences (new2), LineEdge::update and the
   update loop, in the semantics of an overflow-checked build (None = panic).  Definitions only. *)
From Coq Require Import ZArith Bool List.
From TS Require Import Base.F32 Model.Rect Model.PathBuilder Model.Edge.
Import ListNotations.
Local Open Scope Z_scope.

Definition max_coeff_shift : Z := 6.

(* cheap_distance: max + min / 2 of the absolute values (abs of i32::MIN panics) *)
Definition cheap_distance (dx dy : Z) : option Z :=
  do ax <- ck (Z.abs dx);
  do ay <- ck (Z.abs dy);
  if ay <? ax then ck (ax + sar ay 1) else ck (ay + sar ax 1).

(* 32 - leading_zeros of a non-negative i32 = its bit length *)
Definition bit_length (z : Z) : Z := if z <=? 0 then 0 else Z.log2 z + 1.

Definition diff_to_shift (dx dy shift_aa : Z) : option Z :=
  do dist <- cheap_distance dx dy;
  do d1 <- ck (dist + 2 ^ (2 + shift_aa));
  let d2 := sar d1 (3 + shift_aa) in
  Some (sar (bit_length d2) 1).

(* fdot6_to_fixed_div2: left_shift(value, 16 - 6 - 1) *)
Definition fdot6_to_fixed_div2 (v : Z) : Z := left_shift v 9.

(* LineEdge::update(x0, y0, x1, y1) on 16.16 inputs: None = panic, Some None = zero height, Some (Some edge) *)
Definition line_update (winding : Z) (x0 y0 x1 y1 : Z) : option (option ledge) :=
  let y0 := sar y0 10 in let y1 := sar y1 10 in
  if y1 <? y0 then None else
  do top <- fdot6_round y0;
  do bottom <- fdot6_round y1;
  if top =? bottom then Some None else
  let x0 := sar x0 10 in let x1 := sar x1 10 in
  do ddx <- ck (x1 - x0);
  do ddy <- ck (y1 - y0);
  do slope <- fdot6_div ddx ddy;
  do dy <- compute_dy top y0;
  do xx <- ck (x0 + fdot16_mul slope dy);
  do last <- ck (bottom - 1);
  do x16 <- fdot6_to_fdot16 xx;
  Some (Some (mkedge x16 slope top last winding)).

Record quad := mkquad {
  q_count : Z; q_shift : Z;
  q_x : Z; q_y : Z; q_dx : Z; q_dy : Z; q_ddx : Z; q_ddy : Z; q_lastx : Z; q_lasty : Z; q_wind : Z }.

(* QuadraticEdge::new2: None = panic, Some None = zero height *)
Definition quad_new2 (p0 p1 p2 : pt) (shift : Z) : option (option quad) :=
  let scale := F32.of_Z (2 ^ (shift + 6)) in
  let cv := fun v => F32.to_i32 (F32.mul v scale) in
  let x0 := cv (px p0) in let y0 := cv (py p0) in
  let x1 := cv (px p1) in let y1 := cv (py p1) in
  let x2 := cv (px p2) in let y2 := cv (py p2) in
  let '(x0, y0, x2, y2, winding) := if y2 <? y0 then (x2, y2, x0, y0, -1) else (x0, y0, x2, y2, 1) in
  if negb ((y0 <=? y1) && (y1 <=? y2)) then None else
  do top <- fdot6_round y0;
  do bottom <- fdot6_round y2;
  if top =? bottom then Some None else
  do ax <- ck (left_shift x1 1 - x0); do ax <- ck (ax - x2);
  do ay <- ck (left_shift y1 1 - y0); do ay <- ck (ay - y2);
  do sh <- diff_to_shift (sar ax 2) (sar ay 2) shift;
  if sh <? 0 then None else
  let sh := if sh =? 0 then 1 else if max_coeff_shift <? sh then max_coeff_shift else sh in
  let count := 2 ^ sh in
  (* x *)
  do a0 <- ck (x0 - x1); do a1 <- ck (a0 - x1); do a2 <- ck (a1 + x2);
  let a := fdot6_to_fixed_div2 a2 in
  do bx0 <- ck (x1 - x0); do b <- fdot6_to_fdot16 bx0;
  do qx <- fdot6_to_fdot16 x0;
  do qdx <- ck (b + sar a sh);
  let qddx := sar a (sh - 1) in
  (* y *)
  do c0 <- ck (y0 - y1); do c1 <- ck (c0 - y1); do c2 <- ck (c1 + y2);
  let a' := fdot6_to_fixed_div2 c2 in
  do by0 <- ck (y1 - y0); do b' <- fdot6_to_fdot16 by0;
  do qy <- fdot6_to_fdot16 y0;
  do qdy <- ck (b' + sar a' sh);
  let qddy := sar a' (sh - 1) in
  do lx <- fdot6_to_fdot16 x2;
  do ly <- fdot6_to_fdot16 y2;
  Some (Some (mkquad count (sh - 1) qx qy qdx qdy qddx qddy lx ly winding)).

(* QuadraticEdge::update: (new state, the line edge if one with non-zero height was found) *)
Fixpoint quad_update_loop (fuel : nat) (q : quad) (count oldx oldy dx dy : Z) : option (quad * option ledge) :=
  match fuel with
  | O => None
  | S fuel' =>
      let count := count - 1 in
      do nxt <- (if 0 <? count then
                   do nx <- ck (oldx + sar dx (q_shift q)); do dx' <- ck (dx + q_ddx q);
                   do ny <- ck (oldy + sar dy (q_shift q)); do dy' <- ck (dy + q_ddy q);
                   Some (nx, ny, dx', dy')
                 else Some (q_lastx q, q_lasty q, dx, dy));
      let '(newx, newy, dx, dy) := nxt in
      do r <- line_update (q_wind q) oldx oldy newx newy;
      match r with
      | Some e => Some (mkquad count (q_shift q) newx newy dx dy (q_ddx q) (q_ddy q) (q_lastx q) (q_lasty q) (q_wind q), Some e)
      | None =>
          if count =? 0 then Some (mkquad count (q_shift q) newx newy dx dy (q_ddx q) (q_ddy q) (q_lastx q) (q_lasty q) (q_wind q), None)
          else quad_update_loop fuel' q count newx newy dx dy
      end
  end.
Definition quad_update (q : quad) : option (quad * option ledge) :=
  if q_count q <=? 0 then None   (* debug_assert!(count > 0) *)
  else quad_update_loop 70 q (q_count q) (q_x q) (q_y q) (q_dx q) (q_dy q).

(* the line edges the scan converter walks through: new (= new2 + update), then update while curve_count > 0 *)
Fixpoint quad_lines_loop (fuel : nat) (q : quad) : option (list ledge) :=
  match fuel with
  | O => None
  | S fuel' =>
      if q_count q <=? 0 then Some []
      else
        do r <- quad_update q;
        match snd r with
        | None => Some []
        | Some e => do rest <- quad_lines_loop fuel' (fst r); Some (e :: rest)
        end
  end.
Definition quad_edge_lines (p0 p1 p2 : pt) (shift : Z) : option (list ledge) :=
  do q0 <- quad_new2 p0 p1 p2 shift;
  match q0 with
  | None => Some []
  | Some q =>
      do r <- quad_update q;
      match snd r with
      | None => Some []
      | Some e => do rest <- quad_lines_loop 70 (fst r); Some (e :: rest)
      end
  end.
