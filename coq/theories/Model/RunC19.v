(* Executable entry point for the C19 correspondence: first integer selects the function. *)
From Coq Require Import ZArith Bool List.
From TS Require Import Base.F32 Model.Rect Model.IntRect Model.RectRound Model.RunC14.
Import ListNotations.
Local Open Scope Z_scope.

Definition enc_orect (o : option rect) : list Z := match o with Some r => enc_rect r | None => [-1] end.
Definition enc_oir (o : option irect) : list Z :=
  match o with Some r => [ix r; iy r; iw r; ih r] | None => [-1] end.

Definition with2 (a b : option rect) (f : rect -> rect -> list Z) : list Z :=
  match a, b with Some a, Some b => f a b | _, _ => [-2] end.
Definition with2i (a b : option irect) (f : irect -> irect -> list Z) : list Z :=
  match a, b with Some a, Some b => f a b | _, _ => [-2] end.

Definition run_c19 (l : list Z) : list Z :=
  match l with
  | [1; a; b; c; d] => enc_orect (from_ltrb (fz a) (fz b) (fz c) (fz d))
  | [2; a; b; c; d] => enc_orect (from_xywh (fz a) (fz b) (fz c) (fz d))
  | [3; a; b; c; d] => enc_orect (nz_from_ltrb (fz a) (fz b) (fz c) (fz d))
  (* NonZeroRect::from_xywh = from_ltrb(x, y, w + x, h + y): the stored edges decide, not the requested size *)
  | [36; x; y; w; h] => enc_orect (nz_from_ltrb (fz x) (fz y) (F32.add (fz w) (fz x)) (F32.add (fz h) (fz y)))
  | [4; a; b] => match size_from_wh (fz a) (fz b) with
                 | Some (w, h) => [F32.to_bits w; F32.to_bits h] | None => [-1] end
  | [5; a; b; c; d; e; f; g; h] =>
      with2 (from_ltrb (fz a) (fz b) (fz c) (fz d)) (from_ltrb (fz e) (fz f) (fz g) (fz h))
            (fun x y => enc_orect (rect_intersect x y))
  | [6; a; b; c; d; e; f; g; h] =>
      with2 (from_ltrb (fz a) (fz b) (fz c) (fz d)) (from_ltrb (fz e) (fz f) (fz g) (fz h))
            (fun x y => enc_orect (rect_join x y))
  | [7; a; b; c; d; dx; dy] =>
      match from_ltrb (fz a) (fz b) (fz c) (fz d) with
      | Some r => enc_orect (rect_inset r (fz dx) (fz dy)) | None => [-2] end
  | [8; a; b; c; d; dx; dy] =>
      match from_ltrb (fz a) (fz b) (fz c) (fz d) with
      | Some r => enc_orect (rect_outset r (fz dx) (fz dy)) | None => [-2] end
  | [9; a; b; c; d] =>
      match from_ltrb (fz a) (fz b) (fz c) (fz d) with
      | Some r => enc_oir (rect_round r) | None => [-2] end
  | [10; a; b; c; d] =>
      match from_ltrb (fz a) (fz b) (fz c) (fz d) with
      | Some r => enc_oir (rect_round_out r) | None => [-2] end
  | [11; a] => [saturate_floor (fz a); saturate_ceil (fz a); saturate_round (fz a)]
  | [20; x; y; w; h] => enc_oir (ir_from_xywh x y w h)
  | [21; a; b; c; d] => enc_oir (ir_from_ltrb a b c d)
  | [22; a; b; c; d; e; f; g; h] =>
      with2i (ir_from_xywh a b c d) (ir_from_xywh e f g h) (fun x y => enc_oir (ir_intersect x y))
  | [23; a; b; c; d; dx; dy] =>
      match ir_from_xywh a b c d with Some r => enc_oir (ir_inset r dx dy) | None => [-2] end
  | [24; a; b; c; d; dx; dy] =>
      match ir_from_xywh a b c d with Some r => enc_oir (ir_make_outset r dx dy) | None => [-2] end
  | [25; a; b; c; d; dx; dy] =>
      match ir_from_xywh a b c d with Some r => enc_oir (ir_translate r dx dy) | None => [-2] end
  | [26; a; b; c; d; dx; dy] =>
      match ir_from_xywh a b c d with Some r => enc_oir (ir_translate_to r dx dy) | None => [-2] end
  | [30; w; h] => match pixmap_new_ok w h with Some n => [n] | None => [-1] end
  | [31; len; w; h] => [if from_vec_ok len w h then 1 else 0]
  (* Mask::from_vec: a valid IntSize (both dimensions in 1 .. 2^32 - 1) and exactly w * h bytes *)
  | [35; len; w; h] => [if (1 <=? w) && (w <=? 4294967295) && (1 <=? h) && (h <=? 4294967295) && (len =? w * h) then 1 else 0]
  | [32; len; w; h] => match from_bytes_ok len w h with Some n => [n] | None => [-1] end
  | [33; w; h; x; y] => match pixel_index w h x y with Some i => [i] | None => [-1] end
  | [40; r; g; b; a] =>
      (* Color::from_rgba: every channel through NormalizedF32::new (finite, 0 <= x <= 1; a NaN fails both comparisons) *)
      let ok x := F32.le F32.zero (fz x) && F32.le (fz x) F32.one in
      if ok r && ok g && ok b && ok a then [r; g; b; a] else [-1]
  | [34; w; h; a; b; c; d] =>
      match ir_from_xywh a b c d with
      | None => [-2]
      | Some r =>
          match clone_rect_indices w h r with
          | None => [-1]
          | Some (c, idx) => [iw c; ih c] ++ map fst idx
          end
      end
  | _ => [-3]
  end.
