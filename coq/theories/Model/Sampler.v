(* The sampling stages of src/pipeline/highp.rs: the bit-exact gather index (gather_ix with ulp_sub) and the
   ideal (rational) tiling, filter weights and clamps.  Definitions only. *)
From Coq Require Import ZArith QArith Qround Qabs Qminmax Bool List.
From Flocq Require Import IEEE754.BinarySingleNaN.
From TS Require Import Base.F32 Base.Wide Model.WideBackends.
Import ListNotations.
Local Open Scope Z_scope.

(* ulp_sub(v) = f32::from_bits(v.to_bits() - 1) *)
Definition ulp_sub (v : f32) : f32 := F32.of_bits (F32.to_bits v - 1).

(* one coordinate of gather_ix: x.max(0).min(ulp_sub(limit)).trunc_int()  (SSE lane semantics) *)
Definition gather_coord (x : f32) (limit : Z) : Z :=
  cvtt (wide_min (wide_max x F32.zero) (ulp_sub (F32.of_Z limit))).
Definition gather_ix (x y : f32) (w h : Z) : Z := gather_coord y h * w + gather_coord x w.

(* ---- ideal functions over Q ---------------------------------------------------------------------------- *)
Local Open Scope Q_scope.
Definition floorQ (x : Q) : Q := inject_Z (Qfloor x).
Definition exclusive_repeat (v limit : Q) : Q := v - floorQ (v / limit) * limit.
Definition exclusive_reflect (v limit : Q) : Q :=
  Qabs ((v - limit) - (limit + limit) * floorQ ((v - limit) * ((1 / limit) * (1 # 2))) - limit).

(* bilinear weights for the fractional offsets fx, fy *)
Definition bilerp (fx fy s00 s10 s01 s11 : Q) : Q :=
  (1 - fy) * ((1 - fx) * s00 + fx * s10) + fy * ((1 - fx) * s01 + fx * s11).

(* bicubic_near / bicubic_far *)
Definition bicubic_near (t : Q) : Q := t * (t * ((-21 # 18) * t + (27 # 18)) + (9 # 18)) + (1 # 18).
Definition bicubic_far (t : Q) : Q := (t * t) * ((7 # 18) * t + (-6 # 18)).
Definition bicubic_weights (f : Q) : list Q := [bicubic_far (1 - f); bicubic_near (1 - f); bicubic_near f; bicubic_far f].

(* clamp_0 then clamp_a (after fix 7439f86) on one colour channel c with alpha a; and the pinned clamp to 1 *)
Definition clamp_0 (c : Q) : Q := Qmax c 0.
Definition clamp_a_alpha (a : Q) : Q := Qmin a 1.
Definition clamp_a_color (c a : Q) : Q := Qmin c (clamp_a_alpha a).
Definition clamp_a_color_pinned (c a : Q) : Q := Qmin c 1.
