(* Executable entry points for the C14 correspondence: decode a case (a list of integers)
   into a builder call sequence, run the model, encode the result as a list of integers.
   The same encoding is implemented by harness/src/bin/impl_run.rs. *)
From Coq Require Import ZArith Bool List.
From TS Require Import Base.F32 Model.Rect Model.PathBuilder Model.Conic Model.Transform Model.PathOps.
Import ListNotations.
Local Open Scope Z_scope.

Definition fz (z : Z) : f32 := F32.of_bits z.
Definition pz (x y : Z) : pt := mkpt (fz x) (fz y).

Definition verb_code (v : verb) : Z :=
  match v with Move => 0 | Line => 1 | Quad => 2 | Cubic => 3 | Close => 4 end.

Definition enc_pt (p : pt) : list Z := [F32.to_bits (px p); F32.to_bits (py p)].
Definition enc_rect (r : rect) : list Z :=
  [F32.to_bits (rl r); F32.to_bits (rt r); F32.to_bits (rr r); F32.to_bits (rb r)].

Definition enc_path (p : option path) : list Z :=
  match p with
  | None => [-1]
  | Some p =>
      Z.of_nat (length (pverbs p)) :: map verb_code (pverbs p) ++
      Z.of_nat (length (ppoints p)) :: flat_map enc_pt (ppoints p) ++ enc_rect (pbounds p)
  end.

Section Dec.
  Variable pp : builder -> path -> builder.
  Variable fp : list pt -> option rect.

  (* op codes: 0 move, 1 line, 2 quad, 3 cubic, 4 close, 5 push_rect(ltrb), 6 push_oval(ltrb),
     7 push_circle, 8 n <sub-ops of total length n> push_path, 9 clear, 10 finish + Path::clear, 11 = PathBuilder::default().  Rect arguments go
     through Rect::from_ltrb; if that returns None the op is skipped.  Unknown/truncated input
     ends the sequence. *)
  Fixpoint run_ops (fuel : nat) (b : builder) (l : list Z) : builder :=
    match fuel with
    | O => b
    | S fuel' =>
        match l with
        | 0 :: x :: y :: r => run_ops fuel' (move_to b (pz x y)) r
        | 1 :: x :: y :: r => run_ops fuel' (line_to b (pz x y)) r
        | 2 :: x1 :: y1 :: x :: y :: r => run_ops fuel' (quad_to b (pz x1 y1) (pz x y)) r
        | 3 :: x1 :: y1 :: x2 :: y2 :: x :: y :: r =>
            run_ops fuel' (cubic_to b (pz x1 y1) (pz x2 y2) (pz x y)) r
        | 4 :: r => run_ops fuel' (close b) r
        | 5 :: a :: t :: c :: d :: r =>
            match from_ltrb (fz a) (fz t) (fz c) (fz d) with
            | Some rc => run_ops fuel' (push_rect b rc) r
            | None => run_ops fuel' b r
            end
        | 6 :: a :: t :: c :: d :: r =>
            match from_ltrb (fz a) (fz t) (fz c) (fz d) with
            | Some rc => run_ops fuel' (push_oval conic_quads b rc) r
            | None => run_ops fuel' b r
            end
        | 7 :: x :: y :: rad :: r => run_ops fuel' (push_circle conic_quads b (fz x) (fz y) (fz rad)) r
        | 8 :: n :: r =>
            let sub := firstn (Z.to_nat n) r in
            let rest := skipn (Z.to_nat n) r in
            match finish_gen fp (run_ops fuel' new_builder sub) with
            | Some p => run_ops fuel' (pp b p) rest
            | None => run_ops fuel' b rest
            end
        | 9 :: r => run_ops fuel' (clear b) r
        | 10 :: r => (* finish; Path::clear() gives the builder back (a failed finish drops it) *)
            match finish_gen fp b with
            | Some p => run_ops fuel' (path_clear p) r
            | None => run_ops fuel' new_builder r
            end
        | 11 :: r => (* the builder is replaced by PathBuilder::default() *)
            run_ops fuel' default_builder r
        | _ => b
        end
    end.

  Definition run_builder_case (l : list Z) : list Z :=
    enc_path (finish_gen fp (run_ops (S (length l)) new_builder l)).
End Dec.

(* the current tree (after the fix: commits) *)
Definition run_c14_builder : list Z -> list Z := run_builder_case push_path from_points.
(* the pinned tree's behaviour, kept to replay the recorded findings *)
Definition run_c14_builder_pinned : list Z -> list Z := run_builder_case push_path_raw from_points_pinned.

(* Rect::from_points alone: args = x0 y0 x1 y1 ... ; result [-1] or l t r b *)
Fixpoint dec_pts (l : list Z) : list pt :=
  match l with
  | x :: y :: r => pz x y :: dec_pts r
  | _ => []
  end.
Definition run_from_points (l : list Z) : list Z :=
  match from_points (dec_pts l) with Some r => enc_rect r | None => [-1] end.

(* Path::transform: args = sx kx ky sy tx ty (bits) followed by builder ops *)
Definition run_c14_transform (l : list Z) : list Z :=
  match l with
  | a :: b :: c :: d :: e :: f :: ops =>
      let t := mkts (fz a) (fz b) (fz c) (fz d) (fz e) (fz f) in
      match finish (run_ops push_path from_points (S (length ops)) new_builder ops) with
      | Some p => enc_path (path_transform t p)
      | None => [-2]
      end
  | _ => [-3]
  end.
