(* Executable entry points for the C02 correspondence (aliased fill of polygons inside the clip). *)
From Coq Require Import ZArith Bool List.
From TS Require Model.CurveEdge Model.CurveFill Model.CurveEdgeSearch.
From TS Require Import Base.F32 Model.Rect Model.PathBuilder Model.Conic Model.RunC14 Model.IntRect Model.Edge Model.Walk.
Import ListNotations.
Local Open Scope Z_scope.

(* scan::path::conservative_round_to_int *)
Definition bias64 : f64 := F64.of_bits 4603051193843941376. (* 0.5 + 1.5/64 = 0.5234375 *)
Definition i32max64 : f64 := F64.of_Z 2147483647.
Definition i32min64 : f64 := F64.of_Z (-2147483648).
Definition sat_i32_f64 (x : f64) : Z :=
  let x := if F64.lt x i32max64 then x else i32max64 in
  let x := if F64.gt x i32min64 then x else i32min64 in
  F64.to_i32 x.
Definition round_down_to_int (x : f32) : Z := sat_i32_f64 (F64.ceil (F64.sub (F64.of_f32 x) bias64)).
Definition round_up_to_int (x : f32) : Z := sat_i32_f64 (F64.floor (F64.add (F64.of_f32 x) bias64)).
Definition conservative_round (r : rect) : option irect :=
  ir_from_ltrb (round_down_to_int (rl r)) (round_down_to_int (rt r)) (round_up_to_int (rr r)) (round_up_to_int (rb r)).

Definition enc_spans (l : list span) : list Z := flat_map (fun s => [s_x s; s_y s; s_w s]) l.

(* args: evenodd w h <builder ops>  ->  spans of scan::path::fill_path on a w x h clip.
   -9: outside this model (path not contained in the clip: the float edge clipper); -8: path does not build.
   Quadratic and cubic segments go through Model/CurveFill.v (chopping at the y extrema in binary32, curve edges as
   the lists of their lines) *)
Definition run_fill_spans (l : list Z) : list Z :=
  match l with
  | eo :: w :: h :: ops =>
      match finish (run_ops push_path from_points (S (length ops)) new_builder ops) with
      | None => [-8]
      | Some p =>
          match conservative_round (pbounds p) with
          | None => []
          | Some ir =>
              let contained := (0 <=? ix ir) && (0 <=? iy ir) && (ir_right ir <=? w) && (ir_bottom ir <=? h) in
              if negb contained then [-9]
              else
                match CurveFill.build_edges_curves p 0 with
                | None => [-1]
                | Some None => []
                | Some (Some es) =>
                    match fill_spans es (iy ir) (ir_bottom ir) w (negb (eo =? 0)) 0 with
                    | None => [-1]
                    | Some sp => enc_spans sp
                    end
                end
          end
      end
  | _ => [-3]
  end.

(* LineEdge::new alone: args x0 y0 x1 y1 shift -> -2 (None) or x dx first_y last_y winding; -1 panic *)
Definition run_line_edge (l : list Z) : list Z :=
  match l with
  | [a; b; c; d; sh] =>
      match line_edge_new (pz a b) (pz c d) sh with
      | None => [-1]
      | Some None => [-2]
      | Some (Some e) => [e_x e; e_dx e; e_first_y e; e_last_y e; e_winding e]
      end
  | _ => [-3]
  end.

(* QuadraticEdge: args x0 y0 x1 y1 x2 y2 (bit patterns) shift -> n then n * (x dx first_y last_y winding); -1 = a panic *)
Definition run_quad_edge (l : list Z) : list Z :=
  match l with
  | [a; b; c; d; e; f; sh] =>
      match CurveEdge.quad_edge_lines (pz a b) (pz c d) (pz e f) sh with
      | None => [-1]
      | Some ls => Z.of_nat (length ls) :: flat_map (fun e => [e_x e; e_dx e; e_first_y e; e_last_y e; e_winding e]) ls
      end
  | _ => [-3]
  end.

(* CubicEdge: args x0 y0 .. x3 y3 (bit patterns) shift -> n then n * (x dx first_y last_y winding); -1 = a panic *)
Definition run_cubic_edge (l : list Z) : list Z :=
  match l with
  | [a; b; c; d; e; f; g; h; sh] =>
      match CurveEdge.cubic_edge_lines (pz a b) (pz c d) (pz e f) (pz g h) sh with
      | None => [-1]
      | Some ls => Z.of_nat (length ls) :: flat_map (fun e => [e_x e; e_dx e; e_first_y e; e_last_y e; e_winding e]) ls
      end
  | _ => [-3]
  end.

(* args: shift <builder ops> -> path_cubics_exact (2 no cubic, 1 every cubic edge ends on the row of its last point, 0 some
   edge is lengthened by the pin; -8 the path does not build): the hypothesis of C02_cubic_path_fill_spec, evaluated *)
Definition run_cubics_exact (l : list Z) : list Z :=
  match l with
  | sh :: ops =>
      match finish (run_ops push_path from_points (S (length ops)) new_builder ops) with
      | None => [-8]
      | Some p => [CurveFill.path_cubics_exact p sh]
      end
  | _ => [-3]
  end.

(* search aid: args x0 y0 .. x3 y3 (bit patterns) shift -> 1 when a y-monotone piece of the cubic needs CubicEdge's pin *)
Definition run_cubic_pin (l : list Z) : list Z :=
  match l with
  | [a; b; c; d; e; f; g; h; sh] =>
      [if CurveEdgeSearch.cubic_needs_pin (pz a b) (pz c d) (pz e f) (pz g h) sh then 1 else 0]
  | _ => [-3]
  end.

(* fill_px is judged by the independent geometric oracle in the harness: not modelled here *)
Definition run_fill_px (l : list Z) : list Z := [-9].
