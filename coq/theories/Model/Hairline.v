(* Bit-exact model of the integer part of the aliased hairline rasteriser (src/scan/hairline.rs,
   hair_line_rgn after the float clipping): FDot6 endpoints -> the blit_h(x, y, 1) calls.
   [maxx]/[maxy] = fdot16::from_f32(clip right / bottom).  Definitions only. *)
From Coq Require Import ZArith Bool List.
From TS Require Import Base.F32 Model.Rect Model.Edge.
Import ListNotations.
Local Open Scope Z_scope.

(* the `loop { if guards { blit }; start += slope; i += 1; if i >= i1 { break } }` *)
Fixpoint hair_loop (fuel : nat) (horizontal : bool) (i i1 start slope maxx maxy : Z) (acc : list (Z * Z)) : list (Z * Z) :=
  match fuel with
  | O => rev acc
  | S fuel' =>
      let acc' :=
        if horizontal then
          if (0 <=? i) && (0 <=? start) && (start <? maxy) then (i, sar start 16) :: acc else acc
        else
          if (0 <=? start) && (0 <=? i) && (start <? maxx) then (sar start 16, i) :: acc else acc in
      let start' := start + slope in
      let i' := i + 1 in
      if i1 <=? i' then rev acc' else hair_loop fuel' horizontal i' i1 start' slope maxx maxy acc'
  end.

Definition iround6 (n : Z) : Z := sar (n + 32) 6.
Definition to16 (n : Z) : Z := left_shift n 10.

(* one clipped segment given as FDot6 coordinates; result = list of (x, y) of the 1-pixel blits.
   None = a panic (division by zero cannot happen: the major-axis delta is non-zero when rounds differ) *)
Definition hair_line_fd6 (x0 y0 x1 y1 maxx maxy : Z) : option (list (Z * Z)) :=
  let dx := x1 - x0 in
  let dy := y1 - y0 in
  if Z.abs dy <? Z.abs dx then
    let '(x0, y0, x1, y1) := if x1 <? x0 then (x1, y1, x0, y0) else (x0, y0, x1, y1) in
    let ix0 := iround6 x0 in
    let ix1 := iround6 x1 in
    if ix0 =? ix1 then Some []
    else
      match fdot16_div dy dx with
      | None => None
      | Some slope =>
          let start_y := to16 y0 + sar (slope * Z.land (32 - x0) 63) 6 in
          Some (hair_loop (Z.to_nat (ix1 - ix0)) true ix0 ix1 start_y slope maxx maxy [])
      end
  else
    let '(x0, y0, x1, y1) := if y1 <? y0 then (x1, y1, x0, y0) else (x0, y0, x1, y1) in
    let iy0 := iround6 y0 in
    let iy1 := iround6 y1 in
    if iy0 =? iy1 then Some []
    else
      match fdot16_div dx dy with
      | None => None
      | Some slope =>
          let start_x := to16 x0 + sar (slope * Z.land (32 - y0) 63) 6 in
          Some (hair_loop (Z.to_nat (iy1 - iy0)) false iy0 iy1 start_x slope maxx maxy [])
      end.

(* fdot6::from_f32 and fdot16::from_f32 *)
Definition fdot6_from_f32 (v : f32) : Z := F32.to_i32 (F32.mul v (F32.of_Z 64)).
Definition fdot16_from_f32 (v : f32) : Z :=
  let x := F32.mul v (F32.of_Z 65536) in
  let x := if F32.lt x max_i32_fits then x else max_i32_fits in
  let x := if F32.gt x min_i32_fits then x else min_i32_fits in
  F32.to_i32 x.
