(* Bit-exact model of SuperBlitter (src/scan/path_aa.rs): supersampled spans -> AlphaRuns -> one
   blit_anti_h per destination scanline; and of scan::path_aa::fill_path for polygons inside the
   clip.  Definitions only. *)
From Coq Require Import ZArith Bool List.
From TS Require Import Base.F32 Model.Rect Model.PathBuilder Model.Edge Model.Walk Model.AlphaRuns Model.IntRect.
Import ListNotations.
Local Open Scope Z_scope.

Record sblit := mksb {
  sb_runs : aruns; sb_offset_x : Z; sb_curr_iy : Z; sb_curr_y : Z;
  sb_width : Z; sb_left : Z; sb_super_left : Z; sb_top : Z }.

(* one flushed scanline: blit_anti_h(left, y, alpha, runs) *)
Record anti_h := mkah { ah_x : Z; ah_y : Z; ah_runs : list Z; ah_alpha : list Z }.

Definition sb_new (sect_left sect_top sect_width : Z) : sblit :=
  mksb (ar_new sect_width) 0 (sect_top - 1) (sect_top * 4 - 1) sect_width sect_left (sect_left * 4) sect_top.

Definition obind {A B} (o : option A) (f : A -> option B) : option B :=
  match o with Some a => f a | None => None end.

Definition sb_flush (s : sblit) (out : list anti_h) : option (sblit * list anti_h) :=
  if sb_curr_iy s <? sb_top s then Some (s, out)
  else
    obind (ar_is_empty (sb_runs s)) (fun empty =>
    if empty then
      Some (mksb (sb_runs s) (sb_offset_x s) (sb_top s - 1) (sb_curr_y s) (sb_width s) (sb_left s) (sb_super_left s) (sb_top s), out)
    else
      obind (ar_reset (sb_runs s) (sb_width s)) (fun r' =>
      Some (mksb r' 0 (sb_top s - 1) (sb_curr_y s) (sb_width s) (sb_left s) (sb_super_left s) (sb_top s),
            mkah (sb_left s) (sb_curr_iy s) (ar_runs (sb_runs s)) (ar_alpha (sb_runs s)) :: out))).

(* SuperBlitter::blit_h(x, y, width) *)
Definition sb_blit_h (s : sblit) (out : list anti_h) (x y width : Z) : option (sblit * list anti_h) :=
  let iy := Z.shiftr y 2 in
  let '(x, width) := if sb_super_left s <=? x then (x - sb_super_left s, width) else (0, x + width) in
  if width =? 0 then None else
  let s := if sb_curr_y s =? y then s
           else mksb (sb_runs s) 0 (sb_curr_iy s) y (sb_width s) (sb_left s) (sb_super_left s) (sb_top s) in
  obind (if iy =? sb_curr_iy s then Some (s, out)
         else obind (sb_flush s out) (fun so =>
              let '(s', out') := so in
              Some (mksb (sb_runs s') (sb_offset_x s') iy (sb_curr_y s') (sb_width s') (sb_left s') (sb_super_left s') (sb_top s'), out')))
        (fun so =>
  let '(s, out) := so in
  let '(xx, sa, n, ea, mv) := blit_h_args x width y in
  obind (ar_add (sb_runs s) xx sa n ea mv (sb_offset_x s)) (fun r =>
  let '(runs', off') := r in
  Some (mksb runs' off' (sb_curr_iy s) (sb_curr_y s) (sb_width s) (sb_left s) (sb_super_left s) (sb_top s), out))).

Fixpoint sb_run (s : sblit) (out : list anti_h) (spans : list span) : option (list anti_h) :=
  match spans with
  | [] => obind (sb_flush s out) (fun so => Some (rev (snd so)))
  | sp :: r => obind (sb_blit_h s out (s_x sp) (s_y sp) (s_w sp)) (fun so => sb_run (fst so) (snd so) r)
  end.
