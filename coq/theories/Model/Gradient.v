(* Bit-exact model of the stop sanitisation of src/shaders/gradient.rs (GradientStop::new, Gradient::new) and
   the ideal (rational) gradient colour function with the factor/bias tables of push_stages.
   Definitions only. *)
From Coq Require Import ZArith QArith Qround Qabs Qminmax Bool List.
From Flocq Require Import IEEE754.BinarySingleNaN.
From TS Require Import Base.F32.
Import ListNotations.
Local Open Scope Z_scope.

Record color := mkcolor { cr : f32; cg : f32; cb : f32; ca : f32 }.
Record stop := mkstop { s_pos : f32; s_color : color }.

(* NormalizedF32::new_clamped: finite -> clamp to [0,1] (clamp_f32 = max(min(n, 1), 0)), otherwise 0 *)
(* (rustc's lowering of f32::max returns +0.0 for max(-0.0, +0.0) here: observed, tied by the correspondence) *)
Definition new_clamped (n : f32) : f32 :=
  if F32.is_finite n then
    let r := F32.max (F32.min F32.one n) F32.zero in
    if F32.eq r F32.zero then F32.zero else r
  else F32.zero.

Definition stop_new (pos : f32) (c : color) : stop := mkstop (new_clamped pos) c.

(* Scalar::bound(self, min, max) = max.min(self).max(min) *)
Definition bound (x lo hi : f32) : f32 := F32.max (F32.min hi x) lo.
Definition nearly_zero : f32 := F32.of_bits 964689920.  (* 1/4096 *)
Definition is_nearly_equal (a b : f32) : bool := F32.le (F32.abs (F32.sub a b)) nearly_zero.
Definition is_opaque (c : color) : bool := F32.eq (ca c) F32.one.

(* the `for i in start_index..stops.len()` loop; [rest] = the stops from index i on *)
Fixpoint fix_positions (rest : list stop) (prev uniform_step : f32) (uniform : bool) : list stop * bool :=
  match rest with
  | [] => ([], uniform)
  | s :: r =>
      let curr := match r with [] => F32.one | _ => bound (s_pos s) prev F32.one end in
      let uniform := uniform && is_nearly_equal uniform_step (F32.sub curr prev) in
      let '(r', u') := fix_positions r curr uniform_step uniform in
      (mkstop (new_clamped curr) (s_color s) :: r', u')
  end.

Record gradient := mkgrad { g_stops : list stop; g_opaque : bool; g_uniform : bool }.

(* Gradient::new on a list of at least two stops (already built by GradientStop::new) *)
Definition gradient_new (stops : list stop) : option gradient :=
  match stops with
  | [] | [_] => None   (* debug_assert!(stops.len() > 1) *)
  | s0 :: _ =>
      let lastc := s_color (last stops s0) in
      let dummy_first := F32.ne (s_pos s0) F32.zero in
      let dummy_last := F32.ne (s_pos (last stops s0)) F32.one in
      let stops := if dummy_first then stop_new F32.zero (s_color s0) :: stops else stops in
      let stops := if dummy_last then stops ++ [stop_new F32.one lastc] else stops in
      let opaque := forallb (fun s => is_opaque (s_color s)) stops in
      (* start_index = 0 with a dummy first stop, else 1 *)
      let '(head, rest) := if dummy_first then ([], stops) else (firstn 1 stops, skipn 1 stops) in
      let uniform_step := match rest with s :: _ => F32.sub (s_pos s) F32.zero | [] => F32.zero end in
      let '(rest', uniform) := fix_positions rest F32.zero uniform_step true in
      Some (mkgrad (head ++ rest') opaque uniform)
  end.

(* ---- the ideal gradient over Q --------------------------------------------------------------------- *)
Local Open Scope Q_scope.
(* the factor / bias pair push_stages computes for the interval [tl, tr] with colours cl, cr *)
Definition factor (tl tr cl cr : Q) : Q := (cr - cl) / (tr - tl).
Definition bias (tl tr cl cr : Q) : Q := cl - factor tl tr cl cr * tl.
(* linear interpolation between the two stops *)
Definition lerp_stops (tl tr cl cr t : Q) : Q := cl + (cr - cl) * ((t - tl) / (tr - tl)).

(* the evenly spaced 2-stop stage: factor = c1 - c0, bias = c0 *)
Definition two_stop (c0 c1 t : Q) : Q := (c1 - c0) * t + c0.

(* tiling of t *)
Definition repeat_x1 (t : Q) : Q := t - inject_Z (Qfloor t).
Definition reflect_x1 (t : Q) : Q :=
  let u := t - 1 in Qabs (u - 2 * inject_Z (Qfloor (u * (1 # 2))) - 1).
Definition pad_x1 (t : Q) : Q := Qmin (Qmax t 0) 1.
