(* Bit-exact model of the fixed-point edge set-up (src/edge.rs LineEdge::new, src/fixed_point.rs)
   and of BasicEdgeBuilder for line-only paths without clipping (src/edge_builder.rs).
   Definitions only. *)
From Coq Require Import ZArith Bool List.
From TS Require Import Base.F32 Model.Rect Model.PathBuilder.
Import ListNotations.
Local Open Scope Z_scope.

Definition wrap32 (z : Z) : Z := (z + 2147483648) mod 4294967296 - 2147483648.
Definition in32 (z : Z) : bool := (-2147483648 <=? z) && (z <=? 2147483647).
(* checked i32 arithmetic: None = overflow (a panic in an overflow-checked build) *)
Definition ck (z : Z) : option Z := if in32 z then Some z else None.
(* math::left_shift: ((value as u32) << shift) as i32 *)
Definition left_shift (v s : Z) : Z := wrap32 (v * 2 ^ s).
Definition sar (v s : Z) : Z := Z.shiftr v s.   (* arithmetic >> on i32/i64 *)

Definition bind {A B} (o : option A) (f : A -> option B) : option B :=
  match o with Some a => f a | None => None end.
Notation "'do' x <- e ; k" := (bind e (fun x => k)) (at level 200, x name, e at level 100, k at level 200).

(* fdot6::round: (n + 32) >> 6 *)
Definition fdot6_round (n : Z) : option Z := do s <- ck (n + 32); Some (sar s 6).
(* fdot6::to_fdot16: debug_assert!((left_shift(n, 10) >> 10) == n) *)
Definition fdot6_to_fdot16 (n : Z) : option Z :=
  let r := left_shift n 10 in if sar r 10 =? n then Some r else None.
(* fdot16::div: clamp((numer << 16 as i64) / denom) *)
Definition fdot16_div (numer denom : Z) : option Z :=
  if denom =? 0 then None
  else let v := Z.quot (numer * 65536) denom in
       Some (Z.max (-2147483648) (Z.min v 2147483647)).
(* fdot6::div *)
Definition fdot6_div (a b : Z) : option Z :=
  if b =? 0 then None
  else if (-32768 <=? a) && (a <=? 32767) then
    (* left_shift(a,16) / b : i32 division; i32::MIN / -1 overflows *)
    let n := left_shift a 16 in
    if (n =? -2147483648) && (b =? -1) then None else Some (Z.quot n b)
  else fdot16_div a b.
(* fdot16::mul: ((a as i64 * b as i64) >> 16) as i32 *)
Definition fdot16_mul (a b : Z) : Z := wrap32 (sar (a * b) 16).
(* fdot16::round_to_i32 *)
Definition fdot16_round_to_i32 (x : Z) : option Z := do s <- ck (x + 32768); Some (sar s 16).
(* compute_dy: left_shift(top, 6) + 32 - y0 *)
Definition compute_dy (top y0 : Z) : option Z :=
  do a <- ck (left_shift top 6 + 32); ck (a - y0).

Record ledge := mkedge { e_x : Z; e_dx : Z; e_first_y : Z; e_last_y : Z; e_winding : Z }.

(* LineEdge::new(p0, p1, shift) : outer None = panic, inner None = zero-height edge *)
Definition line_edge_new (p0 p1 : pt) (shift : Z) : option (option ledge) :=
  let scale := F32.of_Z (2 ^ (shift + 6)) in
  let x0 := F32.to_i32 (F32.mul (px p0) scale) in
  let y0 := F32.to_i32 (F32.mul (py p0) scale) in
  let x1 := F32.to_i32 (F32.mul (px p1) scale) in
  let y1 := F32.to_i32 (F32.mul (py p1) scale) in
  let '(x0, y0, x1, y1, winding) := if y1 <? y0 then (x1, y1, x0, y0, -1) else (x0, y0, x1, y1, 1) in
  do top <- fdot6_round y0;
  do bottom <- fdot6_round y1;
  if top =? bottom then Some None
  else
    do ddx <- ck (x1 - x0);
    do ddy <- ck (y1 - y0);
    do slope <- fdot6_div ddx ddy;
    do dy <- compute_dy top y0;
    do xx <- ck (x0 + fdot16_mul slope dy);
    do last <- ck (bottom - 1);
    do x16 <- fdot6_to_fdot16 xx;
    Some (Some (mkedge x16 slope top last winding)).

(* ---- PathEdgeIter: the line segments of a path, every contour auto-closed ---------------------- *)
(* state: points consumed so far (last point), contour start, needs_close_line *)
Fixpoint path_lines_aux (vs : list verb) (ps : list pt) (last mv : pt) (needs_close : bool) : option (list (pt * pt)) :=
  match vs with
  | [] => Some (if needs_close then [(last, mv)] else [])
  | Move :: vs' =>
      match ps with
      | p :: ps' =>
          option_map (fun r => (if needs_close then [(last, mv)] else []) ++ r) (path_lines_aux vs' ps' p p false)
      | [] => None
      end
  | Line :: vs' =>
      match ps with
      | p :: ps' => option_map (cons (last, p)) (path_lines_aux vs' ps' p mv true)
      | [] => None
      end
  | Close :: vs' =>
      option_map (fun r => (if needs_close then [(last, mv)] else []) ++ r) (path_lines_aux vs' ps mv mv false)
  | _ :: _ => None   (* curves: not in this model *)
  end.
Definition path_lines (p : path) : option (list (pt * pt)) :=
  path_lines_aux (pverbs p) (ppoints p) zero_pt zero_pt false.

(* ---- BasicEdgeBuilder::push_line with combine_vertical ------------------------------------------- *)
Inductive combine := CNo | CPartial (last' : ledge) | CTotal.

Definition combine_vertical (e last : ledge) : combine :=
  if negb (e_dx last =? 0) || negb (e_x e =? e_x last) then CNo
  else if e_winding e =? e_winding last then
    if e_last_y e + 1 =? e_first_y last then CPartial (mkedge (e_x last) (e_dx last) (e_first_y e) (e_last_y last) (e_winding last))
    else if e_first_y e =? e_last_y last + 1 then CPartial (mkedge (e_x last) (e_dx last) (e_first_y last) (e_last_y e) (e_winding last))
    else CNo
  else if e_first_y e =? e_first_y last then
    if e_last_y e =? e_last_y last then CTotal
    else if e_last_y e <? e_last_y last then
      CPartial (mkedge (e_x last) (e_dx last) (e_last_y e + 1) (e_last_y last) (e_winding last))
    else CPartial (mkedge (e_x last) (e_dx last) (e_last_y last + 1) (e_last_y e) (e_winding e))
  else if e_last_y e =? e_last_y last then
    if e_first_y last <? e_first_y e then
      CPartial (mkedge (e_x last) (e_dx last) (e_first_y last) (e_first_y e - 1) (e_winding last))
    else CPartial (mkedge (e_x last) (e_dx last) (e_first_y e) (e_first_y last - 1) (e_winding e))
  else CNo.

(* edges are accumulated in reverse (head = last pushed) *)
Definition push_line (acc : list ledge) (e : ledge) : list ledge :=
  match acc with
  | last :: rest =>
      if e_dx e =? 0 then
        match combine_vertical e last with
        | CTotal => rest
        | CPartial l' => l' :: rest
        | CNo => e :: acc
        end
      else e :: acc
  | [] => e :: acc
  end.

Fixpoint build_edges_aux (segs : list (pt * pt)) (shift : Z) (acc : list ledge) : option (list ledge) :=
  match segs with
  | [] => Some (rev acc)
  | (p0, p1) :: r =>
      match line_edge_new p0 p1 shift with
      | None => None
      | Some None => build_edges_aux r shift acc
      | Some (Some e) => build_edges_aux r shift (push_line acc e)
      end
  end.

(* BasicEdgeBuilder::build_edges without a clip: None(panic) / Some None (fewer than 2 edges) / edges *)
Definition build_edges (p : path) (shift : Z) : option (option (list ledge)) :=
  match path_lines p with
  | None => None
  | Some segs =>
      match build_edges_aux segs shift [] with
      | None => None
      | Some es => Some (if (length es <? 2)%nat then None else Some es)
      end
  end.
