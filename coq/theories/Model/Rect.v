(* Bit-exact model of tiny_skia_path::Rect (path/src/rect.rs): from_ltrb, from_xywh,
   from_points.  Definitions only. *)
From Coq Require Import ZArith Bool List.
From TS Require Import Base.F32.
Import ListNotations.
Local Open Scope Z_scope.

Record pt := mkpt { px : f32; py : f32 }.

Record rect := mkrect { rl : f32; rt : f32; rr : f32; rb : f32 }.

(* f32::MAX / f32::MIN as f64 *)
Definition f32_max : f32 := F32.of_bits 2139095039.
Definition f64_f32_max : f64 := F64.of_f32 f32_max.
Definition f64_f32_min : f64 := F64.of_f32 (F32.neg f32_max).

(* fn checked_f32_sub(a, b) -> Option<f32> *)
Definition checked_f32_sub (a b : f32) : option f32 :=
  let n := F64.sub (F64.of_f32 a) (F64.of_f32 b) in
  if F64.le f64_f32_min n && F64.le n f64_f32_max then Some (F64.to_f32 n) else None.

(* Rect::from_ltrb *)
Definition from_ltrb (l t r b : f32) : option rect :=
  if negb (F32.is_finite l && F32.is_finite t && F32.is_finite r && F32.is_finite b) then None
  else if F32.le l r && F32.le t b then
    match checked_f32_sub r l, checked_f32_sub b t with
    | Some _, Some _ => Some (mkrect l t r b)
    | _, _ => None
    end
  else None.

(* Rect::from_xywh(x, y, w, h) = from_ltrb(x, y, w + x, h + y) *)
Definition from_xywh (x y w h : f32) : option rect :=
  from_ltrb x y (F32.add w x) (F32.add h y).

(* four f32 lanes *)
Record lanes := mklanes { l0 : f32; l1 : f32; l2 : f32; l3 : f32 }.
Definition lanes_map2 (f : f32 -> f32 -> f32) (a b : lanes) : lanes :=
  mklanes (f (l0 a) (l0 b)) (f (l1 a) (l1 b)) (f (l2 a) (l2 b)) (f (l3 a) (l3 b)).
Definition lanes_zero : lanes := mklanes F32.zero F32.zero F32.zero F32.zero.
Definition lanes_eq (a b : lanes) : bool :=
  F32.eq (l0 a) (l0 b) && F32.eq (l1 a) (l1 b) && F32.eq (l2 a) (l2 b) && F32.eq (l3 a) (l3 b).

(* the `while offset != points.len()` loop: consumes the remaining points two at a time.
   A trailing single point cannot occur (the caller makes the remaining count even); the
   model stops there like an out-of-range index would: it is reported as [None] state. *)
Fixpoint fp_loop (ps : list pt) (acc mn mx : lanes) : option (lanes * lanes * lanes) :=
  match ps with
  | [] => Some (acc, mn, mx)
  | p0 :: p1 :: rest =>
      let xy := mklanes (px p0) (py p0) (px p1) (py p1) in
      fp_loop rest (lanes_map2 F32.mul acc xy) (lanes_map2 F32.min mn xy) (lanes_map2 F32.max mx xy)
  | [_] => None
  end.

(* [seed_accum] selects what the accumulator starts from: [true] = `min * 0` (the code after
   the fix, and Skia's original), [false] = zeros (the pinned tree before the fix). *)
Definition from_points_gen (seed_accum : bool) (ps : list pt) : option rect :=
  match ps with
  | [] => None
  | [p] => from_xywh (px p) (py p) F32.zero F32.zero
  | [p0; p1] =>
      let '(l, r) := if F32.lt (px p0) (px p1) then (px p0, px p1) else (px p1, px p0) in
      let '(t, b) := if F32.lt (py p0) (py p1) then (py p0, py p1) else (py p1, py p0) in
      from_ltrb l t r b
  | p0 :: rest =>
      let '(mn, rest') :=
        if Z.odd (Z.of_nat (length ps)) then (mklanes (px p0) (py p0) (px p0) (py p0), rest)
        else match rest with
             | p1 :: rest2 => (mklanes (px p0) (py p0) (px p1) (py p1), rest2)
             | [] => (lanes_zero, [])
             end in
      let acc0 := if seed_accum then lanes_map2 F32.mul mn lanes_zero else lanes_zero in
      match fp_loop rest' acc0 mn mn with
      | None => None
      | Some (acc, mn', mx') =>
          if lanes_eq (lanes_map2 F32.mul acc lanes_zero) lanes_zero then
            from_ltrb (F32.min (l0 mn') (l2 mn')) (F32.min (l1 mn') (l3 mn'))
                      (F32.max (l0 mx') (l2 mx')) (F32.max (l1 mx') (l3 mx'))
          else None
      end
  end.

Definition from_points := from_points_gen true.
Definition from_points_pinned := from_points_gen false.

(* ---- derived operations of Rect (all return through from_ltrb) ------------------------- *)

Definition rect_intersect (a b : rect) : option rect :=
  from_ltrb (F32.max (rl a) (rl b)) (F32.max (rt a) (rt b)) (F32.min (rr a) (rr b)) (F32.min (rb a) (rb b)).

Definition rect_is_empty (a : rect) : bool := F32.eq (rl a) (rr a) || F32.eq (rt a) (rb a).

Definition rect_join (a b : rect) : option rect :=
  if rect_is_empty b then Some a
  else if rect_is_empty a then Some b
  else from_ltrb (F32.min (rl a) (rl b)) (F32.min (rt a) (rt b)) (F32.max (rr a) (rr b)) (F32.max (rb a) (rb b)).

Definition rect_inset (a : rect) (dx dy : f32) : option rect :=
  from_ltrb (F32.add (rl a) dx) (F32.add (rt a) dy) (F32.sub (rr a) dx) (F32.sub (rb a) dy).
Definition rect_outset (a : rect) (dx dy : f32) : option rect := rect_inset a (F32.neg dx) (F32.neg dy).

Definition rect_width (a : rect) : f32 := F32.sub (rr a) (rl a).
Definition rect_height (a : rect) : f32 := F32.sub (rb a) (rt a).

(* NonZeroRect::from_ltrb *)
Definition nz_from_ltrb (l t r b : f32) : option rect :=
  if negb (F32.is_finite l && F32.is_finite t && F32.is_finite r && F32.is_finite b) then None
  else if F32.lt l r && F32.lt t b then
    match checked_f32_sub r l, checked_f32_sub b t with
    | Some _, Some _ => Some (mkrect l t r b)
    | _, _ => None
    end
  else None.
Definition nz_from_xywh (x y w h : f32) : option rect := nz_from_ltrb x y (F32.add w x) (F32.add h y).

(* Size::from_wh: both finite and > 0 *)
Definition size_from_wh (w h : f32) : option (f32 * f32) :=
  if F32.is_finite w && F32.gt w F32.zero && F32.is_finite h && F32.gt h F32.zero then Some (w, h) else None.

(* i32::saturate_from(f32), saturate_floor / ceil / round *)
Definition max_i32_fits : f32 := F32.of_bits 1325400063. (* 2147483520.0 *)
Definition min_i32_fits : f32 := F32.neg max_i32_fits.
Definition saturate_from (x : f32) : Z :=
  let x := if F32.lt x max_i32_fits then x else max_i32_fits in
  let x := if F32.gt x min_i32_fits then x else min_i32_fits in
  F32.to_i32 x.
Definition saturate_floor (x : f32) : Z := saturate_from (F32.floor x).
Definition saturate_ceil (x : f32) : Z := saturate_from (F32.ceil x).
(* as written in the source: floor(x) + 0.5, then the truncating cast *)
(* since fix 8d428c4 negative values are rounded with floor(x + 0.5); non-negative ones keep floor(x) + 0.5 truncated *)
Definition saturate_round (x : f32) : Z :=
  if F32.lt x F32.zero then saturate_from (F32.floor (F32.add x F32.half))
  else saturate_from (F32.add (F32.floor x) F32.half).
(* the pinned behaviour, kept for the recorded finding *)
Definition saturate_round_pinned (x : f32) : Z := saturate_from (F32.add (F32.floor x) F32.half).

(* `v as u32` for an i32 value (two's complement reinterpretation) *)
Definition i32_as_u32 (v : Z) : Z := v mod 4294967296.
