(* Executable entry point for the pixel correspondence ("px" suite).
   args: kind mode hq aa r g b a has_mask x0 len W  then W * (dr dg db da mask)  then extra:
     kind 0 (blit_rect via fill_rect / hook): no extra
     kind 1 (blit_anti_h, one run): alpha
     kind 2 (blit_v height 1): alpha               (len = 1)
     kind 3 (blit_anti_h2): alpha0 alpha1           (len = 2)
     kind 4 (public Pixmap::fill_rect, aliased; tiled when W > 8191): no extra
     kind 5 (public fill_rect with a mask of size mw x mh filled with 255): mw mh
     kind 6 (as kind 4 on a pixmap and mask of three identical rows, rect of height 3; the middle row is returned): no extra
   result: -1 (blitter rejected the draw: nothing changes), -9 (stage not modelled), else W * 4 bytes *)
From Coq Require Import ZArith Bool List String.
From TS Require Import Base.F32 Model.Pixel.
Import ListNotations.
Local Open Scope Z_scope.

Fixpoint dec_row (n : nat) (l : list Z) : list lin * list Z :=
  match n with
  | O => ([], l)
  | S n' =>
      match l with
      | r :: g :: b :: a :: m :: rest =>
          let '(row, tl) := dec_row n' rest in (mklin (mkpx r g b a) m 0 :: row, tl)
      | _ => ([], l)
      end
  end.

Definition enc_row (o : option (list px)) : list Z :=
  match o with
  | None => [-9]
  | Some row => flat_map (fun p => [pr p; pg p; pb p; pa p]) row
  end.

(* public fill_rect on a pixmap wider than 8191: DrawTiler cuts the rectangle at multiples of 8191 and every piece is
   blitted on its own (the batches restart at the tile's left edge) *)
Definition splice (acc r : list px) (a l : nat) : list px := firstn a acc ++ firstn l (skipn a r) ++ skipn (a + l) acc.
Fixpoint tiled_rect (n t : nat) (p : paintm) (bl : blitterm) (x0 len : nat) (row : list lin) (acc : list px) : option (list px) :=
  match n with
  | O => Some acc
  | S n' =>
      let tw := Z.to_nat 8191 in
      let lo := Nat.max x0 (tw * t) in let hi := Nat.min (x0 + len) (tw * (t + 1)) in
      if Nat.ltb lo hi then
        match blit_rect_row p bl lo (hi - lo) row with
        | Some r => tiled_rect n' (t + 1) p bl x0 len row (splice acc r lo (hi - lo))
        | None => None
        end
      else tiled_rect n' (t + 1) p bl x0 len row acc
  end.
Definition blit_rect_tiled (p : paintm) (bl : blitterm) (x0 len : nat) (row : list lin) : option (list px) :=
  tiled_rect (S (List.length row / Z.to_nat 8191)) 0 p bl x0 len row (map in_dst row).

Definition run_px (l : list Z) : list Z :=
  match l with
  | kind :: mode :: hq :: aa :: r :: g :: b :: a :: hm :: x0 :: len :: w :: rest =>
      let '(row, extra) := dec_row (Z.to_nat w) rest in
      (* a colour channel above 255 is the bit pattern of an f32 in [0, 1] (Color::from_rgba), otherwise a byte (from_rgba8) *)
      let ch := fun v => if v <=? 255 then norm_u8 v else F32.of_bits v in
      let p := mkpaint (mode_name mode) (mkcf (ch r) (ch g) (ch b) (ch a)) (negb (aa =? 0)) (negb (hq =? 0)) in
      let unchanged := flat_map (fun i => [pr (in_dst i); pg (in_dst i); pb (in_dst i); pa (in_dst i)]) row in
      if kind =? 5 then
        (* RasterPipelineBlitter::new refuses a mask whose size differs from the pixmap's *)
        match extra with
        | mw :: mh :: _ =>
            if (mw =? w) && (mh =? 1) then
              match blitter_new p true with
              | None => unchanged
              | Some bl => enc_row (blit_rect_row p bl (Z.to_nat x0) (Z.to_nat len)
                                      (map (fun i => mklin (in_dst i) 255 0) row))
              end
            else unchanged
        | _ => [-3]
        end
      else
      match blitter_new p (negb (hm =? 0)) with
      | None => if (kind =? 4) || (kind =? 6) then unchanged else [-1]
      | Some bl =>
          let x0 := Z.to_nat x0 in let len := Z.to_nat len in
          if kind =? 0 then enc_row (blit_rect_row p bl x0 len row)
          else if (kind =? 4) || (kind =? 6) then enc_row (blit_rect_tiled p bl x0 len row)
          else if kind =? 1 then
            match extra with alpha :: _ => enc_row (blit_anti_h_row p bl alpha x0 len row) | _ => [-3] end
          else if kind =? 2 then
            match extra with alpha :: _ => enc_row (blit_aa_row p bl [alpha] x0 row) | _ => [-3] end
          else
            match extra with a0 :: a1 :: _ => enc_row (blit_aa_row p bl [a0; a1] x0 row) | _ => [-3] end
      end
  | _ => [-3]
  end.
