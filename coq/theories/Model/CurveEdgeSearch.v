(* Search aid (not part of any theorem): CubicEdge::update WITHOUT the pin `newy = max(newy, oldy)`.  An input on which this
   variant stops (LineEdge::update is handed y0 > y1: a debug assertion) while the real model continues is an input on which
   the pin is needed.  tools/dev/find_pin_cubics.py uses it to look for such cubics among those the edge builder produces
   (after chopping at the y extrema); the hits are kept in corpus/C01 and corpus/C02. *)
From Coq Require Import ZArith Bool List.
From TS Require Import Base.F32 Model.Rect Model.PathBuilder Model.Edge Model.CurveEdge Model.CurveFill.
Import ListNotations.
Local Open Scope Z_scope.

Fixpoint cubic_update_loop_nopin (fuel : nat) (c : cubic) (count oldx oldy : Z) : option (cubic * option ledge) :=
  match fuel with
  | O => None
  | S fuel' =>
      let count := count + 1 in
      do nxt <- (if count <? 0 then
                   do nx <- ck (oldx + sar (c_dx c) (c_dshift c));
                   do dx' <- ck (c_dx c + sar (c_ddx c) (c_shift c)); do ddx' <- ck (c_ddx c + c_dddx c);
                   do ny <- ck (oldy + sar (c_dy c) (c_dshift c));
                   do dy' <- ck (c_dy c + sar (c_ddy c) (c_shift c)); do ddy' <- ck (c_ddy c + c_dddy c);
                   Some (nx, ny, dx', dy', ddx', ddy')
                 else Some (c_lastx c, c_lasty c, c_dx c, c_dy c, c_ddx c, c_ddy c));
      let '(newx, newy, dx, dy, ddx, ddy) := nxt in
      let c' := mkcubic count (c_shift c) (c_dshift c) newx newy dx dy ddx ddy (c_dddx c) (c_dddy c) (c_lastx c) (c_lasty c) (c_wind c) in
      do r <- line_update (c_wind c) oldx oldy newx newy;
      match r with
      | Some e => Some (c', Some e)
      | None => if count =? 0 then Some (c', None) else cubic_update_loop_nopin fuel' c' count newx newy
      end
  end.
Definition cubic_update_nopin (c : cubic) : option (cubic * option ledge) :=
  if 0 <=? c_count c then None else cubic_update_loop_nopin 70 c (c_count c) (c_x c) (c_y c).
Fixpoint cubic_lines_loop_nopin (fuel : nat) (c : cubic) : option (list ledge) :=
  match fuel with
  | O => None
  | S fuel' =>
      if 0 <=? c_count c then Some []
      else
        do r <- cubic_update_nopin c;
        match snd r with
        | None => Some []
        | Some e => do rest <- cubic_lines_loop_nopin fuel' (fst r); Some (e :: rest)
        end
  end.
Definition cubic_edge_lines_nopin (p0 p1 p2 p3 : pt) (shift : Z) : option (list ledge) :=
  do c0 <- cubic_new2 p0 p1 p2 p3 shift;
  match c0 with
  | None => Some []
  | Some c =>
      do r <- cubic_update_nopin c;
      match snd r with
      | None => Some []
      | Some e => do rest <- cubic_lines_loop_nopin 70 (fst r); Some (e :: rest)
      end
  end.

(* 1 when some y-monotone piece of the cubic needs the pin at this shift *)
Definition cubic_needs_pin (p0 p1 p2 p3 : pt) (shift : Z) : bool :=
  existsb (fun c : cub =>
             let '(a, b, c2, d) := c in
             match cubic_edge_lines a b c2 d shift, cubic_edge_lines_nopin a b c2 d shift with
             | Some _, None => true
             | _, _ => false
             end)
          (chop_cubic_at_y_extrema (p0, p1, p2, p3)).
