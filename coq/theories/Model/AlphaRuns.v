(* Bit-exact model of src/alpha_runs.rs (AlphaRuns: sparse run-length coverage accumulator) and of
   SuperBlitter::blit_h (src/scan/path_aa.rs), plus the dense per-pixel specification.
   Arrays are lists of Z (runs: 0 = None); every slice index, `unwrap` and u8/u16 arithmetic step
   that can panic in the implementation yields None here.  Definitions only. *)
From Coq Require Import ZArith Bool List.
Import ListNotations.
Local Open Scope Z_scope.

Record aruns := mkar { ar_runs : list Z; ar_alpha : list Z }.

Definition getz (l : list Z) (i : Z) : option Z :=
  if i <? 0 then None else nth_error l (Z.to_nat i).
Fixpoint set_nth (l : list Z) (n : nat) (v : Z) : option (list Z) :=
  match l, n with
  | [], _ => None
  | _ :: r, O => Some (v :: r)
  | a :: r, S n' => option_map (cons a) (set_nth r n' v)
  end.
Definition setz (l : list Z) (i : Z) (v : Z) : option (list Z) :=
  if i <? 0 then None else set_nth l (Z.to_nat i) v.

Definition bind {A B} (o : option A) (f : A -> option B) : option B :=
  match o with Some a => f a | None => None end.
Notation "'do' x <- e ; k" := (bind e (fun x => k)) (at level 200, x name, e at level 100, k at level 200).

(* AlphaRuns::new(width) followed by reset(width) *)
Definition ar_new (width : Z) : aruns :=
  let n := Z.to_nat (width + 1) in
  let runs := repeat 0 n in
  let runs := match set_nth runs 0 width with Some r => r | None => runs end in
  mkar runs (repeat 0 n).

(* reset(width): runs[0] = width; runs[width] = None; alpha[0] = 0.  width must fit u16. *)
Definition ar_reset (s : aruns) (width : Z) : option aruns :=
  if 65535 <? width then None else
  do r1 <- setz (ar_runs s) 0 width;
  do r2 <- setz r1 width 0;
  do a1 <- setz (ar_alpha s) 0 0;
  Some (mkar r2 a1).

Definition ar_is_empty (s : aruns) : option bool :=
  do r0 <- getz (ar_runs s) 0;
  if r0 =? 0 then Some true
  else
    do a0 <- getz (ar_alpha s) 0;
    do rn <- getz (ar_runs s) r0;
    Some ((a0 =? 0) && (rn =? 0)).

(* the first loop of break_run: walk from [base] until the run containing base+x, split it *)
Fixpoint br_loop1 (fuel : nat) (s : aruns) (off : Z) (x : Z) : option aruns :=
  match fuel with
  | O => None
  | S fuel' =>
      if x <=? 0 then Some s
      else
        do n <- getz (ar_runs s) off;
        if n =? 0 then None (* unwrap on None *)
        else if x <? n then
          do a0 <- getz (ar_alpha s) off;
          do al <- setz (ar_alpha s) (off + x) a0;
          do r1 <- setz (ar_runs s) off x;
          do r2 <- setz r1 (off + x) (n - x);
          Some (mkar r2 al)
        else br_loop1 fuel' s (off + n) (x - n)
  end.

(* the second loop: from base+orig_x, make sure a run boundary exists at +count *)
Fixpoint br_loop2 (fuel : nat) (s : aruns) (off : Z) (x : Z) : option aruns :=
  match fuel with
  | O => None
  | S fuel' =>
      do n <- getz (ar_runs s) off;
      if n =? 0 then None
      else if x <? n then
        do a0 <- getz (ar_alpha s) off;
        do al <- setz (ar_alpha s) (off + x) a0;
        do r1 <- setz (ar_runs s) off x;
        do r2 <- setz r1 (off + x) (n - x);
        Some (mkar r2 al)
      else if x - n =? 0 then Some s
      else br_loop2 fuel' s (off + n) (x - n)
  end.

(* break_run(&mut runs[base..], &mut alpha[base..], x, count) *)
Definition break_run (s : aruns) (base x count : Z) : option aruns :=
  let fuel := S (length (ar_runs s)) in
  do s1 <- br_loop1 fuel s base x;
  br_loop2 fuel s1 (base + x) count.

(* catch_overflow: (alpha - (alpha >> 8)) as u8, alpha <= 256 by debug_assert *)
Definition catch_overflow (a : Z) : option Z :=
  if 256 <? a then None else Some ((a - Z.shiftr a 8) mod 256).

(* the `loop` of the middle section *)
Fixpoint mid_loop (fuel : nat) (s : aruns) (off : Z) (mid : Z) (maxv : Z) : option (aruns * Z) :=
  match fuel with
  | O => None
  | S fuel' =>
      do a0 <- getz (ar_alpha s) off;
      do a <- catch_overflow (a0 + maxv);
      do al <- setz (ar_alpha s) off a;
      do n <- getz (ar_runs s) off;
      if n =? 0 then None
      else if mid <? n then None  (* debug_assert!(n <= middle_count); usize underflow *)
      else
        let s' := mkar (ar_runs s) al in
        if mid - n =? 0 then Some (s', off + n)
        else mid_loop fuel' s' (off + n) (mid - n) maxv
  end.

(* AlphaRuns::add; returns the new state and the offset_x to pass next time *)
Definition ar_add (s : aruns) (x start_alpha middle_count stop_alpha max_value offset_x : Z) : option (aruns * Z) :=
  if x <? offset_x then None (* usize underflow of x -= offset_x *)
  else
  let x := x - offset_x in
  let off := offset_x in
  let last := offset_x in
  (* start *)
  do st1 <- (if start_alpha =? 0 then Some (s, off, x)
             else
               do s1 <- break_run s off x 1;
               do a0 <- getz (ar_alpha s1) (off + x);
               let tmp := a0 + start_alpha in
               do v <- catch_overflow tmp;
               do al <- setz (ar_alpha s1) (off + x) v;
               Some (mkar (ar_runs s1) al, off + x + 1, 0));
  let '(s, off, x) := st1 in
  (* middle *)
  do st2 <- (if middle_count =? 0 then Some (s, off, x, last)
             else
               do s1 <- break_run s off x middle_count;
               do r <- mid_loop (S (length (ar_runs s1))) s1 (off + x) middle_count max_value;
               let '(s2, off2) := r in
               Some (s2, off2, 0, off2));
  let '(s, off, x, last) := st2 in
  (* stop *)
  if stop_alpha =? 0 then Some (s, last)
  else
    do s1 <- break_run s off x 1;
    do a0 <- getz (ar_alpha s1) (off + x);
    if 255 <? a0 + stop_alpha then None (* u8 `+=` overflow *)
    else
      do al <- setz (ar_alpha s1) (off + x) (a0 + stop_alpha);
      Some (mkar (ar_runs s1) al, off + x).

(* ---- dense specification: one alpha per pixel ------------------------------------------------ *)
Fixpoint dense_aux (fuel : nat) (s : aruns) (off : Z) : option (list Z) :=
  match fuel with
  | O => None
  | S fuel' =>
      do n <- getz (ar_runs s) off;
      if n =? 0 then Some []
      else
        do a <- getz (ar_alpha s) off;
        do rest <- dense_aux fuel' s (off + n);
        Some (repeat a (Z.to_nat n) ++ rest)
  end.
Definition dense (s : aruns) : option (list Z) := dense_aux (S (length (ar_runs s))) s 0.

Definition upd (l : list Z) (i : Z) (f : Z -> option Z) : option (list Z) :=
  do a <- getz l i; do v <- f a; setz l i v.
Fixpoint upd_range (l : list Z) (i : Z) (n : nat) (f : Z -> option Z) : option (list Z) :=
  match n with
  | O => Some l
  | S n' => do l' <- upd l i f; upd_range l' (i + 1) n' f
  end.

(* what add is meant to do, pixel by pixel *)
Definition dense_add (d : list Z) (x sa mid ea maxv : Z) : option (list Z) :=
  do d1 <- (if sa =? 0 then Some (d, x) else do d' <- upd d x (fun a => catch_overflow (a + sa)); Some (d', x + 1));
  let '(d, x) := d1 in
  do d2 <- upd_range d x (Z.to_nat mid) (fun a => catch_overflow (a + maxv));
  let x := x + mid in
  if ea =? 0 then Some d2
  else upd d2 x (fun a => if 255 <? a + ea then None else Some (a + ea)).

(* ---- SuperBlitter::blit_h (SHIFT = 2) ----------------------------------------------------------- *)
Definition ss_shift : Z := 2.
Definition ss_scale : Z := 4.
Definition ss_mask : Z := 3.
Definition coverage_to_partial_alpha (aa : Z) : Z := Z.shiftl aa (8 - 2 * ss_shift) mod 256.

(* the arguments blit_h passes to AlphaRuns::add for a span [x, x+width) (already relative to
   super_left) on supersampled row y: (x>>2, start alpha, middle count, stop alpha, max value) *)
Definition blit_h_args (x width y : Z) : Z * Z * Z * Z * Z :=
  let start := x in
  let stop := x + width in
  let fb := Z.land start ss_mask in
  let fe := Z.land stop ss_mask in
  let n := Z.shiftr stop ss_shift - Z.shiftr start ss_shift - 1 in
  let '(fb, n, fe) :=
    if n <? 0 then (fe - fb, 0, 0)
    else if fb =? 0 then (fb, n + 1, fe) else (ss_scale - fb, n, fe) in
  let max_value := Z.shiftl 1 (8 - ss_shift) - Z.shiftr (Z.land y ss_mask + 1) ss_shift in
  (Z.shiftr x ss_shift, coverage_to_partial_alpha fb, n, coverage_to_partial_alpha fe, max_value).
