(* Bit-exact model of tiny_skia_path::Transform (path/src/transform.rs): classification,
   map_point(s), concat, invert.  Definitions only. *)
From Coq Require Import ZArith Bool List.
From TS Require Import Base.F32 Model.Rect.
Import ListNotations.

Record ts := mkts { sx : f32; kx : f32; ky : f32; sy : f32; tx : f32; ty : f32 }.

Definition ts_identity : ts := mkts F32.one F32.zero F32.zero F32.one F32.zero F32.zero.

(* Transform::from_row(sx, ky, kx, sy, tx, ty) *)
Definition from_row (a b c d e f : f32) : ts := mkts a c b d e f.

Definition is_identity (t : ts) : bool :=
  F32.eq (sx t) F32.one && F32.eq (kx t) F32.zero && F32.eq (ky t) F32.zero &&
  F32.eq (sy t) F32.one && F32.eq (tx t) F32.zero && F32.eq (ty t) F32.zero.
Definition has_scale (t : ts) : bool := F32.ne (sx t) F32.one || F32.ne (sy t) F32.one.
Definition has_skew (t : ts) : bool := F32.ne (kx t) F32.zero || F32.ne (ky t) F32.zero.
Definition has_translate (t : ts) : bool := F32.ne (tx t) F32.zero || F32.ne (ty t) F32.zero.
Definition is_translate (t : ts) : bool := negb (has_scale t) && negb (has_skew t) && has_translate t.
Definition is_scale_translate (t : ts) : bool := (has_scale t || has_translate t) && negb (has_skew t).
Definition ts_is_finite (t : ts) : bool :=
  F32.is_finite (sx t) && F32.is_finite (ky t) && F32.is_finite (kx t) &&
  F32.is_finite (sy t) && F32.is_finite (tx t) && F32.is_finite (ty t).

Definition map_point (t : ts) (p : pt) : pt :=
  if is_identity t then p
  else if is_translate t then mkpt (F32.add (px p) (tx t)) (F32.add (py p) (ty t))
  else if is_scale_translate t then
    mkpt (F32.add (F32.mul (px p) (sx t)) (tx t)) (F32.add (F32.mul (py p) (sy t)) (ty t))
  else
    mkpt (F32.add (F32.add (F32.mul (px p) (sx t)) (F32.mul (py p) (kx t))) (tx t))
         (F32.add (F32.add (F32.mul (px p) (ky t)) (F32.mul (py p) (sy t))) (ty t)).

Definition map_points (t : ts) (ps : list pt) : list pt := map (map_point t) ps.

Definition mul_add_mul (a b c d : f32) : f32 :=
  F64.to_f32 (F64.add (F64.mul (F64.of_f32 a) (F64.of_f32 b)) (F64.mul (F64.of_f32 c) (F64.of_f32 d))).

(* fn concat(a, b) *)
Definition concat (a b : ts) : ts :=
  if is_identity a then b
  else if is_identity b then a
  else if negb (has_skew a) && negb (has_skew b) then
    from_row (F32.mul (sx a) (sx b)) F32.zero F32.zero (F32.mul (sy a) (sy b))
             (F32.add (F32.mul (sx a) (tx b)) (tx a)) (F32.add (F32.mul (sy a) (ty b)) (ty a))
  else
    from_row (mul_add_mul (sx a) (sx b) (kx a) (ky b))
             (mul_add_mul (ky a) (sx b) (sy a) (ky b))
             (mul_add_mul (sx a) (kx b) (kx a) (sy b))
             (mul_add_mul (ky a) (kx b) (sy a) (sy b))
             (F32.add (mul_add_mul (sx a) (tx b) (kx a) (ty b)) (tx a))
             (F32.add (mul_add_mul (ky a) (tx b) (sy a) (ty b)) (ty a)).
Definition pre_concat (t o : ts) : ts := concat t o.
Definition post_concat (t o : ts) : ts := concat o t.

Definition nearly_zero_cubed : f32 :=
  let z := F32.of_bits 964689920 (* 1/4096 *) in F32.mul (F32.mul z z) z.

Definition dcross (a b c d : f64) : f64 := F64.sub (F64.mul a b) (F64.mul c d).
Definition dcross_dscale (a b c d : f32) (scale : f64) : f32 :=
  F64.to_f32 (F64.mul (dcross (F64.of_f32 a) (F64.of_f32 b) (F64.of_f32 c) (F64.of_f32 d)) scale).
Definition d_one64 : f64 := F64.of_f32 F32.one.

Definition inv_determinant (t : ts) : option f64 :=
  let det := dcross (F64.of_f32 (sx t)) (F64.of_f32 (sy t)) (F64.of_f32 (kx t)) (F64.of_f32 (ky t)) in
  if F32.le (F32.abs (F64.to_f32 det)) nearly_zero_cubed then None
  else Some (F64.div d_one64 det).

Definition compute_inv (t : ts) (inv_det : f64) : ts :=
  from_row (F64.to_f32 (F64.mul (F64.of_f32 (sy t)) inv_det))
           (F64.to_f32 (F64.mul (F64.of_f32 (F32.neg (ky t))) inv_det))
           (F64.to_f32 (F64.mul (F64.of_f32 (F32.neg (kx t))) inv_det))
           (F64.to_f32 (F64.mul (F64.of_f32 (sx t)) inv_det))
           (dcross_dscale (kx t) (ty t) (sy t) (tx t) inv_det)
           (dcross_dscale (ky t) (tx t) (sx t) (ty t) inv_det).

(* [checked] = the scale/translate route verifies that the result is finite (after the fix);
   [false] = the pinned tree, which returned Some without looking. *)
Definition invert_gen (checked : bool) (t : ts) : option ts :=
  if is_identity t then Some t
  else if checked && negb (ts_is_finite t) then None
  else if is_scale_translate t then
    let r :=
      if has_scale t then
        let inv_x := F32.div F32.one (sx t) in
        let inv_y := F32.div F32.one (sy t) in
        from_row inv_x F32.zero F32.zero inv_y (F32.mul (F32.neg (tx t)) inv_x) (F32.mul (F32.neg (ty t)) inv_y)
      else from_row F32.one F32.zero F32.zero F32.one (F32.neg (tx t)) (F32.neg (ty t)) in
    if negb checked || ts_is_finite r then Some r else None
  else
    match inv_determinant t with
    | None => None
    | Some inv_det =>
        let r := compute_inv t inv_det in
        if ts_is_finite r then Some r else None
    end.

Definition invert := invert_gen true.
Definition invert_pinned := invert_gen false.
