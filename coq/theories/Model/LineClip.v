(* Bit-exact model of src/line_clipper.rs `intersect` (the scalar pre-clip of the hairline strokers), after fix
   a85a284.  The two intersection helpers are parameters of the generic definition so that the containment theorem
   can be stated for arbitrary helper results; the binary32/64 instance is what runs against the code.
   Definitions only. *)
From Coq Require Import ZArith Bool List.
From TS Require Import Base.F32 Model.Rect.
Import ListNotations.

Definition scalar_nearly_zero : f32 := F32.of_bits 964689920. (* 1/4096 *)
Definition is_nearly_zero (x : f32) : bool := F32.le (F32.abs x) scalar_nearly_zero.
Definition ave (a b : f32) : f32 := F32.mul (F32.add a b) F32.half.

Definition pin_unsorted_f32 (v l0 l1 : f32) : f32 :=
  let '(l0, l1) := if F32.lt l1 l0 then (l1, l0) else (l0, l1) in
  if F32.lt v l0 then l0 else if F32.gt v l1 then l1 else v.
Definition pin_unsorted_f64 (v l0 l1 : f64) : f64 :=
  let '(l0, l1) := if F64.lt l1 l0 then (l1, l0) else (l0, l1) in
  if F64.lt v l0 then l0 else if F64.gt v l1 then l1 else v.

(* sect_with_horizontal / sect_with_vertical *)
Definition sect_with_horizontal (s0 s1 : pt) (y : f32) : f32 :=
  let dy := F32.sub (py s1) (py s0) in
  if is_nearly_zero dy then ave (px s0) (px s1)
  else
    let x0 := F64.of_f32 (px s0) in let y0 := F64.of_f32 (py s0) in
    let x1 := F64.of_f32 (px s1) in let y1 := F64.of_f32 (py s1) in
    let r := F64.add x0 (F64.div (F64.mul (F64.sub (F64.of_f32 y) y0) (F64.sub x1 x0)) (F64.sub y1 y0)) in
    F64.to_f32 (pin_unsorted_f64 r x0 x1).
Definition sect_with_vertical (s0 s1 : pt) (x : f32) : f32 :=
  let dx := F32.sub (px s1) (px s0) in
  if is_nearly_zero dx then ave (py s0) (py s1)
  else
    let x0 := F64.of_f32 (px s0) in let y0 := F64.of_f32 (py s0) in
    let x1 := F64.of_f32 (px s1) in let y1 := F64.of_f32 (py s1) in
    F64.to_f32 (F64.add y0 (F64.div (F64.mul (F64.sub (F64.of_f32 x) x0) (F64.sub y1 y0)) (F64.sub x1 x0))).

Definition nested_lt (a b dim : f32) : bool := F32.le a b && (F32.lt a b || F32.gt dim F32.zero).
Definition contains_no_empty_check (o i : rect) : bool :=
  F32.le (rl o) (rl i) && F32.le (rt o) (rt i) && F32.ge (rr o) (rr i) && F32.ge (rb o) (rb i).

Section Generic.
  Variables (sh sv : pt -> pt -> f32 -> f32).

  Definition intersect_gen (s0 s1 : pt) (clip : rect) : option (pt * pt) :=
    let bounds := from_ltrb (F32.min (px s0) (px s1)) (F32.min (py s0) (py s1))
                            (F32.max (px s0) (px s1)) (F32.max (py s0) (py s1)) in
    let early :=
      match bounds with
      | Some b =>
          if contains_no_empty_check clip b then Some (Some (s0, s1))
          else if nested_lt (rr b) (rl clip) (rect_width b) || nested_lt (rr clip) (rl b) (rect_width b)
                  || nested_lt (rb b) (rt clip) (rect_height b) || nested_lt (rb clip) (rt b) (rect_height b)
               then Some None else None
      | None => None
      end in
    match early with
    | Some r => r
    | None =>
        (* index0 = the point with the smaller y *)
        let first_is_top := F32.lt (py s0) (py s1) in
        let '(t0, t1) := if first_is_top then (s0, s1) else (s1, s0) in   (* t0.y <= t1.y *)
        let t0 := if F32.lt (py t0) (rt clip) then mkpt (sh s0 s1 (rt clip)) (rt clip) else t0 in
        let t1 := if F32.gt (py t1) (rb clip) then mkpt (sh s0 s1 (rb clip)) (rb clip) else t1 in
        (* back in source order *)
        let '(a, b) := if first_is_top then (t0, t1) else (t1, t0) in
        let a_is_left := F32.lt (px a) (px b) in
        let '(l, r) := if a_is_left then (a, b) else (b, a) in             (* l.x <= r.x *)
        let reject :=
          if F32.le (px r) (rl clip) || F32.ge (px l) (rr clip) then
            F32.ne (px a) (px b) || F32.lt (px a) (rl clip) || F32.gt (px a) (rr clip)
          else false in
        if reject then None
        else
          let y0 := py a in let y1 := py b in
          let l := if F32.lt (px l) (rl clip) then mkpt (rl clip) (pin_unsorted_f32 (sv s0 s1 (rl clip)) y0 y1) else l in
          let r := if F32.gt (px r) (rr clip) then mkpt (rr clip) (pin_unsorted_f32 (sv s0 s1 (rr clip)) y0 y1) else r in
          Some (if a_is_left then (l, r) else (r, l))
    end.
End Generic.

Definition intersect := intersect_gen sect_with_horizontal sect_with_vertical.
