(* Ideal (exact rational) affine maps: the mathematics Transform implements.  Definitions only. *)
From Coq Require Import QArith.
Local Open Scope Q_scope.

Record tq := mktq { qsx : Q; qkx : Q; qky : Q; qsy : Q; qtx : Q; qty : Q }.

Definition mapq (t : tq) (p : Q * Q) : Q * Q :=
  (fst p * qsx t + snd p * qkx t + qtx t, fst p * qky t + snd p * qsy t + qty t).

(* the general branch of fn concat(a, b) *)
Definition concatq (a b : tq) : tq :=
  mktq (qsx a * qsx b + qkx a * qky b) (qsx a * qkx b + qkx a * qsy b)
       (qky a * qsx b + qsy a * qky b) (qky a * qkx b + qsy a * qsy b)
       (qsx a * qtx b + qkx a * qty b + qtx a) (qky a * qtx b + qsy a * qty b + qty a).

(* the scale+translate fast path of fn concat *)
Definition concatq_fast (a b : tq) : tq :=
  mktq (qsx a * qsx b) 0 0 (qsy a * qsy b) (qsx a * qtx b + qtx a) (qsy a * qty b + qty a).

Definition detq (t : tq) : Q := qsx t * qsy t - qkx t * qky t.

(* compute_inv with inv_det = 1/det *)
Definition invq (t : tq) : tq :=
  let i := / detq t in
  mktq (qsy t * i) (- qkx t * i) (- qky t * i) (qsx t * i)
       ((qkx t * qty t - qsy t * qtx t) * i) ((qky t * qtx t - qsx t * qty t) * i).

(* the scale+translate route of fn invert *)
Definition invq_fast (t : tq) : tq :=
  mktq (/ qsx t) 0 0 (/ qsy t) (- qtx t * / qsx t) (- qty t * / qsy t).
