(* Executable entry point for the C15 correspondence: GradientStop::new + Gradient::new. *)
From Coq Require Import ZArith Bool List.
From TS Require Import Base.F32 Model.Gradient.
Import ListNotations.
Local Open Scope Z_scope.

Fixpoint dec_stops (n : nat) (l : list Z) : list stop :=
  match n, l with
  | S n', p :: r :: g :: b :: a :: rest =>
      stop_new (F32.of_bits p) (mkcolor (F32.of_bits r) (F32.of_bits g) (F32.of_bits b) (F32.of_bits a)) :: dec_stops n' rest
  | _, _ => []
  end.

Definition enc_stop (s : stop) : list Z :=
  [F32.to_bits (s_pos s); F32.to_bits (cr (s_color s)); F32.to_bits (cg (s_color s)); F32.to_bits (cb (s_color s));
   F32.to_bits (ca (s_color s))].

(* args: n (pos r g b a)*n -> uniform opaque m (pos r g b a)*m ; -2 = rejected (fewer than two stops) *)
Definition run_grad_new (l : list Z) : list Z :=
  match l with
  | n :: rest =>
      match gradient_new (dec_stops (Z.to_nat n) rest) with
      | None => [-2]
      | Some g => (if g_uniform g then 1 else 0) :: (if g_opaque g then 1 else 0) :: Z.of_nat (length (g_stops g)) ::
                  flat_map enc_stop (g_stops g)
      end
  | [] => [-3]
  end.
