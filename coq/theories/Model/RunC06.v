(* Executable entry point for the C06 correspondence: aliased butt-cap hairlines of polylines whose
   segments lie inside the clip (no float clipping on that route). *)
From Coq Require Import ZArith Bool List.
From TS Require Import Base.F32 Model.Rect Model.IntRect Model.RectRound Model.PathBuilder Model.Conic Model.RunC14 Model.Edge Model.Hairline Model.LineClip.
From TS Require Model.HairlineAA.
Import ListNotations.
Local Open Scope Z_scope.

Definition seg_inside (w h : Z) (p0 p1 : pt) : bool :=
  let fw := F32.of_Z w in let fh := F32.of_Z h in
  F32.le F32.zero (F32.min (px p0) (px p1)) && F32.le F32.zero (F32.min (py p0) (py p1)) &&
  F32.le (F32.max (px p0) (px p1)) fw && F32.le (F32.max (py p0) (py p1)) fh.

(* hairline segments of a path: every Line, and Close back to the contour start *)
Fixpoint hair_segments (vs : list verb) (ps : list pt) (last first : pt) : option (list (pt * pt)) :=
  match vs with
  | [] => Some []
  | Move :: vs' => match ps with p :: ps' => hair_segments vs' ps' p p | [] => None end
  | Line :: vs' => match ps with p :: ps' => option_map (cons (last, p)) (hair_segments vs' ps' p first) | [] => None end
  | Close :: vs' => option_map (cons (last, first)) (hair_segments vs' ps first first)
  | _ :: _ => None
  end.

(* hair_line_rgn for one segment with a clip (stroke_path_impl always passes the clip for lines): chop to +-32767,
   chop to the clip in scalar space, convert to FDot6, walk.  None = a panic *)
Definition fixed_bounds : option rect := from_ltrb (F32.of_Z (-32767)) (F32.of_Z (-32767)) (F32.of_Z 32767) (F32.of_Z 32767).
Definition hair_line_rgn_seg (w h : Z) (p0 p1 : pt) : option (list (Z * Z)) :=
  match fixed_bounds, from_ltrb F32.zero F32.zero (F32.of_Z w) (F32.of_Z h) with
  | Some fb, Some cb =>
      match intersect p0 p1 fb with
      | None => Some []
      | Some (a, b) =>
          match intersect a b cb with
          | None => Some []
          | Some (c, d) =>
              hair_line_fd6 (fdot6_from_f32 (px c)) (fdot6_from_f32 (py c)) (fdot6_from_f32 (px d)) (fdot6_from_f32 (py d))
                            (fdot16_from_f32 (F32.of_Z w)) (fdot16_from_f32 (F32.of_Z h))
          end
      end
  | _, _ => None
  end.

Fixpoint hair_all (w h : Z) (segs : list (pt * pt)) : option (list (Z * Z)) :=
  match segs with
  | [] => Some []
  | (p0, p1) :: r =>
      match hair_line_rgn_seg w h p0 p1, hair_all w h r with
      | Some a, Some b => Some (a ++ b)
      | _, _ => None
      end
  end.

(* the path-level early outs of stroke_path_impl (butt caps: the bounds are outset by 1) *)
Definition hair_path_visible (p : path) (w h : Z) : bool :=
  match rect_outset (pbounds p) F32.one F32.one with
  | None => false
  | Some r =>
      match rect_round_out r, ir_from_xywh 0 0 w h with
      | Some ib, Some clip =>
          match ir_intersect clip ib with
          | None => false
          | Some _ => if ir_contains clip ib then true
                      else match ir_make_outset clip 1 1 with Some _ => true | None => false end
          end
      | _, _ => false
      end
  end.

(* args: w h <builder ops> -> x y pairs of the blits; -9 = outside this model (curves), -2 = a panic *)
Definition run_hair_spans (l : list Z) : list Z :=
  match l with
  | w :: h :: ops =>
      match finish (run_ops push_path from_points (S (length ops)) new_builder ops) with
      | None => [-8]
      | Some p =>
          match hair_segments (pverbs p) (ppoints p) zero_pt zero_pt with
          | None => [-9]
          | Some segs =>
              if negb (hair_path_visible p w h) then []
              else
                match hair_all w h segs with
                | None => [-2]
                | Some bl => flat_map (fun b => [fst b; snd b]) bl
                end
          end
      end
  | _ => [-3]
  end.

(* args: w h <builder ops> -> x y alpha triples of the anti-aliased butt-cap hairline (per-pixel contributions with alpha > 0,
   in emission order); -9 = outside this model (curves), -2 = a panic *)
Definition run_hair_aa (l : list Z) : list Z :=
  match l with
  | w :: h :: ops =>
      match finish (run_ops push_path from_points (S (length ops)) new_builder ops) with
      | None => [-8]
      | Some p =>
          match hair_segments (pverbs p) (ppoints p) zero_pt zero_pt with
          | None => [-9]
          | Some segs =>
              if negb (hair_path_visible p w h) then []
              else
                match HairlineAA.anti_hair_all w h segs with
                | None => [-2]
                | Some bl => flat_map (fun b => [fst (fst b); snd (fst b); snd b]) bl
                end
          end
      end
  | _ => [-3]
  end.

(* args: x0 y0 x1 y1  l t r b (bit patterns) -> -1 (rejected) | -2 (clip rect invalid) | x0' y0' x1' y1' *)
Definition run_line_clip (l : list Z) : list Z :=
  match l with
  | [x0; y0; x1; y1; cl; ct; cr; cb] =>
      match from_ltrb (fz cl) (fz ct) (fz cr) (fz cb) with
      | None => [-2]
      | Some clip =>
          match Model.LineClip.intersect (pz x0 y0) (pz x1 y1) clip with
          | None => [-1]
          | Some (p, q) => [F32.to_bits (px p); F32.to_bits (py p); F32.to_bits (px q); F32.to_bits (py q)]
          end
      end
  | _ => [-3]
  end.
