(* Bit-exact model of tiny_skia_path::PathBuilder and Path (path/src/path_builder.rs,
   path/src/path.rs).  Definitions only.  `Vec` is a list (push = append at the end). *)
From Coq Require Import ZArith Bool List.
From TS Require Import Base.F32 Model.Rect.
Import ListNotations.

Inductive verb := Move | Line | Quad | Cubic | Close.

Definition verb_eqb (a b : verb) : bool :=
  match a, b with
  | Move, Move | Line, Line | Quad, Quad | Cubic, Cubic | Close, Close => true
  | _, _ => false
  end.

Definition arity (v : verb) : nat :=
  match v with Move => 1 | Line => 1 | Quad => 2 | Cubic => 3 | Close => 0 end.

Record builder := mkb {
  verbs : list verb;
  points : list pt;
  last_move_to_index : nat;
  move_to_required : bool }.

Record path := mkpath { pverbs : list verb; ppoints : list pt; pbounds : rect }.

Definition new_builder : builder := mkb [] [] 0 true.
(* <PathBuilder as Default>::default(): the same empty builder as new() (a derived Default would start with
   move_to_required = false and let line_to open a contour without a Move) *)
Definition default_builder : builder := new_builder.

Definition zero_pt : pt := mkpt F32.zero F32.zero.

(* replace the last element *)
Fixpoint set_last {A} (l : list A) (x : A) : list A :=
  match l with
  | [] => []
  | [_] => [x]
  | a :: r => a :: set_last r x
  end.

Definition last_verb (b : builder) : option verb := last (map Some (verbs b)) None.

Definition move_to (b : builder) (p : pt) : builder :=
  match last_verb b with
  | Some Move => mkb (verbs b) (set_last (points b) p) (last_move_to_index b) (move_to_required b)
  | _ => mkb (verbs b ++ [Move]) (points b ++ [p]) (length (points b)) false
  end.

Definition inject_move_to_if_needed (b : builder) : builder :=
  if move_to_required b then
    match nth_error (points b) (last_move_to_index b) with
    | Some p => move_to b p
    | None => move_to b zero_pt
    end
  else b.

Definition line_to (b : builder) (p : pt) : builder :=
  let b := inject_move_to_if_needed b in
  mkb (verbs b ++ [Line]) (points b ++ [p]) (last_move_to_index b) (move_to_required b).

Definition quad_to (b : builder) (p1 p : pt) : builder :=
  let b := inject_move_to_if_needed b in
  mkb (verbs b ++ [Quad]) (points b ++ [p1; p]) (last_move_to_index b) (move_to_required b).

Definition cubic_to (b : builder) (p1 p2 p : pt) : builder :=
  let b := inject_move_to_if_needed b in
  mkb (verbs b ++ [Cubic]) (points b ++ [p1; p2; p]) (last_move_to_index b) (move_to_required b).

Definition close (b : builder) : builder :=
  let vs := match last_verb b with
            | None => verbs b
            | Some Close => verbs b
            | Some _ => verbs b ++ [Close]
            end in
  mkb vs (points b) (last_move_to_index b) true.

Definition clear (b : builder) : builder := mkb [] [] 0 true.

Definition push_rect (b : builder) (r : rect) : builder :=
  let b := move_to b (mkpt (rl r) (rt r)) in
  let b := line_to b (mkpt (rr r) (rt r)) in
  let b := line_to b (mkpt (rr r) (rb r)) in
  let b := line_to b (mkpt (rl r) (rb r)) in
  close b.

Section WithConic.
  (* AutoConicToQuads::compute(last, p1, p2, w): [None] or the list of (ctrl, end) pairs.
     The structural theorems hold for every oracle; the runnable model instantiates it with
     the bit-exact Model.Conic. *)
  Variable conic_quads : pt -> pt -> pt -> f32 -> option (list (pt * pt)).

  Definition conic_to (b : builder) (p1 p : pt) (w : f32) : builder :=
    if negb (F32.gt w F32.zero) then line_to b p
    else if negb (F32.is_finite w) then line_to (line_to b p1) p
    else if F32.eq w F32.one then quad_to b p1 p
    else
      let b := inject_move_to_if_needed b in
      match last (map Some (points b)) None with
      | None => b (* `last_point().unwrap()`: unreachable, see builder_inv *)
      | Some lastp =>
          match conic_quads lastp p1 p w with
          | None => b
          | Some qs => fold_left (fun b q => quad_to b (fst q) (snd q)) qs b
          end
      end.

  Definition root_2_over_2 : f32 := F32.of_bits 1060439283. (* 0.707106781 *)

  Definition push_oval (b : builder) (o : rect) : builder :=
    let cx := F32.add (F32.mul (rl o) F32.half) (F32.mul (rr o) F32.half) in
    let cy := F32.add (F32.mul (rt o) F32.half) (F32.mul (rb o) F32.half) in
    let ov0 := mkpt cx (rb o) in let ov1 := mkpt (rl o) cy in
    let ov2 := mkpt cx (rt o) in let ov3 := mkpt (rr o) cy in
    let rp0 := mkpt (rr o) (rb o) in let rp1 := mkpt (rl o) (rb o) in
    let rp2 := mkpt (rl o) (rt o) in let rp3 := mkpt (rr o) (rt o) in
    let b := move_to b ov3 in
    let b := conic_to b rp0 ov0 root_2_over_2 in
    let b := conic_to b rp1 ov1 root_2_over_2 in
    let b := conic_to b rp2 ov2 root_2_over_2 in
    let b := conic_to b rp3 ov3 root_2_over_2 in
    close b.

  Definition push_circle (b : builder) (x y r : f32) : builder :=
    match from_xywh (F32.sub x r) (F32.sub y r) (F32.add r r) (F32.add r r) with
    | Some o => push_oval b o
    | None => b
    end.
End WithConic.

(* Path::segments(), as the list of (verb, its points) *)
Inductive segment :=
| SMove (p : pt) | SLine (p : pt) | SQuad (p1 p : pt) | SCubic (p1 p2 p : pt) | SClose.

(* [None] = an index out of range (a panic in the implementation) *)
Fixpoint segments_aux (vs : list verb) (ps : list pt) : option (list segment) :=
  match vs with
  | [] => Some []
  | Move :: vs' => match ps with
                   | p :: ps' => option_map (cons (SMove p)) (segments_aux vs' ps')
                   | _ => None end
  | Line :: vs' => match ps with
                   | p :: ps' => option_map (cons (SLine p)) (segments_aux vs' ps')
                   | _ => None end
  | Quad :: vs' => match ps with
                   | p1 :: p :: ps' => option_map (cons (SQuad p1 p)) (segments_aux vs' ps')
                   | _ => None end
  | Cubic :: vs' => match ps with
                    | p1 :: p2 :: p :: ps' => option_map (cons (SCubic p1 p2 p)) (segments_aux vs' ps')
                    | _ => None end
  | Close :: vs' => option_map (cons SClose) (segments_aux vs' ps)
  end.

Definition segments (p : path) : option (list segment) := segments_aux (pverbs p) (ppoints p).

Definition seg_verb (s : segment) : verb :=
  match s with SMove _ => Move | SLine _ => Line | SQuad _ _ => Quad | SCubic _ _ _ => Cubic | SClose => Close end.

Definition apply_segment (b : builder) (s : segment) : builder :=
  match s with
  | SMove p => move_to b p
  | SLine p => line_to b p
  | SQuad p1 p => quad_to b p1 p
  | SCubic p1 p2 p => cubic_to b p1 p2 p
  | SClose => close b
  end.

(* PathBuilder::push_path after the fix: replay the other path's segments through the
   builder's own methods. *)
Definition push_path (b : builder) (other : path) : builder :=
  match segments other with
  | Some segs => fold_left apply_segment segs b
  | None => b
  end.

(* PathBuilder::push_path on the pinned tree: raw append. *)
Definition push_path_raw (b : builder) (other : path) : builder :=
  mkb (verbs b ++ pverbs other) (points b ++ ppoints other) (length (points b)) (move_to_required b).

Definition finish_gen (fp : list pt -> option rect) (b : builder) : option path :=
  match verbs b with
  | [] => None
  | [_] => None
  | _ => match fp (points b) with
         | Some r => Some (mkpath (verbs b) (points b) r)
         | None => None
         end
  end.

Definition finish := finish_gen from_points.

(* PathBuilder::from_rect *)
Definition path_from_rect (r : rect) : path :=
  mkpath [Move; Line; Line; Line; Close]
         [mkpt (rl r) (rt r); mkpt (rr r) (rt r); mkpt (rr r) (rb r); mkpt (rl r) (rb r)] r.

(* Path::clear *)
Definition path_clear (p : path) : builder := mkb [] [] 0 true.

(* the public operations of a builder call sequence *)
Inductive op :=
| OMoveTo (p : pt) | OLineTo (p : pt) | OQuadTo (p1 p : pt) | OCubicTo (p1 p2 p : pt) | OClose
| OPushRect (r : rect) | OPushOval (r : rect) | OPushCircle (x y r : f32)
| OPushPath (p : path) | OClear.

Section Run.
  Variable conic_quads : pt -> pt -> pt -> f32 -> option (list (pt * pt)).
  Variable pp : builder -> path -> builder. (* which push_path *)

  Definition step (b : builder) (o : op) : builder :=
    match o with
    | OMoveTo p => move_to b p
    | OLineTo p => line_to b p
    | OQuadTo p1 p => quad_to b p1 p
    | OCubicTo p1 p2 p => cubic_to b p1 p2 p
    | OClose => close b
    | OPushRect r => push_rect b r
    | OPushOval r => push_oval conic_quads b r
    | OPushCircle x y r => push_circle conic_quads b x y r
    | OPushPath p => pp b p
    | OClear => clear b
    end.

  Definition run (ops : list op) : builder := fold_left step ops new_builder.
End Run.
