(* Per-pixel arithmetic of PNG export / import (src/color.rs, src/pixmap.rs): premultiply_u8,
   PremultipliedColorU8::demultiply (binary64), colour-type expansion, and the round trip under an
   abstract lossless codec.  Definitions only. *)
From Coq Require Import ZArith Bool List.
From TS Require Import Base.F32 Model.Pixel.
Import ListNotations.
Local Open Scope Z_scope.

Definition d255 : f64 := F64.of_Z 255.
Definition dhalf : f64 := F64.of_f32 F32.half.

(* (c as f64 / (alpha as f64 / 255.0) + 0.5) as u8 *)
Definition demul_chan (c alpha : Z) : Z :=
  let a := F64.div (F64.of_Z alpha) d255 in
  F64.to_u8 (F64.add (F64.div (F64.of_Z c) a) dhalf).

(* PremultipliedColorU8::demultiply *)
Definition demultiply (p : px) : px :=
  if pa p =? 255 then p
  else mkpx (demul_chan (pr p) (pa p)) (demul_chan (pg p) (pa p)) (demul_chan (pb p) (pa p)) (pa p).

(* the premultiply loop of decode_png *)
Definition premultiply (p : px) : px :=
  mkpx (premultiply_u8 (pr p) (pa p)) (premultiply_u8 (pg p) (pa p)) (premultiply_u8 (pb p) (pa p)) (pa p).

(* ColorU8::premultiply: skips the arithmetic for opaque pixels *)
Definition color_u8_premultiply (p : px) : px := if pa p =? 255 then p else premultiply p.

(* colour-type expansion of decode_png (after normalize_to_color8): 0 grey, 2 rgb, 4 grey+alpha, 6 rgba *)
Fixpoint expand (ct : Z) (bytes : list Z) : list px :=
  match ct, bytes with
  | 0, g :: r => mkpx g g g 255 :: expand ct r
  | 2, a :: b :: c :: r => mkpx a b c 255 :: expand ct r
  | 4, g :: a :: r => mkpx g g g a :: expand ct r
  | 6, a :: b :: c :: d :: r => mkpx a b c d :: expand ct r
  | _, _ => []
  end.

Definition decode_pixels (ct : Z) (bytes : list Z) : list px := map premultiply (expand ct bytes).
Definition encode_pixels (pxs : list px) : list px := map demultiply pxs.

Section Codec.
  (* the `png` crate: an abstract codec, assumed lossless on 8-bit RGBA (recorded in the trusted base) *)
  Variable T : Type.
  Variable codec_enc : Z -> Z -> list px -> T.
  Variable codec_dec : T -> option (Z * Z * list px).
  Hypothesis codec_lossless : forall w h l, codec_dec (codec_enc w h l) = Some (w, h, l).

  Definition encode_png (w h : Z) (pxs : list px) : T := codec_enc w h (encode_pixels pxs).
  Definition decode_png (d : T) : option (Z * Z * list px) :=
    match codec_dec d with
    | Some (w, h, l) => Some (w, h, map premultiply l)
    | None => None
    end.
End Codec.
