(* Model of path/src/dash.rs.
   - the interval bookkeeping (find_first_interval, the dash loop of dash_impl with index wrap,
     skip_first_segment and the closed-contour join-up) is written ONCE, generically over the number
     type, and instantiated with IEEE floats (binary32 for find_first_interval, binary64 for the running
     distance of the loop: bit-exact, run against the code) and with Z (ideal, the instance the theorems
     of Proofs/DashProofs.v are about);
   - StrokeDash::new, adjust_dash_offset (with Rust's `%` = fmod), ContourMeasureIter / push_segment /
     distance_to_segment / segment_to for polylines are bit-exact binary32.
   Curve measuring (compute_quad_segs / compute_cubic_segs and chopping) is not modelled.
   Definitions only. *)
From Coq Require Import ZArith Bool List.
From Flocq Require Import Core.Zaux IEEE754.BinarySingleNaN.
From TS Require Import Base.F32 Model.Rect Model.PathBuilder.
Import ListNotations.
Local Open Scope Z_scope.

(* ---- bounded iteration with binary fuel: runs [f] at most [p] times, stops at the first [inr] ---- *)
Section Iter.
  Context {S R : Type}.
  Variable f : S -> S + R.
  Fixpoint iter_until (p : positive) (s : S) : S + R :=
    match p with
    | xH => f s
    | xO p' => match iter_until p' s with inl s' => iter_until p' s' | inr r => inr r end
    | xI p' => match f s with
               | inl s' => match iter_until p' s' with inl s'' => iter_until p' s'' | inr r => inr r end
               | inr r => inr r
               end
    end.
End Iter.

(* ---- generic interval bookkeeping --------------------------------------------------------------- *)
Section Generic.
  Variable N : Type.
  Variables (nadd nsub : N -> N -> N) (nlt neqb : N -> N -> bool) (nzero : N).

  (* find_first_interval *)
  Fixpoint find_first_aux (l : list N) (i : nat) (off : N) : option (N * nat) :=
    match l with
    | [] => None
    | gap :: r =>
        if nlt gap off || (neqb off gap && negb (neqb gap nzero)) then find_first_aux r (S i) (nsub off gap)
        else Some (nsub gap off, i)
    end.
  Definition find_first_interval (arr : list N) (off : N) : N * nat :=
    match find_first_aux arr 0 off with
    | Some r => r
    | None => (nth 0 arr nzero, 0%nat)
    end.

  (* one piece handed to push_segment: (start_d, stop_d, start_with_move_to) *)
  Definition piece : Type := N * N * bool.

  (* the state of `while distance < length { .. }` *)
  Record dstate := mkds { ds_distance : N; ds_dlen : N; ds_index : nat; ds_skip : bool; ds_added : bool;
                          ds_acc : list piece (* reversed *) }.

  (* index += 1; if index == dash.array.len() { index = 0 } *)
  Definition next_index (n i : nat) : nat := if Nat.eqb (S i) n then 0%nat else S i.

  Definition dash_step (arr : list N) (len : N) (s : dstate) : dstate + (list piece * bool) :=
    if nlt (ds_distance s) len then
      let on := Nat.even (ds_index s) && negb (ds_skip s) in
      let stop := nadd (ds_distance s) (ds_dlen s) in
      let acc := if on then (ds_distance s, stop, true) :: ds_acc s else ds_acc s in
      let idx := next_index (length arr) (ds_index s) in
      inl (mkds stop (nth idx arr nzero) idx false on acc)
    else inr (rev (ds_acc s), ds_added s).

  (* the pieces of one contour: None = fuel exhausted (excluded by the theorems, never in practice:
     the fuel is far above the million-dash limit) *)
  Definition dash_contour (fuel : positive) (arr : list N) (first_len : N) (first_index : nat)
             (len : N) (closed : bool) (first_len_nonneg : bool) : option (list piece) :=
    match iter_until (dash_step arr len) fuel (mkds nzero first_len first_index closed false []) with
    | inl _ => None
    | inr (ps, added) =>
        Some (if closed && Nat.even first_index && first_len_nonneg
              then ps ++ [(nzero, first_len, negb added)] else ps)
    end.
End Generic.

Arguments mkds {N}.
Arguments ds_distance {N}. Arguments ds_dlen {N}. Arguments ds_index {N}.
Arguments ds_skip {N}. Arguments ds_added {N}. Arguments ds_acc {N}.

(* ---- binary32 instance --------------------------------------------------------------------------- *)
(* Rust's `%` on f32 (fmod): exact remainder with the sign of the dividend *)
Definition frem (x y : f32) : f32 :=
  match x, y with
  | B754_nan, _ | _, B754_nan => F32.nan
  | B754_infinity _, _ => F32.nan
  | _, B754_zero _ => F32.nan
  | B754_zero _, _ => x
  | B754_finite _ _ _ _, B754_infinity _ => x
  | B754_finite sx mx ex _, B754_finite _ my ey _ =>
      let e := Z.min ex ey in
      let X := Zpos mx * 2 ^ (ex - e) in
      let Y := Zpos my * 2 ^ (ey - e) in
      let r := Z.rem X Y in
      binary_normalize 24 128 _ _ mode_NE (if sx then - r else r) e sx
  end.

Definition f32_find_first := find_first_interval f32 F32.sub F32.lt F32.eq F32.zero.
(* the running distance of dash_impl is an f64 (as in Skia), fed with the f32 intervals *)
Definition f64_zero : f64 := F64.of_bits 0.
Definition f64_dash_contour := dash_contour f64 F64.add F64.lt f64_zero.

(* adjust_dash_offset; None = a debug assertion fails *)
Definition adjust_dash_offset (offset len : f32) : option f32 :=
  if F32.lt offset F32.zero then
    let o := F32.neg offset in
    let o := if F32.gt o len then frem o len else o in
    let o := F32.sub len o in
    if negb (F32.le o len) then None
    else Some (if F32.eq o len then F32.zero else o)
  else if F32.ge offset len then Some (frem offset len)
  else Some offset.

Record stroke_dash := mksd { sd_array : list f32; sd_offset : f32; sd_interval_len : f32;
                             sd_first_len : f32; sd_first_index : nat }.

Definition f32_sum (l : list f32) : f32 := fold_left F32.add l F32.zero.
(* NonZeroPositiveF32::new: finite and > 0 *)
Definition nonzero_positive (x : f32) : bool := F32.is_finite x && F32.gt x F32.zero.

(* StrokeDash::new: outer None = a debug assertion fails (panic), inner None = rejected *)
Definition strokedash_new (arr : list f32) (offset : f32) : option (option stroke_dash) :=
  if negb (F32.is_finite offset) then Some None
  else if (length arr <? 2)%nat || negb (Nat.even (length arr)) then Some None
  else if existsb (fun n => F32.lt n F32.zero) arr then Some None
  else
    let il := f32_sum arr in
    if negb (nonzero_positive il) then Some None
    else
      match adjust_dash_offset offset il with
      | None => None
      | Some off =>
          if negb (F32.ge off F32.zero) || negb (F32.lt off il) then None
          else
            let '(fl, fi) := f32_find_first arr off in
            if negb (F32.ge fl F32.zero) then None
            else Some (Some (mksd arr off il fl fi))
      end.

(* ---- contour measuring for polylines ---------------------------------------------------------------- *)
(* Point::distance *)
Definition pt_distance (a b : pt) : f32 :=
  let dx := F32.sub (px a) (px b) in
  let dy := F32.sub (py a) (py b) in
  let mag2 := F32.add (F32.mul dx dx) (F32.mul dy dy) in
  if F32.is_finite mag2 then F32.sqrt mag2
  else
    let xx := F64.of_f32 dx in let yy := F64.of_f32 dy in
    F64.to_f32 (BinarySingleNaN.Bsqrt mode_NE (F64.add (F64.mul xx xx) (F64.mul yy yy))).

(* a measured line segment: (distance up to its end, index of its first point) *)
Record contour := mkct { ct_segs : list (f32 * nat); ct_pts : list pt; ct_len : f32; ct_closed : bool }.

Record cstate := mkcs { cs_segs : list (f32 * nat); cs_pts : list pt; cs_pi : nat; cs_dist : f32;
                        cs_closed : bool; cs_prev : pt }.

Definition line_seg (s : cstate) (p0 p1 : pt) : cstate :=
  let d := pt_distance p0 p1 in
  let nd := F32.add (cs_dist s) d in
  if F32.gt nd (cs_dist s) then mkcs (cs_segs s ++ [(nd, cs_pi s)]) (cs_pts s) (cs_pi s) nd (cs_closed s) (cs_prev s)
  else mkcs (cs_segs s) (cs_pts s) (cs_pi s) nd (cs_closed s) (cs_prev s).

(* ContourMeasureIter::next over the remaining segments of the path: returns the contour (None = the
   iterator ends: a non-finite length or nothing left), and the remaining segments.
   Outer None: a curve (not modelled) or an index panic. *)
Fixpoint measure_aux (segs : list segment) (s : cstate) : option (cstate * list segment) :=
  match segs with
  | [] => Some (s, [])
  | sg :: rest =>
      let s' :=
        match sg with
        | SMove p => Some (mkcs (cs_segs s) (cs_pts s ++ [p]) (cs_pi s) (cs_dist s) (cs_closed s) p)
        | SLine p =>
            let s1 := line_seg s (cs_prev s) p in
            Some (if F32.gt (cs_dist s1) (cs_dist s)
                  then mkcs (cs_segs s1) (cs_pts s1 ++ [p]) (S (cs_pi s1)) (cs_dist s1) (cs_closed s1) p
                  else mkcs (cs_segs s1) (cs_pts s1) (cs_pi s1) (cs_dist s1) (cs_closed s1) p)
        | SClose => Some (mkcs (cs_segs s) (cs_pts s) (cs_pi s) (cs_dist s) true (cs_prev s))
        | _ => None
        end in
      match s' with
      | None => None
      | Some s' =>
          match rest with
          | SMove _ :: _ => Some (s', rest)
          | _ => measure_aux rest s'
          end
      end
  end.

Inductive measured := MEnd | MContour (c : contour) (rest : list segment).

Definition measure_next (segs : list segment) : option measured :=
  match segs with
  | [] => Some MEnd
  | _ =>
      match measure_aux segs (mkcs [] [] 0 F32.zero false zero_pt) with
      | None => None
      | Some (s, rest) =>
          if negb (F32.is_finite (cs_dist s)) then Some MEnd
          else
            let fin (s : cstate) :=
              Some (if (length (cs_pts s) =? 0)%nat then MEnd
                    else MContour (mkct (cs_segs s) (cs_pts s) (cs_dist s) (cs_closed s)) rest) in
            if cs_closed s then
              match nth_error (cs_pts s) 0, nth_error (cs_pts s) (cs_pi s) with
              | Some first, Some lastp =>
                  let s1 := line_seg s lastp first in
                  fin (if F32.gt (cs_dist s1) (cs_dist s)
                       then mkcs (cs_segs s1) (cs_pts s1 ++ [first]) (cs_pi s1) (cs_dist s1) true (cs_prev s1)
                       else s1)
              | _, _ => None
              end
            else fin s
      end
  end.

(* find_segment (binary search) followed by `index ^= index >> 31` *)
Fixpoint find_seg_loop (fuel : nat) (segs : list (f32 * nat)) (key : f32) (lo hi : Z) : option Z :=
  match fuel with
  | O => None
  | S f =>
      if lo <? hi then
        let mid := Z.shiftr (hi + lo) 1 in
        match nth_error segs (Z.to_nat mid) with
        | None => None
        | Some (d, _) => if F32.lt d key then find_seg_loop f segs key (mid + 1) hi else find_seg_loop f segs key lo mid
        end
      else Some hi
  end.
Definition find_segment (segs : list (f32 * nat)) (key : f32) : option Z :=
  match segs with
  | [] => None
  | _ =>
      match find_seg_loop (S (length segs)) segs key 0 (Z.of_nat (length segs) - 1) with
      | None => None
      | Some hi =>
          match nth_error segs (Z.to_nat hi) with
          | None => None
          | Some (d, _) => Some (if F32.lt d key then hi + 1 else hi)
          end
      end
  end.

(* NormalizedF32::new *)
Definition normalized (t : f32) : option f32 :=
  if F32.is_finite t && F32.ge t F32.zero && F32.le t F32.one then Some t else None.

(* distance_to_segment for line segments: outer None = panic, inner None = t is not normalised *)
Definition distance_to_segment (c : contour) (d : f32) : option (option (nat * f32)) :=
  match find_segment (ct_segs c) d with
  | None => None
  | Some idx =>
      let i := Z.to_nat idx in
      match nth_error (ct_segs c) i with
      | None => None
      | Some (segd, _) =>
          let start_d := match i with
                         | O => F32.zero
                         | S j => match nth_error (ct_segs c) j with Some (pd, _) => pd | None => F32.zero end
                         end in
          let start_t := F32.zero in
          let t := F32.add start_t (F32.div (F32.mul (F32.sub F32.one start_t) (F32.sub d start_d)) (F32.sub segd start_d)) in
          Some (match normalized t with Some t => Some (i, t) | None => None end)
      end
  end.

Definition interp (a b t : f32) : f32 := F32.add a (F32.mul (F32.sub b a) t).

Definition last_point (b : builder) : option pt := last (map Some (points b)) None.

(* segment_to for a line segment whose points start at index [pi] *)
Definition segment_to (c : contour) (pi : nat) (start_t stop_t : f32) (b : builder) : option builder :=
  if F32.eq start_t stop_t then
    Some (match last_point b with Some p => line_to b p | None => b end)
  else
    match nth_error (ct_pts c) pi, nth_error (ct_pts c) (S pi) with
    | Some p0, Some p1 =>
        Some (if F32.eq stop_t F32.one then line_to b p1
              else line_to b (mkpt (interp (px p0) (px p1) stop_t) (interp (py p0) (py p1) stop_t)))
    | _, _ => None
    end.

(* the `loop` of push_segment walking whole segments *)
Fixpoint walk_segments (fuel : nat) (c : contour) (seg_index : nat) (pi : nat) (start_t : f32) (stop_pi : nat)
         (b : builder) : option (nat * builder) :=
  match fuel with
  | O => None
  | S f =>
      match segment_to c pi start_t F32.one b with
      | None => None
      | Some b' =>
          (* inner loop: advance to the next segment with a different point_index *)
          let fix adv (fuel2 : nat) (j : nat) : option nat :=
            match fuel2 with
            | O => None
            | S f2 => match nth_error (ct_segs c) (S j) with
                      | None => None
                      | Some (_, pj) => if Nat.eqb pj pi then adv f2 (S j) else Some (S j)
                      end
            end in
          match adv (S (length (ct_segs c))) seg_index with
          | None => None
          | Some j =>
              match nth_error (ct_segs c) j with
              | None => None
              | Some (_, pj) =>
                  if (stop_pi <=? pj)%nat then Some (pj, b') else walk_segments f c j pj F32.zero stop_pi b'
              end
          end
      end
  end.

(* push_segment; None = panic *)
Definition push_segment (c : contour) (start_d stop_d : f32) (with_move : bool) (b : builder) : option builder :=
  let start_d := if F32.lt start_d F32.zero then F32.zero else start_d in
  let stop_d := if F32.gt stop_d (ct_len c) then ct_len c else stop_d in
  if negb (F32.le start_d stop_d) then Some b
  else if (length (ct_segs c) =? 0)%nat then Some b
  else
    match distance_to_segment c start_d with
    | None => None
    | Some None => Some b
    | Some (Some (si, start_t)) =>
        match distance_to_segment c stop_d with
        | None => None
        | Some None => Some b
        | Some (Some (ei, stop_t)) =>
            match nth_error (ct_segs c) si, nth_error (ct_segs c) ei with
            | Some (_, spi), Some (_, epi) =>
                let b1 :=
                  if with_move then
                    match nth_error (ct_pts c) spi, nth_error (ct_pts c) (S spi) with
                    | Some p0, Some p1 =>
                        Some (move_to b (mkpt (interp (px p0) (px p1) start_t) (interp (py p0) (py p1) start_t)))
                    | _, _ => None
                    end
                  else Some b in
                match b1 with
                | None => None
                | Some b1 =>
                    if Nat.eqb spi epi then segment_to c spi start_t stop_t b1
                    else
                      match walk_segments (S (length (ct_segs c))) c si spi start_t epi b1 with
                      | None => None
                      | Some (pj, b2) => segment_to c pj F32.zero stop_t b2
                      end
                end
            | _, _ => None
            end
        end
    end.

(* ---- dash_impl ----------------------------------------------------------------------------------------- *)
Definition max_dash_count : f32 := F32.of_Z 1000000.
Definition dash_fuel : positive := 16777216.

Inductive dash_result := DPanic | DNone | DPath (b : builder).

Fixpoint dash_contours (fuel : nat) (d : stroke_dash) (segs : list segment) (count : f32) (b : builder) : dash_result :=
  match fuel with
  | O => DPanic
  | S f =>
      match measure_next segs with
      | None => DPanic
      | Some MEnd => DPath b
      | Some (MContour c rest) =>
          let n2 := F32.of_Z (Z.shiftr (Z.of_nat (length (sd_array d))) 1) in
          let count := F32.add count (F32.div (F32.mul (ct_len c) n2) (sd_interval_len d)) in
          if F32.gt count max_dash_count then DNone
          else
            match f64_dash_contour dash_fuel (map F64.of_f32 (sd_array d)) (F64.of_f32 (sd_first_len d)) (sd_first_index d)
                                   (F64.of_f32 (ct_len c)) (ct_closed c) (F32.ge (sd_first_len d) F32.zero) with
            | None => DPanic
            | Some pieces =>
                let step (acc : option builder) (p : piece f64) :=
                  match acc with
                  | None => None
                  | Some b => let '(a, z, mv) := p in push_segment c (F64.to_f32 a) (F64.to_f32 z) mv b
                  end in
                match fold_left step pieces (Some b) with
                | None => DPanic
                | Some b' => dash_contours f d rest count b'
                end
            end
      end
  end.

(* Path::dash for a polyline path: None = panic / unmodelled input *)
Definition path_dash (p : path) (d : stroke_dash) : option (option path) :=
  match segments p with
  | None => None
  | Some segs =>
      match dash_contours (S (length segs)) d segs F32.zero new_builder with
      | DPanic => None
      | DNone => Some None
      | DPath b => Some (finish b)
      end
  end.
