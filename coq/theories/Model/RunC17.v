(* Executable entry point for the C17 correspondence. *)
From Coq Require Import ZArith Bool List.
From TS Require Import Base.F32 Model.Pixel Model.Png.
Import ListNotations.
Local Open Scope Z_scope.

Fixpoint dec_pxs (l : list Z) : list px :=
  match l with
  | r :: g :: b :: a :: rest => mkpx r g b a :: dec_pxs rest
  | _ => []
  end.
Definition enc_pxs (l : list px) : list Z := flat_map (fun p => [pr p; pg p; pb p; pa p]) l.

Definition run_c17 (l : list Z) : list Z :=
  match l with
  | [1; r; g; b; a] =>
      if (r <=? a) && (g <=? a) && (b <=? a) then enc_pxs [demultiply (mkpx r g b a)] else [-2]
  | [2; r; g; b; a] => enc_pxs [color_u8_premultiply (mkpx r g b a)]
  | 3 :: w :: h :: rest => enc_pxs (map premultiply (encode_pixels (dec_pxs rest)))
  | 4 :: ct :: w :: h :: rest => enc_pxs (decode_pixels ct rest)
  (* fn 10: the same samples in a hand-built file, Adam7-interlaced or not: the pixels do not depend on the interlacing *)
  | 10 :: ct :: w :: h :: il :: rest => enc_pxs (decode_pixels ct rest)
  | 7 :: ct :: w :: h :: rest => enc_pxs (decode_pixels ct (map (fun v => v / 256) rest))
  | 6 :: w :: h :: rest => rest
  | 5 :: _ => [-9]
  | 11 :: _ => [-9]
  | 8 :: _ => [-9]
  | 9 :: _ => [-9]
  | _ => [-3]
  end.
