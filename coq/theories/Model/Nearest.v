(* The coordinate chain of a nearest-neighbour image shader in the highp pipeline (src/pipeline/highp.rs):
   seed_shader -> transform -> (repeat | reflect) -> gather, bit-exact in binary32, and what draw_pixmap /
   a Pattern fill with an integer translation read for every destination pixel.  Definitions only. *)
From Coq Require Import ZArith Bool List.
From Flocq Require Import IEEE754.BinarySingleNaN.
From TS Require Import Base.F32 Base.Wide Model.WideBackends Model.Sampler.
Import ListNotations.
Local Open Scope Z_scope.

(* seed_shader: lanes 0.5, 1.5, ... are literals; dx, dy are converted with `as f32` *)
Definition iota (lane : Z) : f32 := F32.add (F32.of_Z lane) F32.half.
Definition seed_x (dx lane : Z) : f32 := F32.add (F32.of_Z dx) (iota lane).
Definition seed_y (dy : Z) : f32 := F32.add (F32.of_Z dy) F32.half.

(* mad(f, m, a) = f * m + a (no fused multiply-add) *)
Definition mad (f m a : f32) : f32 := F32.add (F32.mul f m) a.
Record ts6 := mk_ts6 { t_sx : f32; t_ky : f32; t_kx : f32; t_sy : f32; t_tx : f32; t_ty : f32 }.
Definition stage_transform (t : ts6) (x y : f32) : f32 * f32 :=
  (mad x (t_sx t) (mad y (t_kx t) (t_tx t)), mad x (t_ky t) (mad y (t_sy t) (t_ty t))).

(* tiling stages; limit = dimension as f32, inv = 1.0 / limit *)
Definition excl_repeat (b : backend) (v limit inv : f32) : f32 :=
  F32.sub v (F32.mul (floor4 b (F32.mul v inv)) limit).
Definition excl_reflect (b : backend) (v limit inv : f32) : f32 :=
  let vl := F32.sub v limit in
  F32.abs (F32.sub (F32.sub vl (F32.mul (F32.add limit limit) (floor4 b (F32.mul vl (F32.mul inv F32.half))))) limit).

(* the inverse of a pure translation, as Transform::invert computes it: from_translate(-tx, -ty) *)
Definition inv_translate (tx ty : f32) : ts6 := mk_ts6 F32.one F32.zero F32.zero F32.one (F32.neg tx) (F32.neg ty).
Definition eq_zero (x : f32) : bool := F32.eq x F32.zero.

(* the source index read for destination pixel (dx + lane, dy): Pattern(translate(tx, ty)), Nearest, given spread
   (0 pad, 1 reflect, 2 repeat), source w x h *)
Definition nearest_ix (b : backend) (spread : Z) (w h : Z) (tx ty : f32) (dx lane dy : Z) : Z :=
  let x := seed_x dx lane in let y := seed_y dy in
  let '(x, y) := if eq_zero tx && eq_zero ty then (x, y) else stage_transform (inv_translate tx ty) x y in
  let fw := F32.of_Z w in let fh := F32.of_Z h in
  let iw := F32.div F32.one fw in let ih := F32.div F32.one fh in
  let '(x, y) :=
    match spread with
    | 1 => (excl_reflect b x fw iw, excl_reflect b y fh ih)
    | 2 => (excl_repeat b x fw iw, excl_repeat b y fh ih)
    | _ => (x, y)
    end in
  gather_ix x y w h.

(* the whole destination as the pipeline walks it: rows of a rectangle [left, right) x [top, bottom), batches of 8 *)
Definition row_ix (b : backend) (spread w h : Z) (tx ty : f32) (left right dy : Z) : list Z :=
  map (fun c => let k := (c - left) / 8 in nearest_ix b spread w h tx ty (left + 8 * k) (c - left - 8 * k) dy)
      (map (fun i => left + Z.of_nat i) (seq 0 (Z.to_nat (right - left)))).
