(* Bit-exact model of the scan converter for line edges (src/scan/path.rs: fill_path_impl's sort,
   walk_edges, insert_new_edges, backward_insert_edge_based_on_x).  The linked list of the
   implementation is a Coq list in link order: [active] (edges already started, in the order the
   links give) followed by [future] (not yet started, sorted by first_y then x).  Definitions only. *)
From Coq Require Import ZArith Bool List.
From TS Require Import Base.F32 Model.Rect Model.PathBuilder Model.Edge.
Import ListNotations.
Local Open Scope Z_scope.

(* a horizontal span handed to the blitter: blit_h(x, y, width) *)
Record span := mkspan { s_x : Z; s_y : Z; s_w : Z }.

(* stable insertion sort by (first_y, x): `edges.sort_by` is a stable sort *)
Definition edge_le (a b : ledge) : bool :=
  if e_first_y a =? e_first_y b then e_x a <=? e_x b else e_first_y a <? e_first_y b.
Fixpoint insert_sorted (e : ledge) (l : list ledge) : list ledge :=
  match l with
  | [] => [e]
  | h :: t => if edge_le h e then h :: insert_sorted e t else e :: l
  end.
(* insert each element after all elements that are <= it: stability *)
Definition sort_edges (l : list ledge) : list ledge := fold_left (fun acc e => insert_sorted e acc) l [].

(* winding mask: EvenOdd = 1, Winding = -1 (all bits) *)
Definition masked (w : Z) (evenodd : bool) : bool := if evenodd then Z.odd w else negb (w =? 0).

(* backward_insert_edge_based_on_x on the processed prefix (kept in REVERSE link order: head of the
   list = the edge just before the current one): skip edges with x > new x *)
Fixpoint ripple (rev_done : list ledge) (e : ledge) : list ledge :=
  match rev_done with
  | [] => [e]
  | p :: r => if e_x e <? e_x p then p :: ripple r e else e :: rev_done
  end.

(* one scanline over the active edges (in link order).  State: w, lft, prev_x, processed edges
   (reversed), spans (reversed).  None = a panic (u32 subtraction underflow, i32 overflow). *)
Fixpoint walk_row (active : list ledge) (y : Z) (evenodd : bool) (w lft prev_x : Z)
         (rev_done : list ledge) (spans : list span) : option (Z * Z * list ledge * list span) :=
  match active with
  | [] => Some (w, lft, rev_done, spans)
  | e :: rest =>
      do x <- fdot16_round_to_i32 (e_x e);
      let x := x mod 4294967296 in                      (* `as u32` *)
      let lft := if masked w evenodd then lft else x in
      let w' := w + e_winding e in
      do spans' <- (if masked w' evenodd then Some spans
                    else if x <? lft then None           (* x - lft underflows u32 *)
                    else Some (if x - lft =? 0 then spans else mkspan lft y (x - lft) :: spans));
      if e_last_y e =? y then
        (* done with this line edge: remove it *)
        walk_row rest y evenodd w' lft prev_x rev_done spans'
      else
        do nx <- ck (e_x e + e_dx e);
        let e' := mkedge nx (e_dx e) (e_first_y e) (e_last_y e) (e_winding e) in
        if nx <? prev_x then walk_row rest y evenodd w' lft prev_x (ripple rev_done e') spans'
        else walk_row rest y evenodd w' lft nx (e' :: rev_done) spans'
  end.

(* insert_new_edges: merge the block of edges starting at this row into the active list.
   [act] is in link order.  backward_insert_start scans from the right for the first edge with
   x <= new x; then the forward scan inserts before the first edge with x >= new x. *)
Fixpoint split_back (rev_act : list ledge) (x : Z) (skipped : list ledge) : list ledge * list ledge :=
  (* returns (rev prefix ending at the stop edge, edges after it in link order) *)
  match rev_act with
  | [] => ([], skipped)
  | p :: r => if e_x p <=? x then (rev_act, skipped) else split_back r x (p :: skipped)
  end.
Fixpoint forward_insert (after : list ledge) (e : ledge) : list ledge * list ledge :=
  (* (edges passed over, remaining) : stop at the first edge with x >= e.x *)
  match after with
  | [] => ([], [])
  | a :: r => if e_x e <=? e_x a then ([], after)
              else let '(p, q) := forward_insert r e in (a :: p, q)
  end.

(* insert one new edge; [start_rev] = reversed prefix up to the current start edge (may be empty =
   the head sentinel), [after] = the rest of the active list in link order.  Returns the new
   (start_rev, after) where start = the inserted edge. *)
Definition insert_one (start_rev after : list ledge) (e : ledge) : list ledge * list ledge :=
  let '(passed, remaining) := forward_insert after e in
  (e :: rev passed ++ start_rev, remaining).

Fixpoint insert_block (start_rev after : list ledge) (news : list ledge) : list ledge :=
  match news with
  | [] => rev start_rev ++ after
  | e :: r => let '(s', a') := insert_one start_rev after e in insert_block s' a' r
  end.

Definition insert_new_edges (act : list ledge) (news : list ledge) : list ledge :=
  match news with
  | [] => act
  | e :: _ =>
      match rev act with
      | [] => act ++ news
      | lastp :: _ =>
          if e_x lastp <=? e_x e then act ++ news      (* already in order: early return *)
          else
            let '(start_rev, after) := split_back (rev act) (e_x e) [] in
            insert_block start_rev after news
      end
  end.

Fixpoint take_while_y (l : list ledge) (f : Z -> bool) : list ledge * list ledge :=
  match l with
  | [] => ([], [])
  | e :: r => if f (e_first_y e) then let '(a, b) := take_while_y r f in (e :: a, b) else ([], l)
  end.

(* walk_edges: rows start_y .. stop_y-1 (at least one row is always walked) *)
Fixpoint walk_rows (fuel : nat) (act fut : list ledge) (y stop_y right_clip : Z) (evenodd : bool)
         (spans : list span) : option (list span) :=
  match fuel with
  | O => None
  | S fuel' =>
      do r <- walk_row act y evenodd 0 0 (-2147483648) [] spans;
      let '(w, lft, rev_done, spans) := r in
      do spans <- (if masked w evenodd then
                     if right_clip <? lft then None
                     else Some (if right_clip - lft =? 0 then spans else mkspan lft y (right_clip - lft) :: spans)
                   else Some spans);
      let y' := y + 1 in
      if stop_y <=? y' then Some (rev spans)
      else
        let act' := rev rev_done in
        let '(news, fut') := take_while_y fut (fun fy => fy =? y') in
        walk_rows fuel' (insert_new_edges act' news) fut' y' stop_y right_clip evenodd spans
  end.

(* fill_path_impl for a path contained in the clip (no clipping of edges): the blit_h calls *)
Definition fill_spans (es : list ledge) (start_y stop_y right_clip : Z) (evenodd : bool) (shift : Z) : option (list span) :=
  let sorted := sort_edges es in
  let start_y := start_y * 2 ^ shift in
  let stop_y := stop_y * 2 ^ shift in
  if (start_y <? 0) || (stop_y <? 0) then Some []
  else
    let '(act, fut) := take_while_y sorted (fun fy => fy <=? start_y) in
    walk_rows (S (Z.to_nat (stop_y - start_y))) act fut start_y stop_y right_clip evenodd [].
