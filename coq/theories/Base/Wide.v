(* Lane semantics of the `wide` float operations whose meaning depends on the backend.
   Default build on x86-64: SSE2.  (C13 compares the backends.) *)
From Coq Require Import ZArith Bool.
From Flocq Require Import IEEE754.BinarySingleNaN.
From TS Require Import Base.F32.

(* MINPS / MAXPS: the second operand is returned when the comparison is false (NaN, equal) *)
Definition wide_min (a b : f32) : f32 := if F32.lt a b then a else b.
Definition wide_max (a b : f32) : f32 := if F32.gt a b then a else b.

(* RCPPS is an approximation (relative error <= 1.5 * 2^-12); the model uses the exact
   reciprocal and every comparison through it is made under a tolerance *)
Definition wide_recip_fast (a : f32) : f32 := F32.div F32.one a.

(* CVTPS2DQ: round to nearest even; out of range / NaN give 0x80000000 *)
Definition wide_round_int (a : f32) : Z :=
  match a with
  | B754_nan => -2147483648
  | B754_infinity _ => -2147483648
  | B754_zero _ => 0
  | B754_finite _ _ _ _ =>
      let r := BinarySingleNaN.Bnearbyint mode_NE a in
      let z := BinarySingleNaN.Btrunc r in
      if (z <? -2147483648)%Z || (2147483647 <? z)%Z then -2147483648 else z
  end.

Definition f32_lit_255_0 : f32 := F32.of_bits 1132396544.
Definition f32_lit_7_0 : f32 := F32.of_bits 1088421888.
Definition f32_lit_0_30 : f32 := F32.of_bits 1050253722.
Definition f32_lit_0_59 : f32 := F32.of_bits 1058474557.
Definition f32_lit_0_11 : f32 := F32.of_bits 1038174126.
