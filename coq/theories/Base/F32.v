(* Bit-exact IEEE-754 binary32 / binary64 as used by Rust's f32 / f64.
   Definitions only: every model file builds on these, and they must stay runnable.
   Arithmetic is Flocq's (round-to-nearest-even, single NaN).  The Rust-specific
   wrappers (min/max, `as` casts, comparisons on NaN) are written here and are part of
   the trusted model (they are tied to rustc's behaviour by the correspondence suites). *)
From Coq Require Import ZArith Bool List.
From Flocq Require Import Core.Zaux IEEE754.BinarySingleNaN IEEE754.Binary IEEE754.Bits.
Import ListNotations.
Local Open Scope Z_scope.

Notation f32 := (BinarySingleNaN.binary_float 24 128).
Notation f64 := (BinarySingleNaN.binary_float 53 1024).

#[global] Instance prec32_gt_0 : FLX.Prec_gt_0 24 := eq_refl.
#[global] Instance prec32_lt_emax : BinarySingleNaN.Prec_lt_emax 24 128 := eq_refl.
#[global] Instance prec64_gt_0 : FLX.Prec_gt_0 53 := eq_refl.
#[global] Instance prec64_lt_emax : BinarySingleNaN.Prec_lt_emax 53 1024 := eq_refl.

Module F32.
  Definition t := f32.
  Definition nan : f32 := BinarySingleNaN.B754_nan.
  Definition zero : f32 := BinarySingleNaN.B754_zero false.
  Definition nan_bits : Z := 2143289344. (* 0x7fc00000 *)

  Definition of_bits (z : Z) : f32 := Binary.B2BSN 24 128 (b32_of_bits (z mod 4294967296)).
  Definition to_bits (x : f32) : Z :=
    match x with
    | BinarySingleNaN.B754_nan => nan_bits
    | _ => bits_of_b32 (Binary.BSN2B 24 128 default_nan_pl32 x)
    end.

  Definition of_Z (z : Z) : f32 := BinarySingleNaN.binary_normalize 24 128 _ _ mode_NE z 0 false.

  Definition add (x y : f32) : f32 := BinarySingleNaN.Bplus mode_NE x y.
  Definition sub (x y : f32) : f32 := BinarySingleNaN.Bminus mode_NE x y.
  Definition mul (x y : f32) : f32 := BinarySingleNaN.Bmult mode_NE x y.
  Definition div (x y : f32) : f32 := BinarySingleNaN.Bdiv mode_NE x y.
  Definition sqrt (x : f32) : f32 := BinarySingleNaN.Bsqrt mode_NE x.
  Definition neg (x : f32) : f32 := BinarySingleNaN.Bopp x.
  Definition abs (x : f32) : f32 := BinarySingleNaN.Babs x.
  Definition floor (x : f32) : f32 := BinarySingleNaN.Bnearbyint mode_DN x.
  Definition ceil (x : f32) : f32 := BinarySingleNaN.Bnearbyint mode_UP x.
  Definition trunc (x : f32) : f32 := BinarySingleNaN.Bnearbyint mode_ZR x.

  Definition is_nan (x : f32) : bool := BinarySingleNaN.is_nan x.
  Definition is_finite (x : f32) : bool := BinarySingleNaN.is_finite x.

  (* Rust comparison operators: false whenever an operand is NaN. *)
  Definition lt (x y : f32) : bool := BinarySingleNaN.Bltb x y.
  Definition le (x y : f32) : bool := BinarySingleNaN.Bleb x y.
  Definition gt (x y : f32) : bool := BinarySingleNaN.Bltb y x.
  Definition ge (x y : f32) : bool := BinarySingleNaN.Bleb y x.
  Definition eq (x y : f32) : bool := BinarySingleNaN.Beqb x y.
  Definition ne (x y : f32) : bool := negb (BinarySingleNaN.Beqb x y).

  (* f32::min / f32::max (IEEE minNum/maxNum as implemented by LLVM's generic lowering on
     x86: if one operand is NaN the other is returned; on equal operands (incl. +0/-0) the
     sign is unspecified by Rust, the model returns the first operand when [x <= y]). *)
  Definition min (x y : f32) : f32 :=
    if is_nan x then y else if is_nan y then x else if lt y x then y else x.
  Definition max (x y : f32) : f32 :=
    if is_nan x then y else if is_nan y then x else if lt x y then y else x.

  (* `x as i32`: saturating, NaN -> 0 *)
  Definition to_int_sat (lo hi : Z) (x : f32) : Z :=
    match x with
    | BinarySingleNaN.B754_nan => 0
    | BinarySingleNaN.B754_zero _ => 0
    | BinarySingleNaN.B754_infinity s => if s then lo else hi
    | BinarySingleNaN.B754_finite _ _ _ _ =>
        let z := BinarySingleNaN.Btrunc x in
        if z <? lo then lo else if hi <? z then hi else z
    end.
  Definition to_i32 := to_int_sat (-2147483648) 2147483647.
  Definition to_u32 := to_int_sat 0 4294967295.
  Definition to_u8 := to_int_sat 0 255.
  Definition to_u16 := to_int_sat 0 65535.

  Definition half : f32 := of_bits 1056964608. (* 0.5 *)
  Definition one : f32 := of_bits 1065353216.  (* 1.0 *)
End F32.

Module F64.
  Definition t := f64.
  Definition nan : f64 := BinarySingleNaN.B754_nan.
  Definition nan_bits : Z := 9221120237041090560. (* 0x7ff8000000000000 *)
  Definition of_bits (z : Z) : f64 := Binary.B2BSN 53 1024 (b64_of_bits (z mod 18446744073709551616)).
  Definition to_bits (x : f64) : Z :=
    match x with
    | BinarySingleNaN.B754_nan => nan_bits
    | _ => bits_of_b64 (Binary.BSN2B 53 1024 default_nan_pl64 x)
    end.
  Definition of_Z (z : Z) : f64 := BinarySingleNaN.binary_normalize 53 1024 _ _ mode_NE z 0 false.
  Definition add (x y : f64) : f64 := BinarySingleNaN.Bplus mode_NE x y.
  Definition sub (x y : f64) : f64 := BinarySingleNaN.Bminus mode_NE x y.
  Definition mul (x y : f64) : f64 := BinarySingleNaN.Bmult mode_NE x y.
  Definition div (x y : f64) : f64 := BinarySingleNaN.Bdiv mode_NE x y.
  Definition sqrt (x : f64) : f64 := BinarySingleNaN.Bsqrt mode_NE x.
  Definition zero : f64 := BinarySingleNaN.B754_zero false.
  Definition floor (x : f64) : f64 := BinarySingleNaN.Bnearbyint mode_DN x.
  Definition ceil (x : f64) : f64 := BinarySingleNaN.Bnearbyint mode_UP x.
  Definition is_nan (x : f64) : bool := BinarySingleNaN.is_nan x.
  Definition is_finite (x : f64) : bool := BinarySingleNaN.is_finite x.
  Definition lt (x y : f64) : bool := BinarySingleNaN.Bltb x y.
  Definition le (x y : f64) : bool := BinarySingleNaN.Bleb x y.
  Definition gt (x y : f64) : bool := BinarySingleNaN.Bltb y x.
  Definition eq (x y : f64) : bool := BinarySingleNaN.Beqb x y.
  Definition to_int_sat (lo hi : Z) (x : f64) : Z :=
    match x with
    | BinarySingleNaN.B754_nan => 0
    | BinarySingleNaN.B754_zero _ => 0
    | BinarySingleNaN.B754_infinity s => if s then lo else hi
    | BinarySingleNaN.B754_finite _ _ _ _ =>
        let z := BinarySingleNaN.Btrunc x in
        if z <? lo then lo else if hi <? z then hi else z
    end.
  Definition to_u8 := to_int_sat 0 255.
  Definition to_i32 := to_int_sat (-2147483648) 2147483647.

  (* f32 -> f64 is exact: re-normalise the same mantissa/exponent in the wider format *)
  Definition of_f32 (x : f32) : f64 :=
    match x with
    | BinarySingleNaN.B754_nan => BinarySingleNaN.B754_nan
    | BinarySingleNaN.B754_zero s => BinarySingleNaN.B754_zero s
    | BinarySingleNaN.B754_infinity s => BinarySingleNaN.B754_infinity s
    | BinarySingleNaN.B754_finite s m e _ =>
        BinarySingleNaN.binary_normalize 53 1024 _ _ mode_NE (cond_Zopp s (Zpos m)) e s
    end.
  (* `x as f32`: round to nearest even *)
  Definition to_f32 (x : f64) : f32 :=
    match x with
    | BinarySingleNaN.B754_nan => BinarySingleNaN.B754_nan
    | BinarySingleNaN.B754_zero s => BinarySingleNaN.B754_zero s
    | BinarySingleNaN.B754_infinity s => BinarySingleNaN.B754_infinity s
    | BinarySingleNaN.B754_finite s m e _ =>
        BinarySingleNaN.binary_normalize 24 128 _ _ mode_NE (cond_Zopp s (Zpos m)) e s
    end.
End F64.
