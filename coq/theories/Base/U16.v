(* u16 lanes of the low-precision pipeline: values are Z in [0, 65535]; arithmetic wraps
   modulo 2^16, which is what the SIMD instructions, a release build and (after the fix:
   commit that made the scalar fallback use wrapping_* operations) a debug build compute. *)
From Coq Require Import ZArith.
Local Open Scope Z_scope.

Definition u16wrap (z : Z) : Z := z mod 65536.
Definition u16add (a b : Z) : Z := u16wrap (a + b).
Definition u16sub (a b : Z) : Z := u16wrap (a - b).
Definition u16mul (a b : Z) : Z := u16wrap (a * b).
Definition u16shr (a b : Z) : Z := Z.shiftr a b.
Definition u16div (a b : Z) : Z := a / b.
Definition is_u16 (z : Z) : Prop := 0 <= z < 65536.
Definition is_u8 (z : Z) : Prop := 0 <= z <= 255.
