(* Integer semantics of an overflow-checked (debug) Rust build, used by the generated Gen/FixedGen.v:
   values are Z inside the range of their Rust type; None = the operation panics (overflow, division by zero,
   failed debug assertion).  Definitions only. *)
From Coq Require Import ZArith Bool.
Local Open Scope Z_scope.

Definition wrap_i (bits : Z) (z : Z) : Z := (z + 2 ^ (bits - 1)) mod 2 ^ bits - 2 ^ (bits - 1).
Definition wrap_u (bits : Z) (z : Z) : Z := z mod 2 ^ bits.
Definition in_i (bits : Z) (z : Z) : bool := (- 2 ^ (bits - 1) <=? z) && (z <=? 2 ^ (bits - 1) - 1).
Definition in_u (bits : Z) (z : Z) : bool := (0 <=? z) && (z <=? 2 ^ bits - 1).
(* checked arithmetic *)
Definition ck_i (bits : Z) (z : Z) : option Z := if in_i bits z then Some z else None.
Definition ck_u (bits : Z) (z : Z) : option Z := if in_u bits z then Some z else None.
(* signed division: panics on a zero divisor and on MIN / -1; truncates toward zero *)
Definition div_i (bits : Z) (a b : Z) : option Z :=
  if b =? 0 then None else if (a =? - 2 ^ (bits - 1)) && (b =? -1) then None else Some (Z.quot a b).
Definition div_u (bits : Z) (a b : Z) : option Z := if b =? 0 then None else Some (Z.quot a b).
(* arithmetic shift right *)
Definition shr (v s : Z) : Z := Z.shiftr v s.

Definition obind {A B} (o : option A) (f : A -> option B) : option B :=
  match o with Some a => f a | None => None end.
