(* Line-protocol driver for the extracted Coq models.
   input line : <suite> <int> <int> ...      (decimal, possibly negative, arbitrary size)
   output line: <int> <int> ...               (the model's result list)
   Conversions between decimal strings and the extracted inductive Z are done here with
   OCaml native ints in 2^30 limbs (no bignum library is needed: values are built with the
   extracted Z.add / Z.mul themselves). *)
open Model
type string = Stdlib.String.t

let rec pos_of_int (n : int) : positive =
  if n = 1 then XH
  else if n land 1 = 0 then XO (pos_of_int (n lsr 1))
  else XI (pos_of_int (n lsr 1))

let z_of_small (n : int) : z =
  if n = 0 then Z0 else if n > 0 then Zpos (pos_of_int n) else Zneg (pos_of_int (-n))

let z_ten9 = z_of_small 1000000000

(* decimal string -> z, by chunks of 9 digits *)
let z_of_string (s : string) : z =
  let neg = String.length s > 0 && s.[0] = '-' in
  let digits = if neg then String.sub s 1 (String.length s - 1) else s in
  let n = String.length digits in
  let acc = ref Z0 in
  let i = ref 0 in
  let first = n mod 9 in
  if first > 0 then begin
    acc := z_of_small (int_of_string (String.sub digits 0 first));
    i := first
  end;
  while !i < n do
    let chunk = int_of_string (String.sub digits !i 9) in
    acc := Z.add (Z.mul !acc z_ten9) (z_of_small chunk);
    i := !i + 9
  done;
  if neg then Z.opp !acc else !acc

let rec int_of_pos (p : positive) : int =
  match p with
  | XH -> 1
  | XO q -> 2 * int_of_pos q
  | XI q -> 2 * int_of_pos q + 1

let rec pos_bits (p : positive) : int =
  match p with XH -> 1 | XO q | XI q -> 1 + pos_bits q

let rec string_of_nonneg (x : z) : string =
  match x with
  | Z0 -> "0"
  | Zpos p when pos_bits p <= 60 -> string_of_int (int_of_pos p)
  | Zpos _ ->
      let (q, r) = Z.div_eucl x z_ten9 in
      let rs = (match r with Z0 -> 0 | Zpos p -> int_of_pos p | Zneg _ -> 0) in
      string_of_nonneg q ^ Printf.sprintf "%09d" rs
  | Zneg _ -> assert false

let string_of_z (x : z) : string =
  match x with
  | Zneg p -> "-" ^ string_of_nonneg (Zpos p)
  | _ -> string_of_nonneg x

let suites : (string * (z list -> z list)) list = Suites.table

let () =
  let buf = Buffer.create 65536 in
  (try
    while true do
      let line = input_line stdin in
      let toks = String.split_on_char ' ' line |> List.filter (fun s -> s <> "") in
      (match toks with
       | [] -> Buffer.add_string buf "\n"
       | name :: args ->
           (match List.assoc_opt name suites with
            | None -> Buffer.add_string buf "UNKNOWN-SUITE\n"
            | Some f ->
                let res = f (List.map z_of_string args) in
                Buffer.add_string buf (String.concat " " (List.map string_of_z res));
                Buffer.add_char buf '\n'));
      if Buffer.length buf > 60000 then begin
        print_string (Buffer.contents buf); Buffer.clear buf
      end
    done
  with End_of_file -> ());
  print_string (Buffer.contents buf)
