(* suite name -> extracted model entry point *)
open Model
type string = Stdlib.String.t
let table : (string * (z list -> z list)) list = [
  ("c14_builder", run_c14_builder);
  ("c14_builder_pinned", run_c14_builder_pinned);
  ("from_points", run_from_points);
  ("c14_transform", run_c14_transform);
  ("c19", run_c19);
  ("px", run_px);
  ("c18", run_c18);
  ("c17", run_c17);
  ("fill_spans", run_fill_spans);
  ("line_edge", run_line_edge);
  ("quad_edge", run_quad_edge);
  ("cubic_edge", run_cubic_edge);
  ("cubic_pin", run_cubic_pin);
  ("cubics_exact", run_cubics_exact);
  ("fill_px", run_fill_px);
  ("aruns", run_aruns);
  ("aa_spans", run_aa_spans);
  ("hair_spans", run_hair_spans);
  ("hair_aa", run_hair_aa);
  ("line_clip", run_line_clip);
  ("dash_new", run_dash_new);
  ("dash", run_dash);
  ("api_fuzz", (fun _ -> [Model.Zneg (Model.XI (Model.XO (Model.XO Model.XH)))]));
  ("stroke_geo", (fun _ -> [Model.Zneg (Model.XI (Model.XO (Model.XO Model.XH)))]));
  ("gather", run_gather);
  ("pattern_reuse", (fun _ -> [Model.Zneg (Model.XI (Model.XO (Model.XO Model.XH)))]));
  ("stroke_repeat", (fun _ -> [Model.Zneg (Model.XI (Model.XO (Model.XO Model.XH)))]));
  ("tight_bounds", (fun _ -> [Model.Zneg (Model.XI (Model.XO (Model.XO Model.XH)))]));
  ("mask_ops", (fun _ -> [Model.Zneg (Model.XI (Model.XO (Model.XO Model.XH)))]));
  ("cs_px", (fun _ -> [Model.Zneg (Model.XI (Model.XO (Model.XO Model.XH)))]));
  ("thin_cov", (fun _ -> [Model.Zneg (Model.XI (Model.XO (Model.XO Model.XH)))]));
  ("cs_span", (fun _ -> [Model.Zneg (Model.XI (Model.XO (Model.XO Model.XH)))]));
  ("big_draw", (fun _ -> [Model.Zneg (Model.XI (Model.XO (Model.XO Model.XH)))]));
  ("stroke_fp", (fun _ -> [Model.Zneg (Model.XI (Model.XO (Model.XO Model.XH)))]));
  ("nearest_map", run_nearest_map);
  ("tiles", run_tiles);
  ("pat_px", (fun _ -> [Model.Zneg (Model.XI (Model.XO (Model.XO Model.XH)))]));
  ("grad_new", run_grad_new);
  ("grad_px", (fun _ -> [Model.Zneg (Model.XI (Model.XO (Model.XO Model.XH)))]));
  ("stroker_hist", (fun _ -> [Model.Zneg (Model.XI (Model.XO (Model.XO Model.XH)))]));
  ("draw_hist", (fun _ -> [Model.Zneg (Model.XI (Model.XO (Model.XO Model.XH)))]));
  ("wide", run_wide);
  ("scene", (fun _ -> [Model.Zneg (Model.XI (Model.XO (Model.XO Model.XH)))]));
  ("wide_config", (fun _ -> [Model.Zneg (Model.XI (Model.XO (Model.XO Model.XH)))]));
  ("dash_geo", (fun _ -> [Model.Zneg (Model.XI (Model.XO (Model.XO Model.XH)))]));
  ("hair_px", (fun _ -> [Model.Zneg (Model.XI (Model.XO (Model.XO Model.XH)))]));
]
