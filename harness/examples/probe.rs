use tiny_skia::*;
fn main() {
    let line = std::fs::read_to_string("/tmp/c5a.txt").unwrap();
    for l in line.lines() {
        let a: Vec<i128> = l.split_whitespace().skip(1).map(|v| v.parse().unwrap()).collect();
        let p = verif_harness::c02::build_path(&a[5..]).unwrap();
        println!("{:?}", p);
        let f = |b: i128| f32::from_bits(b as u32);
        let st = Stroke { width: f(a[0]), miter_limit: f(a[1]), line_cap: [LineCap::Butt, LineCap::Round, LineCap::Square][a[2] as usize % 3], line_join: [LineJoin::Miter, LineJoin::MiterClip, LineJoin::Round, LineJoin::Bevel][a[3] as usize % 4], dash: None };
        let o = p.stroke(&st, f(a[4])).unwrap();
        for s in o.segments() { println!("{:?}", s); }
    }
}
