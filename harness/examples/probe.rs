use tiny_skia::*;
use verif_harness::{c02, f};
fn main() {
    let l: Vec<i128> = std::env::args().skip(1).map(|a| a.parse().unwrap()).collect();
    let cap = match l[0] { 0 => LineCap::Butt, 1 => LineCap::Round, _ => LineCap::Square };
    let aa = l[1] != 0;
    let width = l[2] as f32 / 1000.0;
    let (w, h) = (l[3] as u32, l[4] as u32);
    let t = Transform::from_row(f(l[6]), f(l[8]), f(l[7]), f(l[9]), f(l[10]), f(l[11]));
    let path = c02::build_path(&l[12..]).unwrap();
    let mut paint = Paint::default(); paint.set_color_rgba8(255,255,255,255); paint.anti_alias = aa;
    let stroke = Stroke { width, line_cap: cap, ..Stroke::default() };
    let mut a = Pixmap::new(w, h).unwrap();
    a.stroke_path(&path, &paint, &stroke, t, None);
    let mut b = Pixmap::new(3 * w, 3 * h).unwrap();
    b.stroke_path(&path, &paint, &stroke, t.post_translate(w as f32, h as f32), None);
    let tp = path.clone().transform(t).unwrap();
    println!("{:?}", tp);
    for y in 0..h { for x in 0..w {
        let (pa, pb) = (a.pixel(x, y).unwrap().alpha() as i32, b.pixel(x + w, y + h).unwrap().alpha() as i32);
        if (pa - pb).abs() >= 64 && x > 2 && y > 2 && x + 3 < w && y + 3 < h {
            println!("pixel ({},{}) small {} big {}", x, y, pa, pb);
            for yy in y.saturating_sub(3)..(y + 4).min(h) {
                let mut s = String::new(); let mut s2 = String::new();
                for xx in x.saturating_sub(4)..(x + 5).min(w) {
                    s += &format!("{:3} ", a.pixel(xx, yy).unwrap().alpha());
                    s2 += &format!("{:3} ", b.pixel(xx + w, yy + h).unwrap().alpha());
                }
                println!("{}   | {}", s, s2);
            }
        }
    }}
}
