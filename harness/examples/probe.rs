use tiny_skia::*;
fn main() {
    let mut src = Pixmap::new(8, 8).unwrap();
    src.fill(Color::from_rgba8(255, 255, 255, 255));
    for op in [1.0f32, 0.5, 0.2] {
        let mut pm = Pixmap::new(8, 8).unwrap();
        let mut paint = Paint::default();
        paint.shader = Pattern::new(src.as_ref(), SpreadMode::Pad, FilterQuality::Nearest, op, Transform::identity());
        paint.anti_alias = true;
        let mut pb = PathBuilder::new();
        pb.move_to(1.5, 1.5); pb.line_to(6.5, 1.5); pb.line_to(6.5, 6.5); pb.line_to(1.5, 6.5); pb.close();
        let p = pb.finish().unwrap();
        pm.fill_path(&p, &paint, FillRule::Winding, Transform::identity(), None);
        println!("opacity {} -> edge {:?} inside {:?}", op, pm.pixel(1, 3).unwrap(), pm.pixel(3, 3).unwrap());
    }
}
