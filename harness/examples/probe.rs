use tiny_skia::*;
fn main() {
    let mut pb = PathBuilder::new();
    pb.move_to(10.0, 10.0);
    pb.cubic_to(40.0, 5.0, 60.0, 80.0, 90.0, 20.0);
    pb.quad_to(50.0, 50.0, 20.0, 70.0);
    let path = pb.finish().unwrap();
    let stroke = Stroke { width: 4.0, line_join: LineJoin::Round, ..Stroke::default() };
    for rs in [1.0f32, 1e6, 1e20, f32::MAX, f32::INFINITY, f32::NAN, 0.0, -1.0, 1e-30] {
        let t = std::time::Instant::now();
        let r = PathStroker::new().stroke(&path, &stroke, rs);
        println!("res_scale {:e}: {:?} segments, {:?}", rs, r.map(|p| p.verbs().len()), t.elapsed());
    }
}
