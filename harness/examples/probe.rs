use tiny_skia::*;
fn main() {
    let dst = PremultipliedColorU8::from_rgba(0, 64, 64, 129).unwrap();
    for cs in [ColorSpace::Linear, ColorSpace::Gamma2] {
        let mut paint = Paint::default();
        paint.set_color_rgba8(128, 187, 255, 1);
        paint.blend_mode = BlendMode::SourceOver;
        paint.colorspace = cs;
        for fr in [0.0f32, 0.1, 0.5, 0.9] {
            paint.anti_alias = true;
            let mut pm = Pixmap::new(16, 4).unwrap();
            for p in pm.pixels_mut() { *p = dst; }
            pm.fill_rect(Rect::from_ltrb(2.0 + fr, 1.0, 12.0 + fr, 3.0).unwrap(), &paint, Transform::identity(), None);
            println!("{:?} fr {}: edge-left {:?} interior {:?} edge-right {:?}", cs, fr, pm.pixel(2, 1).unwrap(), pm.pixel(5, 1).unwrap(), pm.pixel(12, 1).unwrap());
        }
    }
}
