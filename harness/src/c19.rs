use crate::{b, f};
use tiny_skia::{IntSize, Pixmap, PixmapRef, PremultipliedColorU8};
use tiny_skia_path::{IntRect, NonZeroRect, Rect, SaturateRound, Size};

fn enc_orect(o: Option<Rect>) -> Vec<i128> {
    match o {
        Some(r) => vec![b(r.left()), b(r.top()), b(r.right()), b(r.bottom())],
        None => vec![-1],
    }
}
fn enc_oir(o: Option<IntRect>) -> Vec<i128> {
    match o {
        Some(r) => vec![r.x() as i128, r.y() as i128, r.width() as i128, r.height() as i128],
        None => vec![-1],
    }
}
fn i(x: i128) -> i32 {
    x as i32
}
fn u(x: i128) -> u32 {
    x as u32
}

fn coded_pixmap(w: u32, h: u32) -> Option<Pixmap> {
    let mut pm = Pixmap::new(w, h)?;
    for (k, p) in pm.pixels_mut().iter_mut().enumerate() {
        // premultiplied: alpha 255, rgb = index bytes
        *p = PremultipliedColorU8::from_rgba((k & 255) as u8, ((k >> 8) & 255) as u8, ((k >> 16) & 255) as u8, 255).unwrap();
    }
    Some(pm)
}
fn decode_px(p: PremultipliedColorU8) -> i128 {
    p.red() as i128 | (p.green() as i128) << 8 | (p.blue() as i128) << 16
}

pub fn run(l: &[i128]) -> Vec<i128> {
    match l {
        [1, a, bb, c, d] => enc_orect(Rect::from_ltrb(f(*a), f(*bb), f(*c), f(*d))),
        [2, a, bb, c, d] => enc_orect(Rect::from_xywh(f(*a), f(*bb), f(*c), f(*d))),
        [3, a, bb, c, d] => match NonZeroRect::from_ltrb(f(*a), f(*bb), f(*c), f(*d)) {
            Some(r) => vec![b(r.left()), b(r.top()), b(r.right()), b(r.bottom())],
            None => vec![-1],
        },
        [36, a, bb, c, d] => match NonZeroRect::from_xywh(f(*a), f(*bb), f(*c), f(*d)) {
            Some(r) => vec![b(r.left()), b(r.top()), b(r.right()), b(r.bottom())],
            None => vec![-1],
        },
        [4, a, bb] => match Size::from_wh(f(*a), f(*bb)) {
            Some(s) => vec![b(s.width()), b(s.height())],
            None => vec![-1],
        },
        [k @ (5 | 6), a, bb, c, d, e, ff, g, h] => {
            match (Rect::from_ltrb(f(*a), f(*bb), f(*c), f(*d)), Rect::from_ltrb(f(*e), f(*ff), f(*g), f(*h))) {
                (Some(x), Some(y)) => enc_orect(if *k == 5 { x.intersect(&y) } else { x.join(&y) }),
                _ => vec![-2],
            }
        }
        [k @ (7 | 8), a, bb, c, d, dx, dy] => match Rect::from_ltrb(f(*a), f(*bb), f(*c), f(*d)) {
            Some(r) => enc_orect(if *k == 7 { r.inset(f(*dx), f(*dy)) } else { r.outset(f(*dx), f(*dy)) }),
            None => vec![-2],
        },
        [k @ (9 | 10), a, bb, c, d] => match Rect::from_ltrb(f(*a), f(*bb), f(*c), f(*d)) {
            Some(r) => enc_oir(if *k == 9 { r.round() } else { r.round_out() }),
            None => vec![-2],
        },
        [11, a] => vec![
            i32::saturate_floor(f(*a)) as i128,
            i32::saturate_ceil(f(*a)) as i128,
            i32::saturate_round(f(*a)) as i128,
        ],
        [20, x, y, w, h] => enc_oir(IntRect::from_xywh(i(*x), i(*y), u(*w), u(*h))),
        [21, a, bb, c, d] => enc_oir(IntRect::from_ltrb(i(*a), i(*bb), i(*c), i(*d))),
        [22, a, bb, c, d, e, ff, g, h] => {
            match (IntRect::from_xywh(i(*a), i(*bb), u(*c), u(*d)), IntRect::from_xywh(i(*e), i(*ff), u(*g), u(*h))) {
                (Some(x), Some(y)) => enc_oir(x.intersect(&y)),
                _ => vec![-2],
            }
        }
        [k @ (23 | 24 | 25 | 26), a, bb, c, d, dx, dy] => match IntRect::from_xywh(i(*a), i(*bb), u(*c), u(*d)) {
            Some(r) => enc_oir(match *k {
                23 => r.inset(i(*dx), i(*dy)),
                24 => r.make_outset(i(*dx), i(*dy)),
                25 => r.translate(i(*dx), i(*dy)),
                _ => r.translate_to(i(*dx), i(*dy)),
            }),
            None => vec![-2],
        },
        [30, w, h] => {
            // only sizes that can actually be allocated here (the generator keeps them small);
            // oversized requests are answered through the size computation hook
            #[cfg(tiny_skia_verif)]
            {
                match tiny_skia::verif_hooks::data_len_for_size(u(*w), u(*h)) {
                    Some(n) => vec![n as i128],
                    None => vec![-1],
                }
            }
            #[cfg(not(tiny_skia_verif))]
            {
                let _ = (w, h);
                vec![-3]
            }
        }
        [31, len, w, h] => {
            let ok = IntSize::from_wh(u(*w), u(*h))
                .and_then(|s| Pixmap::from_vec(vec![0u8; *len as usize], s))
                .is_some();
            vec![ok as i128]
        }
        [35, len, w, h] => {
            // Mask::from_vec: exactly width * height bytes (computed without wrapping)
            let ok = IntSize::from_wh(u(*w), u(*h))
                .and_then(|s| tiny_skia::Mask::from_vec(vec![0u8; *len as usize], s))
                .is_some();
            vec![ok as i128]
        }
        [32, len, w, h] => {
            let buf = vec![0u8; *len as usize];
            match PixmapRef::from_bytes(&buf, u(*w), u(*h)) {
                Some(p) => vec![p.data().len() as i128],
                None => vec![-1],
            }
        }
        [40, r, g, bl, a] => match tiny_skia::Color::from_rgba(f(*r), f(*g), f(*bl), f(*a)) {
            Some(c) => vec![b(c.red()), b(c.green()), b(c.blue()), b(c.alpha())],
            None => vec![-1],
        },
        [33, w, h, x, y] => match coded_pixmap(u(*w), u(*h)) {
            Some(pm) => match pm.pixel(u(*x), u(*y)) {
                Some(p) => vec![decode_px(p)],
                None => vec![-1],
            },
            None => vec![-3],
        },
        [34, w, h, a, bb, c, d] => match IntRect::from_xywh(i(*a), i(*bb), u(*c), u(*d)) {
            None => vec![-2],
            Some(r) => match coded_pixmap(u(*w), u(*h)) {
                None => vec![-3],
                Some(pm) => match pm.clone_rect(r) {
                    None => vec![-1],
                    Some(c) => {
                        let mut out = vec![c.width() as i128, c.height() as i128];
                        out.extend(c.pixels().iter().map(|p| decode_px(*p)));
                        out
                    }
                },
            },
        },
        _ => vec![-3],
    }
}
