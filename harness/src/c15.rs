//! C15: Gradient::new stop sanitisation (read back from the Debug output) against the Coq model, and an
//! independent f64 oracle for gradient fills.
use crate::{b, f};
use tiny_skia::*;

fn floats_in(s: &str) -> Vec<f32> {
    let mut out = Vec::new();
    let mut rest = s;
    while let Some(i) = rest.find("FiniteF32(") {
        let r = &rest[i + 10..];
        let end = r.find(')').unwrap_or(r.len());
        if let Ok(v) = r[..end].parse::<f32>() {
            out.push(v);
        }
        rest = &r[end..];
    }
    out
}

fn decode_stops(l: &[i128]) -> Option<(Vec<GradientStop>, &[i128])> {
    let n = *l.first()? as usize;
    if l.len() < 1 + 5 * n {
        return None;
    }
    let mut stops = Vec::new();
    for k in 0..n {
        let p = &l[1 + 5 * k..6 + 5 * k];
        let c = Color::from_rgba(f(p[1]), f(p[2]), f(p[3]), f(p[4]))?;
        stops.push(GradientStop::new(f(p[0]), c));
    }
    Some((stops, &l[1 + 5 * n..]))
}

/// args: n (pos r g b a)*n -> uniform opaque m (pos r g b a)*m   (-2: fewer than two stops, -4: invalid colour)
pub fn run_grad_new(l: &[i128]) -> Vec<i128> {
    let (stops, _) = match decode_stops(l) {
        Some(v) => v,
        None => return vec![-4],
    };
    if stops.len() < 2 {
        return vec![-2];
    }
    let sh = LinearGradient::new(Point::from_xy(0.0, 0.0), Point::from_xy(1.0, 0.0), stops, SpreadMode::Pad, Transform::identity());
    let d = match sh {
        Some(s) => format!("{:?}", s),
        None => return vec![-5],
    };
    let a = match d.find("stops: [") {
        Some(i) => i,
        None => return vec![-6],
    };
    let e = d.find("], tile_mode").unwrap_or(d.len());
    let v = floats_in(&d[a..e]);
    let uni = d.contains("has_uniform_stops: true") as i128;
    let opq = d.contains("colors_are_opaque: true") as i128;
    let mut out = vec![uni, opq, (v.len() / 5) as i128];
    out.extend(v.iter().map(|x| b(*x)));
    out
}

// ---- f64 reference ------------------------------------------------------------------------------------
#[derive(Clone, Copy)]
struct S {
    p: f64,
    c: [f64; 4],
}

/// the stop list as the documentation describes it: clamped to [0,1], made monotonic, bracketed by 0 and 1
fn sanitise(stops: &[GradientStop], raw: &[(f64, [f64; 4])]) -> Vec<S> {
    let _ = stops;
    let mut v: Vec<S> = Vec::new();
    let mut prev = 0.0f64;
    for (i, (p, c)) in raw.iter().enumerate() {
        let mut p = if p.is_finite() { p.max(0.0).min(1.0) } else { 0.0 };
        if i == 0 && p != 0.0 {
            v.push(S { p: 0.0, c: *c });
        }
        p = p.max(prev);
        v.push(S { p, c: *c });
        prev = p;
    }
    let last = *v.last().unwrap();
    if last.p != 1.0 {
        v.push(S { p: 1.0, c: last.c });
    }
    v
}

/// piecewise-linear colour at t (unpremultiplied); `side` picks the limit at hard stops: -1 from the left, +1 from the right
fn color_at(s: &[S], t: f64, side: i32) -> [f64; 4] {
    if t < s[0].p || (t == s[0].p && side < 0) {
        return s[0].c;
    }
    for k in 0..s.len() - 1 {
        let (a, b2) = (s[k], s[k + 1]);
        let inside = if side < 0 { t > a.p && t <= b2.p } else { t >= a.p && t < b2.p };
        if inside && b2.p > a.p {
            let u = (t - a.p) / (b2.p - a.p);
            let mut c = [0.0; 4];
            for j in 0..4 {
                c[j] = a.c[j] + (b2.c[j] - a.c[j]) * u;
            }
            return c;
        }
    }
    s[s.len() - 1].c
}

fn tile(t: f64, mode: i128) -> f64 {
    match mode {
        0 => t, // pad: colour_at clamps
        1 => {
            let u = t - 1.0;
            (u - 2.0 * (u * 0.5).floor() - 1.0).abs()
        }
        _ => t - t.floor(),
    }
}

/// args: kind(0 linear 1 radial 2 two-point) x0 y0 x1 y1 radius spread hq blend(0 Source 1 SourceOver) bg w h  ts*6  n stops...
/// -> [checked, bad, worst error (1/255 units, x100), x, y, channel, got, expected*100, undefined pixels touched, status]
///    status: 0 gradient, 1 solid colour returned, 2 None returned
pub fn run_grad_px(l: &[i128]) -> Vec<i128> {
    if l.len() < 18 {
        return vec![-3];
    }
    let kind = l[0];
    let (x0, y0, x1, y1, rad) = (f(l[1]), f(l[2]), f(l[3]), f(l[4]), f(l[5]));
    let (spread, hq, blend, bg) = (l[6], l[7] & 1 != 0, l[8] % 2, l[9] % 3);
    // Paint::colorspace: 0 Linear, 1 Gamma2, 2 SimpleSRGB, 3 FullSRGBGamma.  Non-linear spaces are judged for opaque stops
    // drawn with Source only (what a gamma curve means for a premultiplied translucent value is not documented)
    let csi = ((l[7] >> 1) % 4) as usize;
    // Shader::apply_opacity calls made before drawing: none | 1.0 | 0.5 then 1.0 | 0.5
    let opseq: &[f32] = match l[8] / 2 {
        0 => &[],
        1 => &[1.0],
        2 => &[0.5, 1.0],
        _ => &[0.5],
    };
    // the transform of the draw call (canvas): identity, a quarter turn, a non-uniform scale, a skew
    let canvas = match l[9] / 3 {
        0 => Transform::identity(),
        1 => Transform::from_row(0.0, 1.0, -1.0, 0.0, l[10] as f32, 0.0),
        2 => Transform::from_row(1.5, 0.0, 0.0, 0.75, 3.0, -2.0),
        _ => Transform::from_row(1.0, 0.25, -0.5, 1.0, 4.0, 1.0),
    };
    let (w, h) = (l[10] as u32, l[11] as u32);
    let ts = Transform::from_row(f(l[12]), f(l[14]), f(l[13]), f(l[15]), f(l[16]), f(l[17]));
    let (stops, _) = match decode_stops(&l[18..]) {
        Some(v) => v,
        None => return vec![-4],
    };
    let n = l[18] as usize;
    let raw: Vec<(f64, [f64; 4])> = (0..n)
        .map(|k| {
            let p = &l[19 + 5 * k..24 + 5 * k];
            (f(p[0]) as f64, [f(p[1]) as f64, f(p[2]) as f64, f(p[3]) as f64, f(p[4]) as f64])
        })
        .collect();
    let mode = [SpreadMode::Pad, SpreadMode::Reflect, SpreadMode::Repeat][(spread as usize) % 3];
    let shader = match kind {
        0 => LinearGradient::new(Point::from_xy(x0, y0), Point::from_xy(x1, y1), stops.clone(), mode, ts),
        1 => RadialGradient::new(Point::from_xy(x0, y0), Point::from_xy(x0, y0), rad, stops.clone(), mode, ts),
        _ => RadialGradient::new(Point::from_xy(x0, y0), Point::from_xy(x1, y1), rad, stops.clone(), mode, ts),
    };
    let shader = match shader {
        Some(s) => s,
        None => return vec![0, 0, 0, 0, 0, 0, 0, 0, 0, 2],
    };
    let mut shader = shader;
    for o in opseq {
        shader.apply_opacity(*o);
    }
    let op_total: f64 = opseq.iter().map(|o| *o as f64).product();
    let solid = matches!(shader, Shader::SolidColor(_));
    let mut pm = Pixmap::new(w, h).unwrap();
    let bgc = [[0u8, 0, 0, 0], [255, 255, 255, 255], [40, 10, 90, 128]][(bg as usize) % 3];
    for p in pm.pixels_mut() {
        *p = PremultipliedColorU8::from_rgba(bgc[0], bgc[1], bgc[2], bgc[3]).unwrap();
    }
    let mut paint = Paint::default();
    paint.shader = shader;
    paint.anti_alias = false;
    paint.force_hq_pipeline = hq;
    paint.colorspace = [ColorSpace::Linear, ColorSpace::Gamma2, ColorSpace::SimpleSRGB, ColorSpace::FullSRGBGamma][csi];
    paint.blend_mode = if blend == 0 { BlendMode::Source } else { BlendMode::SourceOver };
    if csi != 0 && (blend != 0 || op_total != 1.0 || raw.iter().any(|(_, c)| c[3] != 1.0)) {
        return vec![0, 0, 0, 0, 0, 0, 0, 0, 0, 3];
    }
    // exact transfer functions of the colour space (the pipeline uses polynomial approximations of them)
    let expand = move |x: f64| -> f64 {
        match csi {
            0 => x,
            1 => x * x,
            2 => x.powf(2.2),
            _ => if x <= 0.04045 { x / 12.92 } else { ((x + 0.055) / 1.055).powf(2.4) },
        }
    };
    let compress = move |x: f64| -> f64 {
        let x = x.max(0.0).min(1.0);
        match csi {
            0 => x,
            1 => x.sqrt(),
            2 => x.powf(1.0 / 2.2),
            _ => if x <= 0.0031308 { x * 12.92 } else { x.powf(1.0 / 2.4) * 1.055 - 0.055 },
        }
    };
    // slack in linear light granted to those approximations before compressing
    let lin_slack = if csi == 0 { 0.0 } else { 5.0e-4 };
    if canvas.is_identity() {
        pm.fill_rect(Rect::from_xywh(0.0, 0.0, w as f32, h as f32).unwrap(), &paint, Transform::identity(), None);
    } else {
        pm.fill_rect(Rect::from_ltrb(-500.0, -500.0, 500.0, 500.0).unwrap(), &paint, canvas, None);
    }
    // "start and end are very close" (documented as a solid colour) is decided by DEGENERATE_THRESHOLD = 1/32768, chosen
    // (see its comment) because gradients a few 1e-5 units long occur in practice: a linear gradient clearly longer than
    // that is judged as a gradient even when a solid colour came back
    let lin_len = (((x1 - x0) as f64).powi(2) + ((y1 - y0) as f64).powi(2)).sqrt();
    // reference
    let mut s = sanitise(&stops, &raw);
    for st in s.iter_mut() {
        st.c[3] *= op_total;
        for j in 0..3 {
            st.c[j] = expand(st.c[j]);
        }
    }
    let tol = if hq { 2.0 } else { 3.0 };
    if solid && kind == 0 && stops.len() >= 2 && lin_len < 2.5e-5 && csi == 0 {
        // a degenerate linear gradient: the solid colour is the last stop's under Pad and, under Repeat / Reflect, the
        // average of the (unpremultiplied) gradient colour over one period, the first and last colours being held on the
        // implicit intervals before the first and after the last stop
        let mut want = [0.0f64; 4];
        if spread % 3 == 0 {
            want = s[s.len() - 1].c;
        } else {
            for k in 0..s.len() - 1 {
                for j in 0..4 {
                    want[j] += 0.5 * (s[k].c[j] + s[k + 1].c[j]) * (s[k + 1].p - s[k].p);
                }
            }
        }
        let a = want[3];
        let src = [want[0] * a, want[1] * a, want[2] * a, a];
        let (mut checked, mut bad, mut worst, mut not_premul) = (0i128, 0i128, 0.0f64, 0i128);
        let mut first = [0i128; 5];
        for y in 0..h {
            for x in 0..w {
                let got = pm.pixel(x, y).unwrap();
                let g = [got.red() as f64, got.green() as f64, got.blue() as f64, got.alpha() as f64];
                if g[0] > g[3] || g[1] > g[3] || g[2] > g[3] {
                    not_premul += 1;
                }
                checked += 1;
                for j in 0..4 {
                    let v = if blend == 0 { src[j] * 255.0 } else { src[j] * 255.0 + bgc[j] as f64 * (1.0 - a) };
                    let e = (g[j] - v).abs();
                    if e > worst {
                        worst = e;
                    }
                    if e > tol + 0.5 {
                        bad += 1;
                        if first[4] == 0 {
                            first = [x as i128, y as i128, j as i128, g[j] as i128 * 1000 + v as i128, 1];
                        }
                        break;
                    }
                }
            }
        }
        return vec![checked, bad, (worst * 100.0) as i128, first[0], first[1], first[2], first[3], 0, 0, 0, not_premul, 1];
    }
    if solid && !(kind == 0 && stops.len() >= 2 && lin_len > 4.0e-5) {
        return vec![0, 0, 0, 0, 0, 0, 0, 0, 0, 1];
    }
    // device = canvas(ts(gradient space))
    let inv = match canvas.pre_concat(ts).invert() {
        Some(v) => v,
        None => return vec![0, 0, 0, 0, 0, 0, 0, 0, 0, 2],
    };
    let (isx, ikx, iky, isy, itx, ity) = (inv.sx as f64, inv.kx as f64, inv.ky as f64, inv.sy as f64, inv.tx as f64, inv.ty as f64);
    let (sx0, sy0, sx1, sy1, r) = (x0 as f64, y0 as f64, x1 as f64, y1 as f64, rad as f64);
    // the implementation treats a focal point within 1/4096 (relative) of the end circle as lying on it; between
    // "exactly on" and that threshold either reading is defensible, so such inputs are not judged
    let mut on_circle = false;
    if kind == 2 {
        let d = ((sx1 - sx0).powi(2) + (sy1 - sy0).powi(2)).sqrt();
        if d > 0.0 {
            let dev = (1.0 - r / d).abs();
            if dev < 1e-5 {
                on_circle = true;
            } else if dev < 1.0 / 4096.0 + 1e-5 {
                // either reading is defensible for the colours; but a pixel where the gradient is undefined under BOTH readings
                // (behind the focal point) must still be left untouched
                let und = |px: f64, py: f64, oc: bool| -> bool {
                    let gx = isx * px + ikx * py + itx;
                    let gy = iky * px + isy * py + ity;
                    let (dx, dy) = (sx1 - sx0, sy1 - sy0);
                    let (qx, qy) = (gx - sx0, gy - sy0);
                    let a = dx * dx + dy * dy - r * r;
                    let bq = qx * dx + qy * dy;
                    let c = qx * qx + qy * qy;
                    if oc {
                        !(bq > 0.0)
                    } else {
                        let disc = bq * bq - a * c;
                        if disc < 0.0 {
                            return true;
                        }
                        let t = if a < 0.0 { (bq - disc.sqrt()) / a } else { (bq + disc.sqrt()) / a };
                        !(t >= 0.0)
                    }
                };
                let mut touched = 0i128;
                let mut first = [0i128; 2];
                for y in 0..h {
                    for x in 0..w {
                        let (cx, cy) = (x as f64 + 0.5, y as f64 + 0.5);
                        let all_undefined = [(0.0, 0.0), (-1.5, -1.5), (1.5, -1.5), (-1.5, 1.5), (1.5, 1.5)]
                            .iter()
                            .all(|(ox, oy)| und(cx + ox, cy + oy, true) && und(cx + ox, cy + oy, false));
                        if !all_undefined {
                            continue;
                        }
                        let got = pm.pixel(x, y).unwrap();
                        let g = [got.red(), got.green(), got.blue(), got.alpha()];
                        let want = if blend == 0 { [0u8; 4] } else { bgc };
                        if g != want {
                            touched += 1;
                            if touched == 1 {
                                first = [x as i128, y as i128];
                            }
                        }
                    }
                }
                return vec![0, 0, 0, first[0], first[1], 9, 0, 0, touched, if touched > 0 { 0 } else { 3 }];
            }
        }
    }
    let t_of = |px: f64, py: f64| -> Option<f64> {
        // gradient space point
        let gx = isx * px + ikx * py + itx;
        let gy = iky * px + isy * py + ity;
        match kind {
            0 => {
                let (dx, dy) = (sx1 - sx0, sy1 - sy0);
                Some(((gx - sx0) * dx + (gy - sy0) * dy) / (dx * dx + dy * dy))
            }
            1 => Some(((gx - sx0).powi(2) + (gy - sy0).powi(2)).sqrt() / r),
            _ => {
                let (dx, dy) = (sx1 - sx0, sy1 - sy0);
                let (qx, qy) = (gx - sx0, gy - sy0);
                let a = dx * dx + dy * dy - r * r;
                let bq = qx * dx + qy * dy;
                let c = qx * qx + qy * qy;
                if on_circle {
                    if bq > 0.0 { Some(c / (2.0 * bq)) } else { None }
                } else {
                    let disc = bq * bq - a * c;
                    if disc < 0.0 {
                        return None;
                    }
                    let t = if a < 0.0 { (bq - disc.sqrt()) / a } else { (bq + disc.sqrt()) / a };
                    if t < 0.0 { None } else { Some(t) }
                }
            }
        }
    };
    let (mut checked, mut bad, mut worst, mut undef_touched) = (0i128, 0i128, 0.0f64, 0i128);
    let mut not_premul = 0i128;
    let mut first = [0i128; 5];
    for y in 0..h {
        for x in 0..w {
            let got = pm.pixel(x, y).unwrap();
            let g = [got.red() as f64, got.green() as f64, got.blue() as f64, got.alpha() as f64];
            if g[0] > g[3] || g[1] > g[3] || g[2] > g[3] {
                not_premul += 1;
            }
            let (cx, cy) = (x as f64 + 0.5, y as f64 + 0.5);
            // t at the centre and at the corners of a small box around it: the colours reachable within that box
            let mut ts_ = Vec::new();
            let mut undefined = 0;
            for (ox, oy) in [(0.0, 0.0), (-0.06, -0.06), (0.06, -0.06), (-0.06, 0.06), (0.06, 0.06)] {
                match t_of(cx + ox, cy + oy) {
                    Some(t) => ts_.push(t),
                    None => undefined += 1,
                }
            }
            if undefined == 5 {
                // undefined everywhere around the centre: the pixel must be untouched (SourceOver) or transparent (Source)
                let want = if blend == 0 { [0.0; 4] } else { [bgc[0] as f64, bgc[1] as f64, bgc[2] as f64, bgc[3] as f64] };
                if (0..4).any(|j| (g[j] - want[j]).abs() > 0.5) {
                    undef_touched += 1;
                    if first[4] == 0 {
                        first = [x as i128, y as i128, 9, g[3] as i128, 1];
                    }
                }
                continue;
            }
            if undefined > 0 || ts_.iter().any(|t| !t.is_finite()) {
                continue; // on the boundary of the defined region
            }
            if std::env::var("VERIF_GRAD_DEBUG").map(|v| v.parse::<u32>().unwrap_or(h / 2) == y).unwrap_or(false) {
                eprintln!("x {} t {:.4} got {:?}", x, ts_[0], g);
            }
            let (tmin, tmax) = ts_.iter().fold((f64::MAX, f64::MIN), |(a, b2), t| (a.min(*t), b2.max(*t)));
            // under repeat / reflect a pixel whose box spans a good part of a period has no meaningful single colour
            if spread % 3 != 0 && tmax - tmin > 0.2 {
                continue;
            }
            let span = (tmax - tmin).max(1e-5) + 1e-3 * tmax.abs().max(1.0);
            let (lo_t, hi_t) = (tmin - span, tmax + span);
            // sample the reference over [lo_t, hi_t] (both one-sided limits at hard stops and tile seams)
            let mut lo = [f64::MAX; 4];
            let mut hi = [f64::MIN; 4];
            let steps = 64;
            let mut add = |c: [f64; 4]| {
                let a = c[3];
                let src = [c[0] * a, c[1] * a, c[2] * a, a];
                for j in 0..4 {
                    if csi != 0 && j < 3 {
                        // opaque, Source: the stored value is the compressed linear colour
                        lo[j] = lo[j].min(compress(src[j] - lin_slack) * 255.0);
                        hi[j] = hi[j].max(compress(src[j] + lin_slack) * 255.0);
                        continue;
                    }
                    let v = if blend == 0 { src[j] * 255.0 } else { src[j] * 255.0 + bgc[j] as f64 * (1.0 - a) };
                    lo[j] = lo[j].min(v);
                    hi[j] = hi[j].max(v);
                }
            };
            let (mut umin, mut umax) = (f64::MAX, f64::MIN);
            for k in 0..=steps {
                let t = lo_t + (hi_t - lo_t) * k as f64 / steps as f64;
                let tt = tile(t, spread % 3);
                umin = umin.min(tt);
                umax = umax.max(tt);
                for side in [-1, 1] {
                    add(color_at(&s, tt, side));
                }
            }
            // stop positions (hard stops, the ends 0 and 1) reached within the tiled range: both one-sided limits
            for st in s.iter() {
                let eps = (hi_t - lo_t) / steps as f64 + 1e-9;
                if st.p >= umin - eps && st.p <= umax + eps {
                    add(st.c);
                }
            }
            // a premultiplied colour is quadratic between two stops: sample the inside of every stop interval that the
            // tiled range reaches (a short, steep interval may fall between two of the uniform samples above)
            for k in 0..s.len().saturating_sub(1) {
                let (p0, p1) = (s[k].p, s[k + 1].p);
                let eps = (hi_t - lo_t) / steps as f64 + 1e-9;
                let (a, b) = (p0.max(umin - eps), p1.min(umax + eps));
                if p1 > p0 && b >= a {
                    for i in 0..=8 {
                        let tt = a + (b - a) * i as f64 / 8.0;
                        for side in [-1, 1] {
                            add(color_at(&s, tt, side));
                        }
                    }
                }
            }
            // hard stops / seams inside the interval: every stop position (and 0/1 under tiling) contributes its two limits
            checked += 1;
            for j in 0..4 {
                let e = if g[j] < lo[j] { lo[j] - g[j] } else if g[j] > hi[j] { g[j] - hi[j] } else { 0.0 };
                if e > worst {
                    worst = e;
                }
                if e > tol + 0.5 {
                    bad += 1;
                    if first[4] == 0 {
                        first = [x as i128, y as i128, j as i128, g[j] as i128, 1];
                        first[3] = g[j] as i128 * 1000 + ((lo[j] + hi[j]) * 0.5) as i128;
                    }
                    break;
                }
            }
        }
    }
    vec![checked, bad, (worst * 100.0) as i128, first[0], first[1], first[2], first[3], 0, undef_touched, 0, not_premul]
}
