//! scratch probe: prints the alpha map of a hairline case given as a `hair_px` argument line on stdin
use std::io::BufRead;
use tiny_skia::{LineCap, Paint, Pixmap, Stroke, Transform};
fn main() {
    for line in std::io::stdin().lock().lines() {
        let l: Vec<i128> = line.unwrap().split_whitespace().skip(1).map(|t| t.parse().unwrap()).collect();
        let f = |b: i128| f32::from_bits(b as u32);
        let cap = match l[0] { 1 => LineCap::Round, 2 => LineCap::Square, _ => LineCap::Butt };
        let (w, h) = (l[3] as u32, l[4] as u32);
        let t = Transform::from_row(f(l[6]), f(l[8]), f(l[7]), f(l[9]), f(l[10]), f(l[11]));
        let path = verif_harness::c02::build_path(&l[12..]).unwrap();
        println!("{:?}", path);
        let mut paint = Paint::default();
        paint.set_color_rgba8(255, 255, 255, 255);
        paint.anti_alias = l[1] != 0;
        let stroke = Stroke { width: l[2] as f32 / 1000.0, line_cap: cap, ..Stroke::default() };
        let mut pm = Pixmap::new(w, h).unwrap();
        pm.stroke_path(&path, &paint, &stroke, t, None);
        for y in (if h > 100 { 40 } else { 0 })..(if h > 100 { 46 } else { h.min(6) }) {
            let row: Vec<String> = ((if w > 100 { 40 } else { 0 })..(if w > 100 { 80 } else { w })).map(|x| format!("{:3}", pm.pixels()[(y * w + x) as usize].alpha())).collect();
            println!("{}", row.join(""));
        }
    }
}
