//! Exhaustive sweep (search only, never counted as proof): every premultiplied source channel
//! pair x every premultiplied destination channel pair x blend mode x pipeline, full coverage,
//! through the real `fill_rect`; judged against the exact compositing formula in f64.
//!
//! usage: sweep <stride> [mode...]     stride 1 = all 32896 source pairs
//! output: one line per (mode, hq): mode hq n max_err_x1000 premul_violations [first bad case]
use std::sync::Mutex;
use tiny_skia::{Paint, Pixmap, Rect, Transform};
use verif_harness::px::MODES;

fn lum(r: f64, g: f64, b: f64) -> f64 {
    0.30 * r + 0.59 * g + 0.11 * b
}

/// separable modes: premultiplied formula of one colour channel; `None` for non-separable modes
fn spec(mode: usize, s: f64, d: f64, sa: f64, da: f64) -> Option<f64> {
    let both = |b: f64| s * (1.0 - da) + d * (1.0 - sa) + b; // b = sa*da*B(cb,cs)
    Some(match mode {
        0 => 0.0,
        1 => s,
        2 => d,
        3 => s + d * (1.0 - sa),
        4 => d + s * (1.0 - da),
        5 => s * da,
        6 => d * sa,
        7 => s * (1.0 - da),
        8 => d * (1.0 - sa),
        9 => s * da + d * (1.0 - sa),
        10 => d * sa + s * (1.0 - da),
        11 => s * (1.0 - da) + d * (1.0 - sa),
        12 => (s + d).min(1.0),
        13 => s * d,
        14 => s + d - s * d,
        15 => both(if 2.0 * d <= da { 2.0 * s * d } else { sa * da - 2.0 * (da - d) * (sa - s) }),
        16 => s + d - (s * da).max(d * sa),
        17 => s + d - (s * da).min(d * sa),
        18 => {
            // color dodge
            if d == 0.0 {
                s * (1.0 - da)
            } else if s == sa {
                s + d * (1.0 - sa)
            } else {
                both(sa * (da.min(d * sa / (sa - s))))
            }
        }
        19 => {
            // color burn
            if d == da {
                d + s * (1.0 - da)
            } else if s == 0.0 {
                d * (1.0 - sa)
            } else {
                both(sa * (da - da.min((da - d) * sa / s)))
            }
        }
        20 => both(if 2.0 * s <= sa { 2.0 * s * d } else { sa * da - 2.0 * (da - d) * (sa - s) }),
        21 => {
            // soft light (W3C, premultiplied as in Skia)
            let m = if da > 0.0 { d / da } else { 0.0 };
            let s2 = 2.0 * s;
            let m4 = 4.0 * m;
            let dark_src = d * (sa + (s2 - sa) * (1.0 - m));
            let dark_dst = (m4 * m4 + m4) * (m - 1.0) + 7.0 * m;
            let lite_dst = m.sqrt() - m;
            let lite_src = d * sa + da * (s2 - sa) * (if 4.0 * d <= da { dark_dst } else { lite_dst });
            both(if s2 <= sa { dark_src } else { lite_src })
        }
        22 => s + d - 2.0 * (s * da).min(d * sa),
        23 => s + d - 2.0 * s * d,
        24 => both(s * d),
        _ => return None,
    })
}

fn main() {
    let args: Vec<String> = std::env::args().collect();
    let stride: usize = args.get(1).and_then(|s| s.parse().ok()).unwrap_or(97);
    let only: Vec<usize> = args.iter().skip(2).filter_map(|s| s.parse().ok()).collect();
    // destination row: all (d, da) with d <= da, three d values per pixel
    let mut dsts: Vec<[u8; 4]> = Vec::new();
    for da in 0..=255u32 {
        let mut d = 0u32;
        while d <= da {
            let d1 = (d + 1).min(da);
            let d2 = (d + 2).min(da);
            dsts.push([d as u8, d1 as u8, d2 as u8, da as u8]);
            d += 3;
        }
    }
    let w = dsts.len() as u32;
    let mut srcs: Vec<(u8, u8)> = Vec::new(); // (c, a) unpremultiplied
    for a in 0..=255u32 {
        for c in 0..=255u32 {
            srcs.push((c as u8, a as u8));
        }
    }
    let results = Mutex::new(Vec::new());
    let jobs: Vec<(usize, bool)> = (0..29).flat_map(|m| vec![(m, false), (m, true)]).filter(|(m, _)| only.is_empty() || only.contains(m)).collect();
    std::thread::scope(|sc| {
        for chunk in jobs.chunks((jobs.len() + 15) / 16) {
            let dsts = &dsts;
            let srcs = &srcs;
            let results = &results;
            sc.spawn(move || {
                for &(mode, hq) in chunk {
                    let mut n: u64 = 0;
                    let mut max_err = 0.0f64;
                    let mut worst = String::new();
                    let mut premul_bad: u64 = 0;
                    let mut first_bad = String::new();
                    let mut base = Pixmap::new(w, 1).unwrap();
                    for (i, p) in dsts.iter().enumerate() {
                        base.data_mut()[4 * i..4 * i + 4].copy_from_slice(p);
                    }
                    let mut k = (mode * 7 + hq as usize) % stride;
                    while k < srcs.len() {
                        let (c, a) = srcs[k];
                        k += stride;
                        let mut pm = base.clone();
                        let mut paint = Paint::default();
                        paint.set_color_rgba8(c, c, c, a);
                        paint.blend_mode = MODES[mode];
                        paint.anti_alias = false;
                        paint.force_hq_pipeline = hq;
                        pm.fill_rect(Rect::from_xywh(0.0, 0.0, w as f32, 1.0).unwrap(), &paint, Transform::identity(), None);
                        // the premultiplied source the pipeline sees
                        let sa = a as f64 / 255.0;
                        let s = if a == 255 { c as f64 / 255.0 } else { (c as f64 / 255.0) * sa };
                        let out = pm.data();
                        for (i, p) in dsts.iter().enumerate() {
                            let o = &out[4 * i..4 * i + 4];
                            let da = p[3] as f64 / 255.0;
                            if o[0] > o[3] || o[1] > o[3] || o[2] > o[3] {
                                premul_bad += 1;
                                if first_bad.is_empty() {
                                    first_bad = format!("src=({},{}) dst={:?} out={:?}", c, a, p, o);
                                }
                            }
                            for ch in 0..3 {
                                let d = p[ch] as f64 / 255.0;
                                if let Some(f) = spec(mode, s, d, sa, da) {
                                    let e = (o[ch] as f64 - 255.0 * f.max(0.0).min(1.0)).abs();
                                    if e > max_err {
                                        max_err = e;
                                        worst = format!("src=({},{}) d={} da={} out={} spec={:.3}", c, a, p[ch], p[3], o[ch], 255.0 * f);
                                    }
                                }
                                n += 1;
                            }
                            // alpha
                            let fa = match mode {
                                0 => Some(0.0), 1 => Some(sa), 2 => Some(da), 5 | 6 | 13 => Some(sa * da),
                                7 => Some(sa * (1.0 - da)), 8 => Some(da * (1.0 - sa)), 9 => Some(da), 10 => Some(sa),
                                11 => Some(sa + da - 2.0 * sa * da), 12 => Some((sa + da).min(1.0)),
                                _ => Some(sa + da - sa * da),
                            };
                            if let Some(fa) = fa {
                                let e = (o[3] as f64 - 255.0 * fa).abs();
                                if e > max_err {
                                    max_err = e;
                                    worst = format!("src=({},{}) ALPHA da={} out={} spec={:.3}", c, a, p[3], o[3], 255.0 * fa);
                                }
                            }
                        }
                    }
                    results.lock().unwrap().push(format!("{} {} {} {} {} | worst: {} | premul: {}", mode, hq as u8, n, (max_err * 1000.0) as u64, premul_bad, worst, first_bad));
                }
            });
        }
    });
    let mut r = results.into_inner().unwrap();
    r.sort();
    for l in r {
        println!("{}", l);
    }
    let _ = lum;
}
