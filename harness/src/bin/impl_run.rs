//! Line-protocol driver: `<suite> <int>...` per input line -> `<int>...` per output line,
//! `PANIC <message>` when the implementation panics on that case.
use std::io::{BufRead, Write};

fn main() {
    // remember where the last panic happened (the payload alone does not say)
    static LAST: std::sync::Mutex<String> = std::sync::Mutex::new(String::new());
    if std::env::var("VERIF_DEFAULT_HOOK").is_err() {
    std::panic::set_hook(Box::new(|info| {
        if let Some(l) = info.location() {
            if let Ok(mut g) = LAST.lock() {
                if l.file().contains("/repo/") {
                    *g = format!("{}:{}", l.file().rsplit("/repo/").next().unwrap_or(l.file()), l.line());
                }
            }
        }
    }));
    }
    let suites = verif_harness::suites();
    let stdin = std::io::stdin();
    let stdout = std::io::stdout();
    let mut out = std::io::BufWriter::new(stdout.lock());
    for line in stdin.lock().lines() {
        let line = line.unwrap();
        let mut toks = line.split_whitespace();
        let name = match toks.next() {
            Some(n) => n,
            None => {
                writeln!(out).unwrap();
                continue;
            }
        };
        let args: Vec<i128> = toks.map(|t| t.parse::<i128>().unwrap()).collect();
        match suites.iter().find(|(n, _)| *n == name) {
            None => writeln!(out, "UNKNOWN-SUITE").unwrap(),
            Some((_, fun)) => {
                let fun = *fun;
                let res = std::panic::catch_unwind(move || fun(&args));
                match res {
                    Ok(v) => {
                        let s: Vec<String> = v.iter().map(|x| x.to_string()).collect();
                        writeln!(out, "{}", s.join(" ")).unwrap();
                    }
                    Err(e) => {
                        let msg = if let Some(s) = e.downcast_ref::<String>() {
                            s.clone()
                        } else if let Some(s) = e.downcast_ref::<&str>() {
                            s.to_string()
                        } else {
                            "?".to_string()
                        };
                        let at = LAST.lock().map(|g| g.clone()).unwrap_or_default();
                        writeln!(out, "PANIC {} @ {}", msg.replace('\n', " "), at).unwrap();
                    }
                }
            }
        }
        out.flush().unwrap();
    }
}
