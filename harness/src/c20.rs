//! C20: determinism and independence from object reuse / call history (no Coq model of these suites: they
//! compare the implementation with itself along different histories and schedules).
use crate::f;
use tiny_skia::*;
use tiny_skia_path::PathStroker;

fn decode_jobs(l: &[i128]) -> Vec<(Option<Path>, Stroke, f32)> {
    // job := n <n ints of builder ops> width miter cap join res_scale
    let mut jobs = Vec::new();
    let mut i = 0;
    while i < l.len() {
        let n = l[i] as usize;
        if i + 1 + n + 5 > l.len() {
            break;
        }
        let path = crate::c02::build_path(&l[i + 1..i + 1 + n]);
        let p = &l[i + 1 + n..i + 1 + n + 5];
        let stroke = Stroke {
            width: f(p[0]),
            miter_limit: f(p[1]),
            line_cap: [LineCap::Butt, LineCap::Round, LineCap::Square][(p[2] as usize) % 3],
            line_join: [LineJoin::Miter, LineJoin::MiterClip, LineJoin::Round, LineJoin::Bevel][(p[3] as usize) % 4],
            dash: None,
        };
        jobs.push((path, stroke, f(p[4])));
        i += 1 + n + 5;
    }
    jobs
}

/// One PathStroker reused for every job versus a fresh one per job (and the convenience Path::stroke).
/// -> [jobs, strokes that returned Some, mismatches, index of the first mismatch]
pub fn run_stroker_hist(l: &[i128]) -> Vec<i128> {
    let jobs = decode_jobs(l);
    let mut reused = PathStroker::new();
    let (mut some, mut bad, mut first) = (0i128, 0i128, -1i128);
    for (k, (path, stroke, res)) in jobs.iter().enumerate() {
        let path = match path {
            Some(p) => p,
            None => continue,
        };
        // a panic is an outcome too: the reused stroker must panic exactly when a fresh one does
        let a = std::panic::catch_unwind(std::panic::AssertUnwindSafe(|| reused.stroke(path, stroke, *res)));
        let b = std::panic::catch_unwind(|| PathStroker::new().stroke(path, stroke, *res));
        let c = std::panic::catch_unwind(|| path.stroke(stroke, *res));
        let enc = |r: &std::thread::Result<Option<Path>>| match r {
            Ok(p) => crate::c14::enc_path(p.as_ref()),
            Err(_) => vec![-77],
        };
        if a.is_err() {
            // the state of a stroker that panicked is unspecified: continue with a new one
            reused = PathStroker::new();
        }
        if matches!(a, Ok(Some(_))) {
            some += 1;
        }
        let ea = enc(&a);
        if ea != enc(&b) || ea != enc(&c) {
            bad += 1;
            if first < 0 {
                first = k as i128;
            }
        }
    }
    vec![jobs.len() as i128, some, bad, first]
}

/// args: seedA seedB w h familyA familyB threads
/// (1) scene B drawn on the pixmap left by scene A == scene B drawn on a *copy* of those bytes in a new allocation;
/// (2) the whole thing repeated gives the same bytes; (3) the same work on `threads` threads at once gives the same bytes.
/// -> [pixels != 0, history mismatches, repeat mismatches, thread mismatches]
pub fn run_draw_hist(l: &[i128]) -> Vec<i128> {
    if l.len() < 7 {
        return vec![-3];
    }
    let (sa, sb, w, h, fa, fb, nt) = (l[0] as u64, l[1] as u64, l[2] as u32, l[3] as u32, l[4] as u32, l[5] as u32, l[6] as usize);
    let work = move || -> (Vec<u8>, Vec<u8>) {
        let (_, pm_a) = crate::c13::render_scene(sa, w, h, fa, None);
        let copy = Pixmap::from_vec(pm_a.data().to_vec(), IntSize::from_wh(w, h).unwrap()).unwrap();
        // history 1: keep drawing on the same pixmap
        let (_, pm1) = crate::c13::render_scene(sb, w, h, fb, Some(pm_a));
        // history 2: the same pixels reached through a copy (after an unrelated draw on a scratch pixmap)
        let _ = crate::c13::render_scene(sb ^ 0x55, w, h, fa, None);
        let (_, pm2) = crate::c13::render_scene(sb, w, h, fb, Some(copy));
        (pm1.data().to_vec(), pm2.data().to_vec())
    };
    let (a1, a2) = work();
    let hist = a1.iter().zip(a2.iter()).filter(|(x, y)| x != y).count() as i128;
    let (b1, _) = work();
    let rep = a1.iter().zip(b1.iter()).filter(|(x, y)| x != y).count() as i128;
    let mut thr = 0i128;
    if nt > 0 {
        let handles: Vec<_> = (0..nt).map(|_| std::thread::spawn(work)).collect();
        for hd in handles {
            match hd.join() {
                Ok((t1, t2)) => {
                    if t1 != a1 || t2 != a2 {
                        thr += 1;
                    }
                }
                Err(_) => thr += 1000,
            }
        }
    }
    vec![a1.iter().filter(|b| **b != 0).count() as i128, hist, rep, thr]
}

/// args: width(bits) scale1(bits) scale2(bits) aa <builder ops>
/// The same stroke_path call on a fresh pixmap must give the same bytes whether or not the same path was stroked with the same
/// Stroke under another transform just before on this thread, and on a brand-new thread.
/// -> [bytes != 0, bytes differing between the two histories]
pub fn run_stroke_repeat(l: &[i128]) -> Vec<i128> {
    if l.len() < 5 {
        return vec![-3];
    }
    let (width, s1, s2, aa) = (f(l[0]), f(l[1]), f(l[2]), l[3] != 0);
    let path = match crate::c02::build_path(&l[4..]) {
        Some(p) => p,
        None => return vec![-4],
    };
    let draw = move |first: Option<f32>, path: &Path| -> Vec<u8> {
        let mut paint = Paint::default();
        paint.set_color_rgba8(10, 200, 90, 255);
        paint.anti_alias = aa;
        let stroke = Stroke { width, ..Stroke::default() };
        if let Some(s) = first {
            let mut scratch = Pixmap::new(64, 64).unwrap();
            scratch.stroke_path(path, &paint, &stroke, Transform::from_scale(s, s), None);
        }
        let mut pm = Pixmap::new(64, 64).unwrap();
        pm.stroke_path(path, &paint, &stroke, Transform::from_scale(s2, s2), None);
        pm.data().to_vec()
    };
    let a = draw(Some(s1), &path);
    let p2 = path.clone();
    let b = std::thread::spawn(move || draw(None, &p2)).join().unwrap();
    vec![a.iter().filter(|x| **x != 0).count() as i128, a.iter().zip(b.iter()).filter(|(x, y)| x != y).count() as i128]
}

/// args: seed sw sh w h quality blend
/// One source Pixmap object drawn as a Pattern / with draw_pixmap, then changed in place (opaque -> translucent, or the other
/// way round) and drawn again: the second draw must give the same bytes as drawing a brand-new allocation holding the same
/// pixels, on a brand-new thread (nothing may be remembered about an image by its address).
/// -> [bytes != 0, bytes differing]
pub fn run_pattern_reuse(l: &[i128]) -> Vec<i128> {
    if l.len() < 7 {
        return vec![-3];
    }
    let mut st = l[0] as u64 ^ 0x1357_9BDF_0246_8ACE;
    let mut next = move || {
        st = st.wrapping_mul(6364136223846793005).wrapping_add(1442695040888963407);
        (st >> 33) as u32
    };
    let (sw, sh, w, h) = (l[1] as u32, l[2] as u32, l[3] as u32, l[4] as u32);
    let quality = [FilterQuality::Nearest, FilterQuality::Bilinear, FilterQuality::Bicubic][(l[5] as usize) % 3];
    let blend = [BlendMode::SourceOver, BlendMode::SourceOver, BlendMode::Source, BlendMode::Multiply, BlendMode::DestinationOver][(l[6] as usize) % 5];
    let first_opaque = (l[6] / 5) % 2 == 0;
    let mut fill = |pm: &mut Pixmap, opaque: bool| {
        for p in pm.pixels_mut() {
            let a = if opaque { 255 } else { [0u32, 40, 128, 200, 255][(next() % 5) as usize] };
            *p = PremultipliedColorU8::from_rgba((next() % (a + 1)) as u8, (next() % (a + 1)) as u8, (next() % (a + 1)) as u8, a as u8).unwrap();
        }
    };
    let mut src = match Pixmap::new(sw, sh) {
        Some(v) => v,
        None => return vec![-3],
    };
    let draw = move |src: &Pixmap| -> Vec<u8> {
        let mut pm = Pixmap::new(w, h).unwrap();
        pm.fill(Color::from_rgba8(200, 30, 90, 255));
        let mut paint = Paint::default();
        paint.shader = Pattern::new(src.as_ref(), SpreadMode::Repeat, quality, 1.0, Transform::from_row(1.25, 0.0, 0.0, 0.75, 1.0, 2.0));
        paint.blend_mode = blend;
        pm.fill_rect(Rect::from_xywh(1.0, 1.0, w as f32 - 2.0, h as f32 - 2.0).unwrap(), &paint, Transform::identity(), None);
        let pp = PixmapPaint { opacity: 1.0, blend_mode: blend, quality };
        pm.draw_pixmap(2, 3, src.as_ref(), &pp, Transform::identity(), None);
        pm.data().to_vec()
    };
    fill(&mut src, first_opaque);
    let _ = draw(&src);
    fill(&mut src, !first_opaque);
    let a = draw(&src);
    let copy = src.data().to_vec();
    let b = std::thread::spawn(move || {
        let fresh = Pixmap::from_vec(copy, IntSize::from_wh(sw, sh).unwrap()).unwrap();
        draw(&fresh)
    })
    .join()
    .unwrap();
    vec![a.iter().filter(|x| **x != 0).count() as i128, a.iter().zip(b.iter()).filter(|(x, y)| x != y).count() as i128]
}
