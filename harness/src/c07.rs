//! C07: StrokeDash::new, Path::dash (bit-exact against the Coq model for polylines) and an independent f64
//! arc-length oracle for all paths.
use crate::{b, f, oracle};
use tiny_skia_path::StrokeDash;

fn field(dbg: &str, key: &str) -> Option<f32> {
    let i = dbg.find(key)? + key.len();
    let rest = &dbg[i..];
    let rest = rest.trim_start_matches(|c: char| !(c.is_ascii_digit() || c == '-' || c == 'i' || c == 'N'));
    let end = rest.find(|c: char| c == ',' || c == ')' || c == ' ' || c == '}').unwrap_or(rest.len());
    rest[..end].parse::<f32>().ok()
}

fn parse_dash(l: &[i128]) -> Option<(Option<StrokeDash>, &[i128])> {
    if l.len() < 2 {
        return None;
    }
    let n = l[1] as usize;
    if l.len() < 2 + n {
        return None;
    }
    let arr: Vec<f32> = l[2..2 + n].iter().map(|v| f(*v)).collect();
    Some((StrokeDash::new(arr, f(l[0])), &l[2 + n..]))
}

/// args: offset n a_1 .. a_n -> -1 | offset interval_len first_len first_index  (read from the Debug output)
pub fn run_dash_new(l: &[i128]) -> Vec<i128> {
    let (sd, _) = match parse_dash(l) {
        Some(v) => v,
        None => return vec![-3],
    };
    match sd {
        None => vec![-1],
        Some(sd) => {
            let d = format!("{:?}", sd);
            let g = |k: &str| field(&d, k).map(b).unwrap_or(-7);
            let fi = d.split("first_index: ").nth(1).and_then(|s| s.trim_end_matches(|c: char| !c.is_ascii_digit()).parse::<i128>().ok()).unwrap_or(-7);
            vec![g(" offset: "), g("interval_len: NonZeroPositiveF32(FiniteF32("), g("first_len: "), fi]
        }
    }
}

/// args: offset n a.. res_scale <builder ops>
pub fn run_dash(l: &[i128]) -> Vec<i128> {
    let (sd, rest) = match parse_dash(l) {
        Some(v) => v,
        None => return vec![-3],
    };
    if rest.is_empty() {
        return vec![-3];
    }
    let sd = match sd {
        Some(v) => v,
        None => return vec![-3],
    };
    let res = f(rest[0]);
    let path = match crate::c02::build_path(&rest[1..]) {
        Some(p) => p,
        None => return vec![-4],
    };
    if crate::c02::has_curves(&path) {
        return vec![-9];
    }
    crate::c14::enc_path(path.dash(&sd, res).as_ref())
}

fn poly_len(c: &[oracle::P]) -> f64 {
    c.windows(2).map(|w| ((w[1].fx - w[0].fx).powi(2) + (w[1].fy - w[0].fy).powi(2)).sqrt()).sum()
}

fn point_at(c: &[oracle::P], s: f64) -> (f64, f64) {
    let mut acc = 0.0;
    for w in c.windows(2) {
        let d = ((w[1].fx - w[0].fx).powi(2) + (w[1].fy - w[0].fy).powi(2)).sqrt();
        if acc + d >= s && d > 0.0 {
            let t = (s - acc) / d;
            return (w[0].fx + t * (w[1].fx - w[0].fx), w[0].fy + t * (w[1].fy - w[0].fy));
        }
        acc += d;
    }
    let l = c.last().unwrap();
    (l.fx, l.fy)
}

/// on-length of the pattern within [0, p)
fn on_prefix(arr: &[f64], sum: f64, p: f64) -> f64 {
    let cycles = (p / sum).floor();
    let on_sum: f64 = arr.iter().step_by(2).sum();
    let mut rem = p - cycles * sum;
    let mut acc = cycles * on_sum;
    for (i, a) in arr.iter().enumerate() {
        let take = rem.min(*a).max(0.0);
        if i % 2 == 0 {
            acc += take;
        }
        rem -= take;
        if rem <= 0.0 {
            break;
        }
    }
    acc
}

fn is_on(arr: &[f64], sum: f64, p: f64, margin: f64) -> Option<bool> {
    // Some(on/off) when p is at least `margin` away from every interval boundary
    let mut r = p - (p / sum).floor() * sum;
    for (i, a) in arr.iter().enumerate() {
        if r < *a {
            if r < margin || *a - r < margin {
                return None;
            }
            return Some(i % 2 == 0);
        }
        r -= *a;
    }
    None
}

/// the number of move_to's an exact dasher emits for one contour; None when a boundary falls within eps of the
/// start or end of the contour (the count then legitimately depends on rounding)
fn expected_moves(arr: &[f64], sum: f64, off: f64, off0: f64, len: f64, closed: bool, exact: bool) -> Option<i128> {
    if !(len > 0.0) {
        return Some(0);
    }
    // `exact`: every quantity is a small integer (positive intervals, integer offset, axis-aligned integer polyline), so the
    // binary32 arithmetic of the implementation is exact and coincidences of boundaries are decided, not rounded
    let eps = if exact { 0.0 } else { 1e-4 * (len + sum) + off0.abs() * 1.5e-6 };
    if off0 != 0.0 && (off < eps || sum - off < eps) {
        return None; // the phase is at the seam of the pattern: either side is right
    }
    // first interval (an exactly zero offset is exact in the implementation too: no seam ambiguity)
    let mut r = off;
    let mut index = 0usize;
    if off0 != 0.0 {
        let mut found = false;
        for (i, a) in arr.iter().enumerate() {
            if (r - *a).abs() < eps || r.abs() < eps && i > 0 {
                return None;
            }
            if r < *a {
                index = i;
                found = true;
                break;
            }
            r -= *a;
        }
        if !found || r.abs() < eps && arr[index] < eps {
            return None;
        }
    } else {
        r = 0.0;
    }
    let first_index = index;
    let mut d_len = arr[index] - r;
    let mut distance = 0.0f64;
    let mut skip = closed;
    let mut added = false;
    let mut moves = 0i128;
    let mut guard = 0;
    while distance < len {
        if (distance - len).abs() < eps {
            return None;
        }
        added = false;
        if index % 2 == 0 && !skip {
            added = true;
            moves += 1;
        }
        distance += d_len;
        skip = false;
        index = (index + 1) % arr.len();
        d_len = arr[index];
        guard += 1;
        if guard > 3_000_000 {
            return None;
        }
    }
    if (distance - len).abs() < eps {
        return None;
    }
    if closed && first_index % 2 == 0 && !added {
        moves += 1;
    }
    Some(moves)
}

/// args: offset n a.. res_scale <builder ops> ->
///   [status, pieces, expected_pieces, off_path_points, len_err_micro, tol_micro, uncovered_on_samples, samples, first_x_milli, first_y_milli]
///   status: 0 = dashed, 1 = None returned and None expected / acceptable, 2 = None returned but a result was expected,
///           3 = a result was returned although more than a million dashes are needed, -3/-4 = inputs rejected
pub fn run_dash_geo(l: &[i128]) -> Vec<i128> {
    let (sd, rest) = match parse_dash(l) {
        Some(v) => v,
        None => return vec![-3],
    };
    if rest.is_empty() {
        return vec![-3];
    }
    let n = l[1] as usize;
    let sd = match sd {
        Some(v) => v,
        None => return vec![-3],
    };
    let arr: Vec<f64> = l[2..2 + n].iter().map(|v| f(*v) as f64).collect();
    let sum: f64 = arr.iter().sum();
    let res = f(rest[0]);
    let path = match crate::c02::build_path(&rest[1..]) {
        Some(p) => p,
        None => return vec![-4],
    };
    let curves = crate::c02::has_curves(&path);
    let src = oracle::contours(&path, false);
    let out = path.dash(&sd, res);
    // normalised offset in [0, sum)
    let off0 = f(l[0]) as f64;
    let off = off0 - (off0 / sum).floor() * sum;
    let total: f64 = src.iter().map(|c| poly_len(c)).sum();
    let count = total * (n / 2) as f64 / sum;
    let scale = src.iter().flat_map(|c| c.iter()).fold(1.0f64, |m, p| m.max(p.fx.abs()).max(p.fy.abs()));
    let ncurve = path.verbs().iter().filter(|v| matches!(v, tiny_skia_path::PathVerb::Quad | tiny_skia_path::PathVerb::Cubic)).count() as f64;
    // measurement tolerance: chords of curves may deviate by 0.5/res_scale from the curve before it is subdivided
    let meas = if curves { 1.0 / (res as f64).abs().max(1e-3) } else { 0.0 };
    // the phase is reduced modulo the f32 sum of the intervals: |offset| / sum cycles of relative error 2^-23 each
    let phase_err = off0.abs() * 1.5e-6;
    let len_tol = 1e-3 * total + 1e-3 + 2.0 * phase_err * src.len() as f64 + ncurve * meas * 2.0 + if curves { 0.03 * total } else { 0.0 };
    let out = match out {
        None => {
            // None is right above the limit, and when nothing measurable is "on" (fewer than two verbs)
            let expected_on: f64 = src.iter().map(|c| on_prefix(&arr, sum, off + poly_len(c)) - on_prefix(&arr, sum, off)).sum();
            if count > 0.98e6 || expected_on <= len_tol {
                return vec![1, 0, 0, 0, 0, 0, 0, 0, 0, 0];
            }
            return vec![2, 0, 0, 0, (expected_on * 1e6) as i128, 0, 0, 0, 0, 0];
        }
        Some(p) => p,
    };
    if count > 1.02e6 {
        return vec![3, 0, 0, 0, 0, 0, 0, 0, 0, 0];
    }
    let outc = oracle::contours(&out, false);
    let dist_tol = 1e-4 * scale + meas * 0.75;
    // 1. every emitted vertex lies on the source path
    let mut off_path = 0i128;
    let mut first = (0.0f64, 0.0f64);
    for c in &outc {
        for p in c {
            let d = oracle::dist_to_outline(&src, p.fx, p.fy);
            if d > dist_tol {
                if off_path == 0 {
                    first = (p.fx, p.fy);
                }
                off_path += 1;
            }
        }
    }
    // 2. total emitted length = expected on-length
    let mut expected = 0.0;
    let mut exp_pieces = 0i128;
    for c in &src {
        let len = poly_len(c);
        expected += on_prefix(&arr, sum, off + len) - on_prefix(&arr, sum, off);
        exp_pieces += ((len / sum).floor() as i128 + 2) * (n / 2) as i128;
    }
    let got: f64 = outc.iter().map(|c| poly_len(c)).sum();
    // 2b. polylines: the number of pieces is exactly what an exact dasher emits (zero-length dots included)
    let mut moves_expected: i128 = 0;
    let mut moves_known = !curves;
    let small_int = |v: f64| v.fract() == 0.0 && v.abs() < 1e5;
    let exact_inputs = !curves && f(l[2 + n]) == 1.0 && arr.iter().all(|a| small_int(*a) && *a > 0.0) && small_int(off0)
        && path.points().iter().all(|p| small_int(p.x as f64) && small_int(p.y as f64))
        && src.iter().all(|c| c.windows(2).all(|w| w[0].fx == w[1].fx || w[0].fy == w[1].fy));
    if !curves {
        let mut flags: Vec<bool> = Vec::new();
        let (mut nverbs, mut cl) = (0, false);
        for v in path.verbs() {
            match v {
                tiny_skia_path::PathVerb::Move => {
                    if nverbs > 1 {
                        flags.push(cl);
                    }
                    nverbs = 1;
                    cl = false;
                }
                tiny_skia_path::PathVerb::Close => {
                    cl = true;
                    nverbs += 1;
                }
                _ => nverbs += 1,
            }
        }
        if nverbs > 1 {
            flags.push(cl);
        }
        if flags.len() != src.len() {
            moves_known = false;
        } else {
            for (c, cl) in src.iter().zip(flags.iter()) {
                match expected_moves(&arr, sum, off, off0, poly_len(c), *cl, exact_inputs) {
                    Some(m) => moves_expected += m,
                    None => moves_known = false,
                }
            }
        }
    }
    let moves_got = out.verbs().iter().filter(|v| matches!(v, tiny_skia_path::PathVerb::Move)).count() as i128;
    // 3. points of the source that are "on" (away from interval boundaries) are covered by an emitted piece
    let (mut uncovered, mut samples) = (0i128, 0i128);
    let margin = 2.0 * dist_tol + 1e-3 * total + phase_err + if curves { 0.03 * total + ncurve * meas } else { 0.0 };
    for c in &src {
        let len = poly_len(c);
        if len <= 0.0 {
            continue;
        }
        let m = 64;
        for j in 0..m {
            let s = len * (j as f64 + 0.37) / m as f64;
            if let Some(true) = is_on(&arr, sum, off + s, margin) {
                let (x, y) = point_at(c, s);
                samples += 1;
                if oracle::dist_to_outline(&outc, x, y) > dist_tol + 1e-6 {
                    if uncovered == 0 && off_path == 0 {
                        first = (x, y);
                    }
                    uncovered += 1;
                }
            }
        }
    }
    vec![
        0,
        outc.len() as i128,
        exp_pieces,
        off_path,
        ((got - expected).abs() * 1e6) as i128,
        (len_tol * 1e6) as i128,
        uncovered,
        samples,
        (first.0 * 1000.0) as i128,
        (first.1 * 1000.0) as i128,
        if moves_known { moves_expected } else { -1 },
        moves_got,
    ]
}
