//! C05: Path::stroke against the offset region of the path (independent f64 / exact-winding oracle).
use crate::{f, oracle};
use tiny_skia::*;

/// args: width miter cap join res_scale <builder ops> ->
///   [status, samples that must be covered, uncovered, outline points, too far, worst excess (x1000), x, y (x1000), what, dots expected, dots missing]
///   status: 0 stroked, 1 None returned, -4 source rejected
pub fn run_stroke_geo(l: &[i128]) -> Vec<i128> {
    if l.len() < 6 {
        return vec![-3];
    }
    let (width, miter, res) = (f(l[0]), f(l[1]), f(l[4]));
    let cap_i = (l[2] as usize) % 3;
    let join_i = (l[3] as usize) % 4;
    let stroke = Stroke {
        width,
        miter_limit: miter,
        line_cap: [LineCap::Butt, LineCap::Round, LineCap::Square][cap_i],
        line_join: [LineJoin::Miter, LineJoin::MiterClip, LineJoin::Round, LineJoin::Bevel][join_i],
        dash: None,
    };
    let path = match crate::c02::build_path(&l[5..]) {
        Some(p) => p,
        None => return vec![-4],
    };
    let out = match path.stroke(&stroke, res) {
        Some(p) => p,
        None => return vec![1, 0, 0, 0, 0, 0, 0, 0, 0, 0, 0],
    };
    let src = oracle::contours(&path, false);
    let outline = oracle::contours(&out, true);
    let (w, ml) = (width as f64, miter as f64);
    let r = w / 2.0;
    // the stroker approximates offset curves to within 1 / (4 * res_scale)
    let extent = src.iter().flat_map(|c| c.iter()).fold(1.0f64, |m, p| m.max(p.fx.abs()).max(p.fy.abs()));
    // (+ the chord error of this oracle's own flattening of large curves)
    let tol = 0.02 * w + 0.3 / (res as f64).abs().max(0.05) + 1e-3 + 1.5e-3 * extent;
    // ---- upper bound: no outline point farther from the path than the join / cap style allows
    let mut bound = r;
    if cap_i == 2 {
        bound = bound.max(r * std::f64::consts::SQRT_2);
    }
    if join_i <= 1 {
        bound = bound.max(r * ml.max(1.0));
    }
    let (mut npts, mut far, mut worst) = (0i128, 0i128, 0.0f64);
    let mut far_d: Vec<f64> = Vec::new();
    let mut first = [0i128; 3];
    for c in &outline {
        for k in 0..c.len() {
            // the vertices and the midpoints of the (flattened) outline
            let pts = if k + 1 < c.len() { vec![(c[k].fx, c[k].fy), ((c[k].fx + c[k + 1].fx) / 2.0, (c[k].fy + c[k + 1].fy) / 2.0)] } else { vec![(c[k].fx, c[k].fy)] };
            for (x, y) in pts {
                npts += 1;
                let d = oracle::dist_to_outline(&src, x, y);
                if d > bound + tol {
                    far += 1;
                    if d - bound > worst {
                        worst = d - bound;
                    }
                    far_d.push(d - bound);
                    if first[2] == 0 {
                        first = [(x * 1000.0) as i128, (y * 1000.0) as i128, 2];
                    }
                }
            }
        }
    }
    // ---- lower bound: every point of the shrunk offset rectangle of a straight piece is covered
    let (mut must, mut uncovered) = (0i128, 0i128);
    let covered = |x: f64, y: f64| oracle::winding(&outline, oracle::scaled(x), oracle::scaled(y)) != 0;
    let mut lines: Vec<(f64, f64, f64, f64)> = Vec::new();
    // per contour: (closed, segments as control polygons) for the cap / join probes below
    let mut contours_cp: Vec<(bool, Vec<Vec<(f64, f64)>>)> = Vec::new();
    {
        use tiny_skia_path::PathSegment;
        let pt = |p: tiny_skia::Point| (p.x as f64, p.y as f64);
        let (mut last, mut start) = ((0.0f64, 0.0f64), (0.0f64, 0.0f64));
        for seg in path.segments() {
            match seg {
                PathSegment::MoveTo(p) => {
                    last = pt(p);
                    start = last;
                    contours_cp.push((false, Vec::new()));
                }
                PathSegment::LineTo(p) => {
                    contours_cp.last_mut().unwrap().1.push(vec![last, pt(p)]);
                    last = pt(p);
                }
                PathSegment::QuadTo(a, p) => {
                    contours_cp.last_mut().unwrap().1.push(vec![last, pt(a), pt(p)]);
                    last = pt(p);
                }
                PathSegment::CubicTo(a, b, p) => {
                    contours_cp.last_mut().unwrap().1.push(vec![last, pt(a), pt(b), pt(p)]);
                    last = pt(p);
                }
                PathSegment::Close => {
                    let c = contours_cp.last_mut().unwrap();
                    if last != start {
                        c.1.push(vec![last, start]);
                    }
                    c.0 = true;
                    last = start;
                }
            }
        }
    }
    {
        use tiny_skia_path::PathSegment;
        let (mut last, mut start) = ((0.0f64, 0.0f64), (0.0f64, 0.0f64));
        for seg in path.segments() {
            match seg {
                PathSegment::MoveTo(p) => {
                    last = (p.x as f64, p.y as f64);
                    start = last;
                }
                PathSegment::LineTo(p) => {
                    lines.push((last.0, last.1, p.x as f64, p.y as f64));
                    last = (p.x as f64, p.y as f64);
                }
                PathSegment::QuadTo(_, p) => last = (p.x as f64, p.y as f64),
                PathSegment::CubicTo(_, _, p) => last = (p.x as f64, p.y as f64),
                PathSegment::Close => {
                    lines.push((last.0, last.1, start.0, start.1));
                    last = start;
                }
            }
        }
    }
    // curvature side-condition: a curve that turns faster than the stroke width allows folds its inner offset over,
    // which may cancel the winding of neighbouring pieces; such paths are not judged for coverage
    let mut tight = false;
    if crate::c02::has_curves(&path) {
        // curvature radius at the two ends of every curve segment (control-polygon formula): a tiny but non-zero control
        // leg is a near-cusp that sampling does not see
        for (_, segs) in &contours_cp {
            for cp in segs {
                let n = cp.len();
                if n < 3 {
                    continue;
                }
                let k = if n == 3 { 0.5 } else { 2.0 / 3.0 };
                for (a, b, c) in [(cp[0], cp[1], cp[2]), (cp[n - 1], cp[n - 2], cp[n - 3])] {
                    let (ux, uy) = (b.0 - a.0, b.1 - a.1);
                    let (vx, vy) = (c.0 - b.0, c.1 - b.1);
                    let l = (ux * ux + uy * uy).sqrt();
                    if l > 0.0 && k * (ux * vy - uy * vx).abs() * w > l * l * l {
                        tight = true;
                    }
                }
            }
        }
        for c in &src {
            // turning accumulated over any stretch of the flattened contour of arc length w/2
            let n = c.len();
            let seg = |k: usize| (c[k + 1].fx - c[k].fx, c[k + 1].fy - c[k].fy);
            for k in 0..n.saturating_sub(2) {
                let (mut len, mut turn_sum) = (0.0f64, 0.0f64);
                let mut j = k;
                let mut prev: Option<(f64, f64)> = None;
                while j + 1 < n && len <= 0.5 * w {
                    let (vx, vy) = seg(j);
                    let lv = (vx * vx + vy * vy).sqrt();
                    if lv > 1e-9 {
                        if let Some((ux, uy)) = prev {
                            // corners between long straight pieces are joins, not curve samples
                            let lu = (ux * ux + uy * uy).sqrt();
                            if !(lu > 1.0 && lv > 1.0 && (lu > 4.0 || lv > 4.0)) {
                                turn_sum += (ux * vy - uy * vx).atan2(ux * vx + uy * vy).abs();
                            }
                        }
                        prev = Some((vx, vy));
                    }
                    len += lv;
                    j += 1;
                }
                if turn_sum > 0.52 {
                    tight = true;
                }
            }
        }
    }
    // outside the curvature side-condition the property does not quantify over the path; the distance bound is kept as a
    // net for run-away geometry only, with the slack of one quad spanning a sharp tangent swing (about 10 % of r)
    if tight && far > 0 {
        let slack = tol + 0.12 * r;
        far = far_d.iter().filter(|e| **e > slack).count() as i128;
        if far == 0 {
            worst = 0.0;
            first = [0, 0, 0];
        }
    }
    if r - tol > 0.0 && !tight {
        for (ax, ay, bx, by) in lines {
            let len = ((bx - ax).powi(2) + (by - ay).powi(2)).sqrt();
            if len < 1e-3 {
                continue;
            }
            let (ux, uy) = ((bx - ax) / len, (by - ay) / len);
            let steps = ((len / (w.max(0.2))).ceil() as usize).clamp(1, 12);
            for i in 0..=steps {
                let t = 0.03 + 0.94 * i as f64 / steps as f64;
                for s in [-1.0, -0.5, 0.0, 0.5, 1.0] {
                    let off = s * (r - tol);
                    let (x, y) = (ax + t * (bx - ax) - uy * off, ay + t * (by - ay) + ux * off);
                    must += 1;
                    if !covered(x, y) {
                        uncovered += 1;
                        if first[2] == 0 {
                            first = [(x * 1000.0) as i128, (y * 1000.0) as i128, 1];
                        }
                    }
                }
            }
        }
    }
    // ---- the body of every curve segment (under the curvature side-condition, i.e. when the path is not `tight`): points of the
    // curve and points half way to the offset curves on both sides must be covered
    if r - tol > 0.0 && !tight {
        for (_, segs) in &contours_cp {
            for cp in segs {
                let n = cp.len();
                if n < 3 {
                    continue;
                }
                // closer to the two ends only when a round / square cap (or a join) continues the stroke there: a butt cap ends at
                // the end normal, which a probe taken from the normal at t = 1/64 may lie just beyond
                let mut ts_: Vec<f64> = (1..16).map(|i| i as f64 / 16.0).collect();
                if cap_i != 0 {
                    ts_.extend([1.0 / 64.0, 1.0 / 32.0, 31.0 / 32.0, 63.0 / 64.0]);
                }
                for t in ts_ {
                    let u = 1.0 - t;
                    let (p, d) = if n == 3 {
                        (
                            (u * u * cp[0].0 + 2.0 * u * t * cp[1].0 + t * t * cp[2].0, u * u * cp[0].1 + 2.0 * u * t * cp[1].1 + t * t * cp[2].1),
                            (2.0 * u * (cp[1].0 - cp[0].0) + 2.0 * t * (cp[2].0 - cp[1].0), 2.0 * u * (cp[1].1 - cp[0].1) + 2.0 * t * (cp[2].1 - cp[1].1)),
                        )
                    } else {
                        (
                            (
                                u * u * u * cp[0].0 + 3.0 * u * u * t * cp[1].0 + 3.0 * u * t * t * cp[2].0 + t * t * t * cp[3].0,
                                u * u * u * cp[0].1 + 3.0 * u * u * t * cp[1].1 + 3.0 * u * t * t * cp[2].1 + t * t * t * cp[3].1,
                            ),
                            (
                                3.0 * u * u * (cp[1].0 - cp[0].0) + 6.0 * u * t * (cp[2].0 - cp[1].0) + 3.0 * t * t * (cp[3].0 - cp[2].0),
                                3.0 * u * u * (cp[1].1 - cp[0].1) + 6.0 * u * t * (cp[2].1 - cp[1].1) + 3.0 * t * t * (cp[3].1 - cp[2].1),
                            ),
                        )
                    };
                    let dl = (d.0 * d.0 + d.1 * d.1).sqrt();
                    if dl < 1e-6 {
                        continue;
                    }
                    let (nx, ny) = (-d.1 / dl, d.0 / dl);
                    // near the offset curves themselves: 1 unit (plus the stroker's own 1 / (4 res)) inside them, for wide strokes
                    let tol2 = 1.0 + 0.3 / (res as f64).abs().max(0.05);
                    let mut offs: Vec<f64> = vec![-0.5 * (r - tol), 0.0, 0.5 * (r - tol)];
                    if r > 8.0 * tol2 {
                        offs.push(-(r - tol2));
                        offs.push(r - tol2);
                    }
                    for off in offs {
                        let (x, y) = (p.0 + nx * off, p.1 + ny * off);
                        must += 1;
                        if !covered(x, y) {
                            uncovered += 1;
                            if first[2] == 0 {
                                first = [(x * 1000.0) as i128, (y * 1000.0) as i128, 8];
                            }
                        }
                    }
                }
            }
        }
    }
    // ---- curves whose control points lie exactly on one line: the curve is a straight piece of path traversed back and forth;
    // its curvature is zero everywhere except at the turning points, so every point of the traced stretch that is farther
    // than the stroke width from both ends of the stretch must be covered, whatever `tight` says about the turning points
    if r - tol > 0.0 {
        for (_, segs) in &contours_cp {
            for cp in segs {
                let n = cp.len();
                if n < 3 {
                    continue;
                }
                let (ox, oy) = cp[0];
                let far_pt = cp.iter().fold(cp[0], |m, q| if (q.0 - ox).powi(2) + (q.1 - oy).powi(2) > (m.0 - ox).powi(2) + (m.1 - oy).powi(2) { *q } else { m });
                let (dx, dy) = (far_pt.0 - ox, far_pt.1 - oy);
                let dl = (dx * dx + dy * dy).sqrt();
                if dl < 1.0 || cp.iter().any(|q| ((q.0 - ox) * dy - (q.1 - oy) * dx) != 0.0) {
                    continue;
                }
                let (ux, uy) = (dx / dl, dy / dl);
                // extent of the curve along the line
                let pos: Vec<f64> = cp.iter().map(|q| (q.0 - ox) * ux + (q.1 - oy) * uy).collect();
                let (mut smin, mut smax) = (f64::MAX, f64::MIN);
                for i in 0..=400 {
                    let t = i as f64 / 400.0;
                    let u = 1.0 - t;
                    let v = if n == 3 {
                        u * u * pos[0] + 2.0 * u * t * pos[1] + t * t * pos[2]
                    } else {
                        u * u * u * pos[0] + 3.0 * u * u * t * pos[1] + 3.0 * u * t * t * pos[2] + t * t * t * pos[3]
                    };
                    smin = smin.min(v);
                    smax = smax.max(v);
                }
                let (a, b) = (smin + w, smax - w);
                if b <= a {
                    continue;
                }
                let steps = (((b - a) / (0.5 * w)).ceil() as usize).clamp(1, 40);
                for i in 0..=steps {
                    let sv = a + (b - a) * i as f64 / steps as f64;
                    for off in [-0.5 * (r - tol), 0.0, 0.5 * (r - tol)] {
                        let (x, y) = (ox + sv * ux - uy * off, oy + sv * uy + ux * off);
                        must += 1;
                        if !covered(x, y) {
                            uncovered += 1;
                            if first[2] == 0 {
                                first = [(x * 1000.0) as i128, (y * 1000.0) as i128, 7];
                            }
                        }
                    }
                }
            }
        }
    }
    // ---- caps and round joins: the end tangent of a segment is its first non-zero derivative (P3-P2, else P3-P1, else P3-P0)
    let tangent = |cp: &Vec<(f64, f64)>, at_end: bool| -> Option<(f64, f64)> {
        let n = cp.len();
        let order: Vec<(usize, usize)> = if at_end { (0..n - 1).rev().map(|i| (i, n - 1)).collect() } else { (1..n).map(|i| (0, i)).collect() };
        for (a, b) in order {
            let (dx, dy) = (cp[b].0 - cp[a].0, cp[b].1 - cp[a].1);
            let l = (dx * dx + dy * dy).sqrt();
            if l > 1e-4 {
                return Some((dx / l, dy / l));
            }
        }
        None
    };
    let chord = |cp: &Vec<(f64, f64)>| ((cp[cp.len() - 1].0 - cp[0].0).powi(2) + (cp[cp.len() - 1].1 - cp[0].1).powi(2)).sqrt();
    let rr = (r - tol) * 0.97;
    if rr > 0.0 && !tight {
        let mut probe = |x: f64, y: f64, what: i128| {
            must += 1;
            if !covered(x, y) {
                uncovered += 1;
                if first[2] == 0 {
                    first = [(x * 1000.0) as i128, (y * 1000.0) as i128, what];
                }
            }
        };
        for (closed, segs) in &contours_cp {
            // segments of exactly zero length are skipped by the stroker (the neighbour gives the direction); a segment
            // that is merely short decides the direction of a cap or join by itself: such ends are not probed (chord test)
            let segs: Vec<&Vec<(f64, f64)>> = segs.iter().filter(|cp| cp.iter().any(|q| *q != cp[0])).collect();
            if segs.is_empty() {
                continue;
            }
            // caps of an open contour (the adjacent segment must be long enough to cover the inner half)
            if !*closed && cap_i != 0 {
                for (cp, at_end) in [(segs[0], false), (segs[segs.len() - 1], true)] {
                    if chord(cp) < 1.2 * r {
                        continue;
                    }
                    let (ux, uy) = match tangent(cp, at_end) {
                        Some(v) => v,
                        None => continue,
                    };
                    let (ux, uy) = if at_end { (ux, uy) } else { (-ux, -uy) };   // pointing out of the path
                    let e = if at_end { cp[cp.len() - 1] } else { cp[0] };
                    if cap_i == 1 {
                        for k in 0..9 {
                            let a = -std::f64::consts::FRAC_PI_2 + std::f64::consts::PI * k as f64 / 8.0;
                            let (c, s_) = (a.cos(), a.sin());
                            probe(e.0 + rr * (c * ux - s_ * uy), e.1 + rr * (c * uy + s_ * ux), 4);
                        }
                    } else {
                        for t in [0.5, 0.97] {
                            for s_ in [-0.97, -0.5, 0.0, 0.5, 0.97] {
                                probe(e.0 + rr * (t * ux - s_ * uy), e.1 + rr * (t * uy + s_ * ux), 5);
                            }
                        }
                    }
                }
            }
            // round joins: the outer wedge between the two normals
            if join_i == 2 {
                let n = segs.len();
                let pairs: Vec<(usize, usize)> = (0..n - 1).map(|i| (i, i + 1)).chain(if *closed && n > 1 { vec![(n - 1, 0)] } else { vec![] }).collect();
                for (i, j) in pairs {
                    if chord(segs[i]) < 1.2 * r || chord(segs[j]) < 1.2 * r {
                        continue;
                    }
                    let v = segs[j][0];
                    for k in 0..12 {
                        let a = 2.0 * std::f64::consts::PI * k as f64 / 12.0;
                        probe(v.0 + rr * a.cos(), v.1 + rr * a.sin(), 6);
                    }
                }
            }
        }
    }
    // ---- zero-length contours with round / square caps are dots
    let (mut dots, mut dots_missing) = (0i128, 0i128);
    if cap_i != 0 && !tight {
        for c in &src {
            let (x0, y0) = (c[0].fx, c[0].fy);
            if c.iter().all(|p| p.fx == x0 && p.fy == y0) {
                dots += 1;
                let rr = (r - tol).max(0.0) * 0.9;
                let probes = [(0.0, 0.0), (rr, 0.0), (-rr, 0.0), (0.0, rr), (0.0, -rr)];
                if probes.iter().any(|(dx, dy)| !covered(x0 + dx * 0.999, y0 + dy * 0.999)) {
                    dots_missing += 1;
                    if first[2] == 0 {
                        first = [(x0 * 1000.0) as i128, (y0 * 1000.0) as i128, 3];
                    }
                }
            }
        }
    }
    vec![0, must, uncovered, npts, far, (worst * 1000.0) as i128, first[0], first[1], first[2], dots, dots_missing, (tol * 1000.0) as i128]
}
