//! C05: Path::stroke against the offset region of the path (independent f64 / exact-winding oracle).
use crate::{f, oracle};
use tiny_skia::*;

/// args: width miter cap join res_scale <builder ops> ->
///   [status, samples that must be covered, uncovered, outline points, too far, worst excess (x1000), x, y (x1000), what, dots expected, dots missing]
///   status: 0 stroked, 1 None returned, -4 source rejected
pub fn run_stroke_geo(l: &[i128]) -> Vec<i128> {
    if l.len() < 6 {
        return vec![-3];
    }
    let (width, miter, res) = (f(l[0]), f(l[1]), f(l[4]));
    let cap_i = (l[2] as usize) % 3;
    let join_i = (l[3] as usize) % 4;
    let stroke = Stroke {
        width,
        miter_limit: miter,
        line_cap: [LineCap::Butt, LineCap::Round, LineCap::Square][cap_i],
        line_join: [LineJoin::Miter, LineJoin::MiterClip, LineJoin::Round, LineJoin::Bevel][join_i],
        dash: None,
    };
    let path = match crate::c02::build_path(&l[5..]) {
        Some(p) => p,
        None => return vec![-4],
    };
    let out = match path.stroke(&stroke, res) {
        Some(p) => p,
        None => return vec![1, 0, 0, 0, 0, 0, 0, 0, 0, 0, 0],
    };
    let src = oracle::contours(&path, false);
    let outline = oracle::contours(&out, true);
    let (w, ml) = (width as f64, miter as f64);
    let r = w / 2.0;
    // the stroker approximates offset curves to within 1 / (4 * res_scale)
    let extent = src.iter().flat_map(|c| c.iter()).fold(1.0f64, |m, p| m.max(p.fx.abs()).max(p.fy.abs()));
    // (+ the chord error of this oracle's own flattening of large curves)
    let tol = 0.02 * w + 0.3 / (res as f64).abs().max(0.05) + 1e-3 + 1.5e-3 * extent;
    // ---- upper bound: no outline point farther from the path than the join / cap style allows
    let mut bound = r;
    if cap_i == 2 {
        bound = bound.max(r * std::f64::consts::SQRT_2);
    }
    if join_i <= 1 {
        bound = bound.max(r * ml.max(1.0));
    }
    let (mut npts, mut far, mut worst) = (0i128, 0i128, 0.0f64);
    let mut first = [0i128; 3];
    for c in &outline {
        for k in 0..c.len() {
            // the vertices and the midpoints of the (flattened) outline
            let pts = if k + 1 < c.len() { vec![(c[k].fx, c[k].fy), ((c[k].fx + c[k + 1].fx) / 2.0, (c[k].fy + c[k + 1].fy) / 2.0)] } else { vec![(c[k].fx, c[k].fy)] };
            for (x, y) in pts {
                npts += 1;
                let d = oracle::dist_to_outline(&src, x, y);
                if d > bound + tol {
                    far += 1;
                    if d - bound > worst {
                        worst = d - bound;
                    }
                    if first[2] == 0 {
                        first = [(x * 1000.0) as i128, (y * 1000.0) as i128, 2];
                    }
                }
            }
        }
    }
    // ---- lower bound: every point of the shrunk offset rectangle of a straight piece is covered
    let (mut must, mut uncovered) = (0i128, 0i128);
    let covered = |x: f64, y: f64| oracle::winding(&outline, oracle::scaled(x), oracle::scaled(y)) != 0;
    let mut lines: Vec<(f64, f64, f64, f64)> = Vec::new();
    {
        use tiny_skia_path::PathSegment;
        let (mut last, mut start) = ((0.0f64, 0.0f64), (0.0f64, 0.0f64));
        for seg in path.segments() {
            match seg {
                PathSegment::MoveTo(p) => {
                    last = (p.x as f64, p.y as f64);
                    start = last;
                }
                PathSegment::LineTo(p) => {
                    lines.push((last.0, last.1, p.x as f64, p.y as f64));
                    last = (p.x as f64, p.y as f64);
                }
                PathSegment::QuadTo(_, p) => last = (p.x as f64, p.y as f64),
                PathSegment::CubicTo(_, _, p) => last = (p.x as f64, p.y as f64),
                PathSegment::Close => {
                    lines.push((last.0, last.1, start.0, start.1));
                    last = start;
                }
            }
        }
    }
    // curvature side-condition: a curve that turns faster than the stroke width allows folds its inner offset over,
    // which may cancel the winding of neighbouring pieces; such paths are not judged for coverage
    let mut tight = false;
    if crate::c02::has_curves(&path) {
        for c in &src {
            for k in 1..c.len().saturating_sub(1) {
                let (ux, uy) = (c[k].fx - c[k - 1].fx, c[k].fy - c[k - 1].fy);
                let (vx, vy) = (c[k + 1].fx - c[k].fx, c[k + 1].fy - c[k].fy);
                let (lu, lv) = ((ux * ux + uy * uy).sqrt(), (vx * vx + vy * vy).sqrt());
                if lu < 1e-9 || lv < 1e-9 || lu > 1.0 && lv > 1.0 && (lu > 4.0 || lv > 4.0) {
                    continue; // a corner between straight pieces, not a curve sample
                }
                let turn = (ux * vy - uy * vx).atan2(ux * vx + uy * vy).abs();
                if turn * w > 0.5 * (lu + lv) * 0.5 {
                    tight = true;
                }
            }
        }
    }
    if r - tol > 0.0 && !tight {
        for (ax, ay, bx, by) in lines {
            let len = ((bx - ax).powi(2) + (by - ay).powi(2)).sqrt();
            if len < 1e-3 {
                continue;
            }
            let (ux, uy) = ((bx - ax) / len, (by - ay) / len);
            let steps = ((len / (w.max(0.2))).ceil() as usize).clamp(1, 12);
            for i in 0..=steps {
                let t = 0.03 + 0.94 * i as f64 / steps as f64;
                for s in [-1.0, -0.5, 0.0, 0.5, 1.0] {
                    let off = s * (r - tol);
                    let (x, y) = (ax + t * (bx - ax) - uy * off, ay + t * (by - ay) + ux * off);
                    must += 1;
                    if !covered(x, y) {
                        uncovered += 1;
                        if first[2] == 0 {
                            first = [(x * 1000.0) as i128, (y * 1000.0) as i128, 1];
                        }
                    }
                }
            }
        }
    }
    // ---- zero-length contours with round / square caps are dots
    let (mut dots, mut dots_missing) = (0i128, 0i128);
    if cap_i != 0 && !tight {
        for c in &src {
            let (x0, y0) = (c[0].fx, c[0].fy);
            if c.iter().all(|p| p.fx == x0 && p.fy == y0) {
                dots += 1;
                let rr = (r - tol).max(0.0) * 0.9;
                let probes = [(0.0, 0.0), (rr, 0.0), (-rr, 0.0), (0.0, rr), (0.0, -rr)];
                if probes.iter().any(|(dx, dy)| !covered(x0 + dx * 0.999, y0 + dy * 0.999)) {
                    dots_missing += 1;
                    if first[2] == 0 {
                        first = [(x0 * 1000.0) as i128, (y0 * 1000.0) as i128, 3];
                    }
                }
            }
        }
    }
    vec![0, must, uncovered, npts, far, (worst * 1000.0) as i128, first[0], first[1], first[2], dots, dots_missing, (tol * 1000.0) as i128]
}
