use crate::f;
use tiny_skia::verif_hooks::{fill_path_spans, line_edge_new, BlitOp};
use tiny_skia::{FillRule, PathBuilder, Point};

pub fn build_path(ops: &[i128]) -> Option<tiny_skia::Path> {
    let mut pb = PathBuilder::new();
    crate::c14::run_ops_pub(&mut pb, ops);
    pb.finish()
}

pub fn has_curves(p: &tiny_skia::Path) -> bool {
    p.verbs().iter().any(|v| matches!(v, tiny_skia_path::PathVerb::Quad | tiny_skia_path::PathVerb::Cubic))
}

pub fn enc_ops(ops: &[BlitOp]) -> Vec<i128> {
    let mut out = Vec::new();
    for op in ops {
        match op {
            BlitOp::H { x, y, width } => out.extend_from_slice(&[*x as i128, *y as i128, *width as i128]),
            BlitOp::Rect { x, y, width, height } => {
                for k in 0..*height {
                    out.extend_from_slice(&[*x as i128, (*y + k) as i128, *width as i128]);
                }
            }
            _ => out.push(-77),
        }
    }
    out
}

/// args: evenodd w h <builder ops>
pub fn run_fill_spans(l: &[i128]) -> Vec<i128> {
    if l.len() < 3 {
        return vec![-3];
    }
    let rule = if l[0] != 0 { FillRule::EvenOdd } else { FillRule::Winding };
    let (w, h) = (l[1] as u32, l[2] as u32);
    let path = match build_path(&l[3..]) {
        Some(p) => p,
        None => return vec![-8],
    };
    let ops = fill_path_spans(&path, rule, false, w, h);
    enc_ops(&ops)
}

pub fn run_line_edge(l: &[i128]) -> Vec<i128> {
    if l.len() != 5 {
        return vec![-3];
    }
    match line_edge_new(Point::from_xy(f(l[0]), f(l[1])), Point::from_xy(f(l[2]), f(l[3])), l[4] as i32) {
        Some((x, dx, fy, ly, wd)) => vec![x as i128, dx as i128, fy as i128, ly as i128, wd as i128],
        None => vec![-2],
    }
}

/// args: x0 y0 x1 y1 x2 y2 (bit patterns) shift -> n then n * (x dx first_y last_y winding)
pub fn run_quad_edge(l: &[i128]) -> Vec<i128> {
    if l.len() != 7 {
        return vec![-3];
    }
    let pts = [Point::from_xy(f(l[0]), f(l[1])), Point::from_xy(f(l[2]), f(l[3])), Point::from_xy(f(l[4]), f(l[5]))];
    let ls = tiny_skia::verif_hooks::quad_edge_lines(pts, l[6] as i32);
    let mut out = vec![ls.len() as i128];
    for (x, dx, fy, ly, wd) in ls {
        out.extend_from_slice(&[x as i128, dx as i128, fy as i128, ly as i128, wd as i128]);
    }
    out
}

/// args: x0 y0 x1 y1 x2 y2 x3 y3 (bit patterns) shift -> n then n * (x dx first_y last_y winding)
pub fn run_cubic_edge(l: &[i128]) -> Vec<i128> {
    if l.len() != 9 {
        return vec![-3];
    }
    let pts = [Point::from_xy(f(l[0]), f(l[1])), Point::from_xy(f(l[2]), f(l[3])), Point::from_xy(f(l[4]), f(l[5])), Point::from_xy(f(l[6]), f(l[7]))];
    let ls = tiny_skia::verif_hooks::cubic_edge_lines(pts, l[8] as i32);
    let mut out = vec![ls.len() as i128];
    for (x, dx, fy, ly, wd) in ls {
        out.extend_from_slice(&[x as i128, dx as i128, fy as i128, ly as i128, wd as i128]);
    }
    out
}

use crate::oracle;
use tiny_skia::{IntSize, Mask, Paint, Pixmap, Transform};

/// args: rule aa kind w h wx0 wx1 band_milli ts(6 bits) <builder ops>
///   kind 0: Pixmap::fill_path (opaque colour over transparent)   kind 1: Mask::fill_path
/// Judged by the independent oracle; result:
///   [checked, in_band, bad, x, y, got, expected_milli]   (first bad pixel)
/// aa = 0: every pixel whose centre is farther than band from the outline must be fully painted iff inside
/// aa = 1: alpha within tol (args: band_milli = exactness zone; tolerance in l[8+6]) -- see run_fill_px_aa
pub fn run_fill_px(l: &[i128]) -> Vec<i128> {
    if l.len() < 15 {
        return vec![-3];
    }
    let evenodd = l[0] != 0;
    let aa = l[1] != 0;
    let kind = l[2];
    let (w, h) = (l[3] as u32, l[4] as u32);
    let (wx0, wx1) = (l[5] as u32, (l[6] as u32).min(w));
    let band = l[7] as f64 / 1000.0;
    let tol = l[8] as f64 / 1000.0;
    let t = Transform::from_row(f(l[9]), f(l[11]), f(l[10]), f(l[12]), f(l[13]), f(l[14]));
    let path = match build_path(&l[15..]) {
        Some(p) => p,
        None => return vec![-8],
    };
    let rule = if evenodd { FillRule::EvenOdd } else { FillRule::Winding };
    if kind == 3 {
        // Mask::fill_path draws on top of existing data: with coverage c (what the same call leaves on an empty mask) a
        // byte v becomes v + (255 - v) * c / 255
        let mut fresh = Mask::new(w, h).unwrap();
        fresh.fill_path(&path, rule, aa, t);
        let old: Vec<u8> = (0..w * h).map(|i| [0u8, 255, 100, 37][(((i % w) / 3 + (i / w) / 2) % 4) as usize]).collect();
        let mut m = Mask::from_vec(old.clone(), IntSize::from_wh(w, h).unwrap()).unwrap();
        m.fill_path(&path, rule, aa, t);
        let (mut checked, mut bad) = (0i128, 0i128);
        let mut first = [-1i128; 4];
        for i in 0..(w * h) as usize {
            let (v, c, got) = (old[i] as f64, fresh.data()[i] as f64, m.data()[i] as f64);
            let e = v + (255.0 - v) * c / 255.0;
            checked += 1;
            if (got - e).abs() > 2.0 {
                bad += 1;
                if first[0] < 0 {
                    first = [(i as u32 % w) as i128, (i as u32 / w) as i128, got as i128, (e * 1000.0) as i128];
                }
            }
        }
        return vec![checked, 0, bad, first[0], first[1], first[2], first[3], 0];
    }
    // what was drawn
    let alpha: Vec<u8> = if kind == 0 || kind == 2 {
        let mut pm = Pixmap::new(w, h).unwrap();
        let mut paint = Paint::default();
        paint.set_color_rgba8(255, 255, 255, 255);
        paint.anti_alias = aa;
        if kind == 2 {
            // Pixmap::fill_rect with the bounds of the path (the path is a single rectangle)
            pm.fill_rect(path.bounds(), &paint, t, None);
        } else {
            pm.fill_path(&path, &paint, rule, t, None);
        }
        let mut bad_pixel = false;
        let a: Vec<u8> = pm.pixels().iter().map(|p| {
            if p.red() != p.alpha() || p.green() != p.alpha() || p.blue() != p.alpha() { bad_pixel = true; }
            p.alpha()
        }).collect();
        if bad_pixel {
            return vec![0, 0, 1, -1, -1, -1, -1];
        }
        a
    } else {
        let mut m = Mask::new(w, h).unwrap();
        m.fill_path(&path, rule, aa, t);
        m.data().to_vec()
    };
    // the geometry the user asked for
    let tp = match path.clone().transform(t) {
        Some(p) => p,
        None => {
            let bad = alpha.iter().filter(|a| **a != 0).count() as i128;
            return vec![0, 0, bad, -2, -2, -2, -2];
        }
    };
    let cs = oracle::contours(&tp, true);
    let (mut checked, mut in_band, mut bad) = (0i128, 0i128, 0i128);
    let mut bad_complex = 0i128; // AA only: pixels crossed by 3 or more outline segments (vertex clusters, self-intersections)
    let mut first = [-1i128; 4];
    for y in 0..h {
        for x in wx0..wx1 {
            let got = alpha[(y * w + x) as usize];
            let (cx, cy) = (x as f64 + 0.5, y as f64 + 0.5);
            let d = oracle::dist_to_outline(&cs, cx, cy);
            checked += 1;
            let ins = oracle::inside(oracle::winding(&cs, oracle::scaled(cx), oracle::scaled(cy)), evenodd);
            if d > band {
                let want = if ins { 255 } else { 0 };
                if got != want {
                    bad += 1;
                    if first[0] < 0 {
                        first = [x as i128, y as i128, got as i128, want as i128 * 1000];
                    }
                }
            } else {
                in_band += 1;
                if !aa {
                    if got != 0 && got != 255 {
                        bad += 1;
                        if first[0] < 0 {
                            first = [x as i128, y as i128, got as i128, -5];
                        }
                    }
                } else {
                    let cov = oracle::coverage(&cs, x, y, evenodd);
                    if (got as f64 / 255.0 - cov).abs() > tol {
                        if oracle::segments_near(&cs, cx, cy, 0.7072) >= 3 {
                            bad_complex += 1;
                        } else {
                            bad += 1;
                            if first[0] < 0 {
                                first = [x as i128, y as i128, got as i128, (cov * 255000.0) as i128];
                            }
                        }
                    }
                }
            }
        }
    }
    // the whole pixmap, not only the window: nothing is painted outside the path's bounding box (plus the band)
    let (mut stray, mut sx, mut sy) = (0i128, -1i128, -1i128);
    let bb = tp.bounds();
    let m = band as f32 + 1.0;
    for y in 0..h {
        for x in 0..w {
            if alpha[(y * w + x) as usize] != 0 {
                let (cx, cy) = (x as f32 + 0.5, y as f32 + 0.5);
                if cx < bb.left() - m || cx > bb.right() + m || cy < bb.top() - m || cy > bb.bottom() + m {
                    stray += 1;
                    if sx < 0 {
                        sx = x as i128;
                        sy = y as i128;
                    }
                }
            }
        }
    }
    vec![checked, in_band, bad, first[0], first[1], first[2], first[3], bad_complex, stray, sx, sy]
}
