//! C01: every drawing and path operation returns (no panic, no hang).  Random API call sequences derived from a seed
//! with an integer PRNG; each case runs on its own thread under a watchdog.
use tiny_skia::*;

struct Rng(u64);
impl Rng {
    fn next(&mut self) -> u32 {
        self.0 = self.0.wrapping_mul(6364136223846793005).wrapping_add(1442695040888963407);
        (self.0 >> 33) as u32
    }
    fn below(&mut self, n: u32) -> u32 {
        self.next() % n.max(1)
    }
    fn unit(&mut self) -> f32 {
        self.below(1 << 20) as f32 / (1 << 20) as f32
    }
    fn sign(&mut self) -> f32 {
        if self.below(2) == 0 { 1.0 } else { -1.0 }
    }
    /// a coordinate of class `cl` relative to an extent `n`
    fn coord(&mut self, cl: u32, n: u32) -> f32 {
        let n = n as f32;
        match cl {
            0 => self.unit() * n,                                                     // inside
            1 => [0.0, n, 0.5, n - 0.5, -0.5, n + 0.5, 1.0, n - 1.0][self.below(8) as usize], // on / next to the border
            2 => (self.below(4 * n as u32 + 8) as f32) * 0.5 - 2.0,                    // half-integer grid
            3 => self.unit() * 1e-3 + self.below(n as u32 + 1) as f32,                // sub-pixel offsets
            4 => self.sign() * self.unit() * 1e4,
            5 => self.sign() * [32767.0, 32768.0, 65536.0, 8191.0, 8192.0, 16383.5][self.below(6) as usize],
            6 => self.sign() * self.unit() * [1e6f32, 4e6, 1.6e7, 1e9][self.below(4) as usize],
            7 => self.sign() * [1e30f32, 3e38, 1e-30, 1e-38, 1e20][self.below(5) as usize],
            _ => -(self.unit() * n) - 1.0,
        }
    }
}

fn class(r: &mut Rng, family: u32) -> u32 {
    // most coordinates are ordinary so that something is drawn; a few are extreme
    match r.below(10) {
        0..=3 => 0,
        4 => 1,
        5 => 2,
        6 => 3,
        7 => if family == 7 { 6 } else { 4 },
        8 => 5 + r.below(2),
        _ => if r.below(3) == 0 { 7 } else { 8 },
    }
}

fn rand_path(r: &mut Rng, w: u32, h: u32, family: u32) -> Option<Path> {
    let p = rand_path0(r, w, h, family);
    if std::env::var("VERIF_FUZZ_DEBUG").is_ok() {
        eprintln!("path: {:?}", p);
    }
    p
}

fn rand_path0(r: &mut Rng, w: u32, h: u32, family: u32) -> Option<Path> {
    let mut pb = PathBuilder::new();
    for _ in 0..(1 + r.below(3)) {
        let cl = class(r, family);
        let cl2 = class(r, family);
        let (x, y) = (r.coord(cl, w), r.coord(cl2, h));
        pb.move_to(x, y);
        for _ in 0..(1 + r.below(5)) {
            let mut p = |r: &mut Rng| {
                let (c1, c2) = (class(r, family), class(r, family));
                (r.coord(c1, w), r.coord(c2, h))
            };
            match r.below(8) {
                0..=2 => {
                    let a = p(r);
                    pb.line_to(a.0, a.1)
                }
                3 | 4 => {
                    let (a, b) = (p(r), p(r));
                    pb.quad_to(a.0, a.1, b.0, b.1)
                }
                5 | 6 => {
                    let (a, b, c) = (p(r), p(r), p(r));
                    pb.cubic_to(a.0, a.1, b.0, b.1, c.0, c.1)
                }
                _ => pb.line_to(x, y), // back to the start / zero-length
            }
        }
        if r.below(2) == 0 {
            pb.close();
        }
    }
    pb.finish()
}

fn rand_transform(r: &mut Rng) -> Transform {
    match r.below(8) {
        0..=3 => Transform::identity(),
        4 => Transform::from_translate(r.coord(4, 1), r.coord(2, 20)),
        5 => Transform::from_scale([0.5f32, 2.0, 1e-3, 1e3, -1.0][r.below(5) as usize], [1.0f32, 0.25, 3.0, -2.0][r.below(4) as usize]),
        6 => Transform::from_rotate(r.below(360) as f32),
        _ => Transform::from_row(1.0, r.unit() - 0.5, r.unit() * 2.0 - 1.0, 1.0, r.coord(0, 20), r.coord(0, 20)),
    }
}

fn rand_paint<'a>(r: &mut Rng, pat: &'a Pixmap) -> Paint<'a> {
    let mut paint = Paint::default();
    let stops = |r: &mut Rng| -> Vec<GradientStop> {
        (0..(1 + r.below(4))).map(|_| GradientStop::new(r.unit() * 1.5 - 0.25, Color::from_rgba(r.unit(), r.unit(), r.unit(), r.unit()).unwrap())).collect()
    };
    let sm = [SpreadMode::Pad, SpreadMode::Reflect, SpreadMode::Repeat][r.below(3) as usize];
    paint.shader = match r.below(6) {
        0 | 1 => Shader::SolidColor(Color::from_rgba(r.unit(), r.unit(), r.unit(), r.unit()).unwrap()),
        2 => LinearGradient::new(Point::from_xy(r.coord(0, 20), r.coord(0, 20)), { let c = r.below(5); Point::from_xy(r.coord(c, 20), r.coord(0, 20)) }, stops(r), sm, rand_transform(r))
            .unwrap_or(Shader::SolidColor(Color::BLACK)),
        3 => RadialGradient::new(Point::from_xy(r.coord(0, 20), r.coord(0, 20)), Point::from_xy(r.coord(0, 20), r.coord(0, 20)), r.unit() * 20.0, stops(r), sm, rand_transform(r))
            .unwrap_or(Shader::SolidColor(Color::BLACK)),
        _ => Pattern::new(pat.as_ref(), sm, [FilterQuality::Nearest, FilterQuality::Bilinear, FilterQuality::Bicubic][r.below(3) as usize], r.unit(), rand_transform(r)),
    };
    paint.blend_mode = crate::c13::MODES_PUB[r.below(29) as usize];
    paint.anti_alias = r.below(2) == 0;
    paint.force_hq_pipeline = r.below(4) == 0;
    paint
}

/// (the dash count is capped at a million by design and every dash of a huge round-capped stroke covers the whole
/// target: that combination is finite but takes minutes, so dashes come with moderate widths and, on large targets,
/// without sub-pixel intervals)
fn rand_stroke(r: &mut Rng, big_target: bool) -> Stroke {
    let mut width = match r.below(8) {
        0 => 0.0,
        1 => 0.3,
        2 => 1.0,
        3 => 2.5,
        4 => 30.0,
        5 => 1e4,
        6 => 1e-3,
        _ => r.unit() * 10.0,
    };
    let dash = if r.below(4) == 0 {
        let n = 2 * (1 + r.below(3)) as usize;
        let kinds = if big_target { 4 } else { 5 };
        if width > 30.0 {
            width = 30.0;
        }
        StrokeDash::new((0..n).map(|_| [0.0f32, 0.5, 3.0, 10.0, 1e-3][r.below(kinds) as usize]).collect(), r.coord(4, 1))
    } else {
        None
    };
    Stroke {
        width,
        miter_limit: [4.0f32, 1.0, 0.5, 20.0][r.below(4) as usize],
        line_cap: [LineCap::Butt, LineCap::Round, LineCap::Square][r.below(3) as usize],
        line_join: [LineJoin::Miter, LineJoin::MiterClip, LineJoin::Round, LineJoin::Bevel][r.below(4) as usize],
        dash,
    }
}

fn one_case(seed: u64, family: u32) -> i128 {
    let mut r = Rng(seed ^ 0xC01C_01C0_1C01_C01C);
    let (w, h) = [(1u32, 1u32), (2, 3), (16, 16), (20, 10), (100, 7), (8191, 2), (8192, 2), (8200, 3), (3, 8200), (64, 64)][r.below(10) as usize];
    let mut pm = Pixmap::new(w, h).unwrap();
    let pat = {
        let mut p = Pixmap::new(1 + r.below(9), 1 + r.below(9)).unwrap();
        for px in p.pixels_mut() {
            let a = r.below(256);
            *px = PremultipliedColorU8::from_rgba(r.below(a + 1) as u8, r.below(a + 1) as u8, r.below(a + 1) as u8, a as u8).unwrap();
        }
        p
    };
    let mut calls = 0i128;
    for _ in 0..(1 + r.below(4)) {
        let mask = if r.below(4) == 0 {
            let mut m = Mask::new(w, h).unwrap();
            if let Some(p) = rand_path(&mut r, w, h, family) {
                m.fill_path(&p, FillRule::Winding, r.below(2) == 0, rand_transform(&mut r));
                if let Some(p2) = rand_path(&mut r, w, h, family) {
                    m.intersect_path(&p2, FillRule::EvenOdd, r.below(2) == 0, rand_transform(&mut r));
                }
            }
            Some(m)
        } else {
            None
        };
        let paint = rand_paint(&mut r, &pat);
        let ts = rand_transform(&mut r);
        let fam = if family >= 6 { family } else { r.below(6) };
        if std::env::var("VERIF_FUZZ_DEBUG").is_ok() {
            eprintln!("call fam {} on {}x{} aa {} ts {:?} mask {}", fam, w, h, paint.anti_alias, ts, mask.is_some());
        }
        match fam {
            0 => {
                if let Some(p) = rand_path(&mut r, w, h, family) {
                    let rule = if r.below(2) == 0 { FillRule::Winding } else { FillRule::EvenOdd };
                    pm.fill_path(&p, &paint, rule, ts, mask.as_ref());
                    let _ = p.compute_tight_bounds();
                }
            }
            1 => {
                if let Some(p) = rand_path(&mut r, w, h, family) {
                    let st = rand_stroke(&mut r, w * h > 4096);
                    if std::env::var("VERIF_FUZZ_DEBUG").is_ok() {
                        eprintln!("stroke: {:?}", st);
                    }
                    pm.stroke_path(&p, &paint, &st, ts, mask.as_ref());
                }
            }
            2 => {
                let (c1, c2, c3, c4) = (class(&mut r, family), class(&mut r, family), class(&mut r, family), class(&mut r, family));
                if let Some(rc) = Rect::from_ltrb(r.coord(c1, w), r.coord(c2, h), r.coord(c3, w), r.coord(c4, h)) {
                    pm.fill_rect(rc, &paint, ts, mask.as_ref());
                }
            }
            3 => {
                let pp = PixmapPaint { opacity: r.unit(), blend_mode: paint.blend_mode, quality: [FilterQuality::Nearest, FilterQuality::Bilinear, FilterQuality::Bicubic][r.below(3) as usize] };
                let (c1, c2) = (class(&mut r, family).min(6), class(&mut r, family).min(6));
                let (ox, oy) = (r.coord(c1, w) as i32, r.coord(c2, h) as i32);
                pm.draw_pixmap(ox, oy, pat.as_ref(), &pp, ts, mask.as_ref());
            }
            4 => {
                if let Some(m) = mask.as_ref() {
                    pm.apply_mask(m);
                }
            }
            5 => {
                if let Some(p) = rand_path(&mut r, w, h, family) {
                    let st = rand_stroke(&mut r, w * h > 4096);
                    let res = [1.0f32, 0.1, 10.0, 1e-3, 1e3][r.below(5) as usize];
                    if let Some(s) = p.stroke(&st, res) {
                        let _ = s.compute_tight_bounds();
                        let _ = s.transform(ts);
                    }
                    if let Some(d) = st.dash.as_ref() {
                        let _ = p.dash(d, res);
                    }
                    let _ = p.clone().transform(ts);
                }
            }
            6 => {
                // anti-aliased hairlines with end points on the half-pixel grid next to the borders
                let mut pb = PathBuilder::new();
                let g = |r: &mut Rng, n: u32| -> f32 {
                    match r.below(3) {
                        0 => (r.below(2 * n + 4) as f32) * 0.5 - 1.0,
                        1 => n as f32 - [0.5f32, 1.0, 1.5, 0.0, 2.5][r.below(5) as usize],
                        _ => [0.5f32, 0.0, 1.0, -0.5][r.below(4) as usize],
                    }
                };
                let (ww, hh) = if w > 100 { (w, h) } else { (w.max(2), h.max(2)) };
                pb.move_to(g(&mut r, ww), g(&mut r, hh));
                for _ in 0..(1 + r.below(3)) {
                    pb.line_to(g(&mut r, ww), g(&mut r, hh));
                }
                if let Some(p) = pb.finish() {
                    let mut paint = Paint::default();
                    paint.anti_alias = r.below(4) != 0;
                    let stroke = Stroke { width: [0.0f32, 0.0, 0.5, 0.9][r.below(4) as usize], line_cap: [LineCap::Butt, LineCap::Round, LineCap::Square][r.below(3) as usize], ..Stroke::default() };
                    pm.stroke_path(&p, &paint, &stroke, Transform::identity(), None);
                }
            }
            _ => {
                // cubics with control points millions of pixels away and end points a fraction inside the border
                let mut pb = PathBuilder::new();
                let far = |r: &mut Rng| r.sign() * r.unit() * [3e4f32, 4e6, 6e6, 1.6e7, 3e7][r.below(5) as usize];
                let near = |r: &mut Rng, n: u32| [0.1f32, 0.0, 0.01, n as f32 - 0.1, n as f32 * 0.5][r.below(5) as usize];
                pb.move_to(r.coord(0, w), r.coord(0, h));
                for _ in 0..(1 + r.below(2)) {
                    pb.cubic_to(r.coord(0, w), far(&mut r), r.coord(0, w), far(&mut r), r.coord(0, w), near(&mut r, h));
                    if r.below(2) == 0 {
                        pb.cubic_to(far(&mut r), r.coord(0, h), far(&mut r), r.coord(0, h), near(&mut r, w), r.coord(0, h));
                    }
                }
                pb.close();
                if let Some(p) = pb.finish() {
                    let mut paint = Paint::default();
                    paint.anti_alias = r.below(2) == 0;
                    pm.fill_path(&p, &paint, FillRule::Winding, if r.below(4) == 0 { Transform::from_scale(100.0, 100.0) } else { Transform::identity() }, None);
                    let mut m = Mask::new(w, h).unwrap();
                    m.fill_path(&p, FillRule::EvenOdd, r.below(2) == 0, Transform::identity());
                }
            }
        }
        calls += 1;
    }
    calls
}

/// args: seed family -> [calls made] ; a hang is reported as -99 (the worker thread is abandoned)
pub fn run_api_fuzz(l: &[i128]) -> Vec<i128> {
    if l.len() < 2 {
        return vec![-3];
    }
    let (seed, family) = (l[0] as u64, l[1] as u32);
    let (tx, rx) = std::sync::mpsc::channel();
    let th = std::thread::Builder::new().stack_size(64 << 20).spawn(move || {
        let res = std::panic::catch_unwind(|| one_case(seed, family));
        let _ = tx.send(res.map_err(|e| {
            if let Some(s) = e.downcast_ref::<String>() {
                s.clone()
            } else if let Some(s) = e.downcast_ref::<&str>() {
                s.to_string()
            } else {
                "?".to_string()
            }
        }));
    });
    if th.is_err() {
        return vec![-4];
    }
    match rx.recv_timeout(std::time::Duration::from_secs(60)) {
        Ok(Ok(n)) => vec![n],
        Ok(Err(msg)) => panic!("{}", msg),
        Err(_) => vec![-99],
    }
}

/// args: w h -> -1 (no tiling needed) | x y w h of every tile, in order
pub fn run_tiles(l: &[i128]) -> Vec<i128> {
    if l.len() != 2 {
        return vec![-3];
    }
    #[cfg(tiny_skia_verif)]
    {
        return match tiny_skia::verif_hooks::draw_tiles(l[0] as u32, l[1] as u32) {
            None => vec![-1],
            Some(ts) => ts.iter().flat_map(|t| vec![t.0 as i128, t.1 as i128, t.2 as i128, t.3 as i128]).collect(),
        };
    }
    #[allow(unreachable_code)]
    {
        vec![-8]
    }
}


/// Draws on pixmaps with a dimension of 32768 or more (the 16.16 / 24.8 conversions of the rectangle and hairline code saturate
/// there; such pixmaps are always drawn in tiles).
/// args: w h aa kind(0 fill_rect, 1 fill_path of the same rect, 2 stroke_path of its diagonal) l t r b (whole pixels)
/// -> [alpha at the first pixel of the rect, alpha at its last pixel]   (a panic is reported by the runner)
pub fn run_big_draw(l: &[i128]) -> Vec<i128> {
    if l.len() != 8 {
        return vec![-3];
    }
    use tiny_skia::{FillRule, Paint, PathBuilder, Pixmap, Rect, Stroke, Transform};
    let (w, h) = (l[0] as u32, l[1] as u32);
    let mut pm = match Pixmap::new(w, h) {
        Some(p) => p,
        None => return vec![-3],
    };
    let mut paint = Paint::default();
    paint.set_color_rgba8(10, 200, 30, 255);
    paint.anti_alias = l[2] != 0;
    let (a, t, r, b) = (l[4] as f32, l[5] as f32, l[6] as f32, l[7] as f32);
    let rect = match Rect::from_ltrb(a, t, r, b) {
        Some(v) => v,
        None => return vec![-3],
    };
    match l[3] {
        0 => pm.fill_rect(rect, &paint, Transform::identity(), None),
        1 => pm.fill_path(&PathBuilder::from_rect(rect), &paint, FillRule::Winding, Transform::identity(), None),
        _ => {
            let mut pb = PathBuilder::new();
            pb.move_to(a, t);
            pb.line_to(r, b);
            let p = pb.finish().unwrap();
            pm.stroke_path(&p, &paint, &Stroke { width: 3.0, ..Stroke::default() }, Transform::identity(), None);
        }
    }
    let px = |x: f32, y: f32| -> i128 {
        let (x, y) = ((x as u32).min(w - 1), (y as u32).min(h - 1));
        pm.pixel(x, y).map(|p| p.alpha() as i128).unwrap_or(-1)
    };
    vec![px(a, t), px(r - 1.0, b - 1.0)]
}
