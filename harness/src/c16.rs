//! C16: Pattern / draw_pixmap sampling against an independent f64 reference.
use crate::f;
use tiny_skia::*;

struct Rng(u64);
impl Rng {
    fn next(&mut self) -> u32 {
        self.0 = self.0.wrapping_mul(6364136223846793005).wrapping_add(1442695040888963407);
        (self.0 >> 33) as u32
    }
    fn below(&mut self, n: u32) -> u32 {
        self.next() % n
    }
}

fn tile_index(i: i64, n: i64, spread: i128) -> i64 {
    match spread % 3 {
        0 => i.max(0).min(n - 1),
        1 => {
            // reflect
            let m = i.rem_euclid(2 * n);
            if m < n { m } else { 2 * n - 1 - m }
        }
        _ => i.rem_euclid(n),
    }
}

/// args: kind(0 draw_pixmap, 1 pattern over the whole pixmap) sw sh seed constant ox oy  ts*6  spread filter opacity blend bg w h
/// -> [checked, wrong nearest pixel, outside hull, r/g/b above alpha, changed outside the source rectangle, constant colour not reproduced,
///     x, y, what, got, expected]
pub fn run_pat_px(l: &[i128]) -> Vec<i128> {
    if l.len() < 19 {
        return vec![-3];
    }
    let kind = l[0];
    let (sw, sh) = (l[1] as u32, l[2] as u32);
    let mut r = Rng(l[3] as u64 ^ 0xA5A5_5A5A_1234_5678);
    let constant = l[4] != 0;
    let (ox, oy) = (l[5] as i32, l[6] as i32);
    let ts = Transform::from_row(f(l[7]), f(l[9]), f(l[8]), f(l[10]), f(l[11]), f(l[12]));
    let spread_i = l[13];
    let spread = [SpreadMode::Pad, SpreadMode::Reflect, SpreadMode::Repeat][(spread_i as usize) % 3];
    let filter_i = (l[14] as usize) % 3;
    let filter = [FilterQuality::Nearest, FilterQuality::Bilinear, FilterQuality::Bicubic][filter_i];
    let opacity = f(l[15]);
    let blend = l[16];
    let bg = l[17];
    let (w, h) = (l[18] as u32, l[19] as u32);
    // source
    let mut src = Pixmap::new(sw, sh).unwrap();
    let cc = {
        let a = [255u32, 128, 77, 1][r.below(4) as usize];
        [r.below(a + 1) as u8, r.below(a + 1) as u8, r.below(a + 1) as u8, a as u8]
    };
    for p in src.pixels_mut() {
        let c = if constant {
            cc
        } else {
            let a = match r.below(4) {
                0 => 255u32,
                1 => 0,
                _ => r.below(256),
            };
            [r.below(a + 1) as u8, r.below(a + 1) as u8, r.below(a + 1) as u8, a as u8]
        };
        *p = PremultipliedColorU8::from_rgba(c[0], c[1], c[2], c[3]).unwrap();
    }
    let bgc = [[0u8, 0, 0, 0], [255, 255, 255, 255], [40, 10, 90, 128]][(bg as usize) % 3];
    let mut pm = Pixmap::new(w, h).unwrap();
    for p in pm.pixels_mut() {
        *p = PremultipliedColorU8::from_rgba(bgc[0], bgc[1], bgc[2], bgc[3]).unwrap();
    }
    // bit 0: Source / SourceOver; bits 1..: Shader::apply_opacity calls made on the pattern before drawing (kind 2): none | 0.5 | 0.5, 1.0
    let bm = if blend & 1 == 0 { BlendMode::Source } else { BlendMode::SourceOver };
    let blend_arg = blend;
    let blend = blend & 1;
    // total transform from source space to device space
    if kind == 2 {
        // C11: a Pattern's opacity scales edge pixels like interior pixels: anti-aliased fill of the pixmap inset by half a
        // pixel with a constant-colour pattern over a uniform destination; the interior is the source scaled by the opacity and
        // blended, an edge pixel lies half way (a corner pixel a quarter of the way) from the destination to the interior
        let bg4 = [bgc[0] as f64, bgc[1] as f64, bgc[2] as f64, bgc[3] as f64];
        let mut paint = Paint::default();
        paint.shader = Pattern::new(src.as_ref(), spread, filter, opacity, Transform::identity());
        let opseq: &[f32] = match (blend_arg >> 1) % 3 {
            0 => &[],
            1 => &[0.5],
            _ => &[0.5, 1.0],
        };
        for o in opseq {
            paint.shader.apply_opacity(*o);
        }
        // the opacities multiply
        let opacity = opacity.max(0.0).min(1.0) * opseq.iter().product::<f32>();
        paint.blend_mode = bm;
        paint.anti_alias = true;
        let mut pb = PathBuilder::new();
        pb.push_rect(Rect::from_ltrb(0.5, 0.5, w as f32 - 0.5, h as f32 - 0.5).unwrap());
        let path = pb.finish().unwrap();
        pm.fill_path(&path, &paint, FillRule::Winding, Transform::identity(), None);
        let (mut checked, mut bad) = (0i128, 0i128);
        let mut first = [0i128; 5];
        if w >= 4 && h >= 4 && constant {
            let inner = pm.pixel(w / 2, h / 2).unwrap();
            let i4 = [inner.red() as f64, inner.green() as f64, inner.blue() as f64, inner.alpha() as f64];
            let op = (opacity as f64).max(0.0).min(1.0);
            let sa = cc[3] as f64 * op / 255.0;
            checked += 1;
            for j in 0..4 {
                let want = if blend == 0 { cc[j] as f64 * op } else { cc[j] as f64 * op + bg4[j] * (1.0 - sa) };
                if (i4[j] - want).abs() > 2.5 {
                    bad += 1;
                    if first[2] == 0 {
                        first = [(w / 2) as i128, (h / 2) as i128, 8, i4[j] as i128, want as i128];
                    }
                    break;
                }
            }
            for y in 0..h {
                for x in 0..w {
                    let ex = x == 0 || x == w - 1;
                    let ey = y == 0 || y == h - 1;
                    let k = if ex && ey { 0.25 } else if ex || ey { 0.5 } else { 1.0 };
                    let g = pm.pixel(x, y).unwrap();
                    let g4 = [g.red() as f64, g.green() as f64, g.blue() as f64, g.alpha() as f64];
                    checked += 1;
                    for j in 0..4 {
                        let want = bg4[j] + (i4[j] - bg4[j]) * k;
                        if (g4[j] - want).abs() > 2.5 {
                            bad += 1;
                            if first[2] == 0 {
                                first = [x as i128, y as i128, 7, g4[j] as i128, want as i128];
                            }
                            break;
                        }
                    }
                }
            }
        }
        return vec![checked, 0, 0, 0, 0, bad, first[0], first[1], first[2], first[3], first[4], 0, 0];
    }
    if kind == 3 {
        // a Pattern with a transform of its own, drawn through a translate-only draw transform (Shader::transform composes the
        // two), against the same pattern built with the composed transform and drawn with the identity: byte-identical
        use tiny_skia::Rect;
        let (dx, dy) = (ox as f32, oy as f32);
        let rect = match Rect::from_xywh(2.0, 1.0, (w as f32 - 6.0).max(1.0), (h as f32 - 4.0).max(1.0)) {
            Some(r) => r,
            None => return vec![-3],
        };
        let mut a = pm.clone();
        let mut bref = pm.clone();
        let mut paint = Paint::default();
        paint.blend_mode = bm;
        paint.shader = Pattern::new(src.as_ref(), spread, filter, opacity, ts);
        a.fill_rect(rect, &paint, Transform::from_translate(dx, dy), None);
        let mut paint2 = Paint::default();
        paint2.blend_mode = bm;
        paint2.shader = Pattern::new(src.as_ref(), spread, filter, opacity, ts.post_translate(dx, dy));
        if let Some(r2) = Rect::from_xywh(2.0 + dx, 1.0 + dy, rect.width(), rect.height()) {
            bref.fill_rect(r2, &paint2, Transform::identity(), None);
        }
        let (mut checked, mut bad) = (0i128, 0i128);
        let mut first = [0i128; 5];
        for y in 0..h {
            for x in 0..w {
                checked += 1;
                let (p, q) = (a.pixel(x, y).unwrap(), bref.pixel(x, y).unwrap());
                if p != q {
                    bad += 1;
                    if first[2] == 0 {
                        first = [x as i128, y as i128, 9, p.red() as i128 * 1000 + p.alpha() as i128, q.red() as i128 * 1000 + q.alpha() as i128];
                    }
                }
            }
        }
        return vec![checked, 0, 0, 0, 0, bad, first[0], first[1], first[2], first[3], first[4], 0, 0];
    }
    let total = if kind == 0 {
        let pp = PixmapPaint { opacity, blend_mode: bm, quality: filter };
        pm.draw_pixmap(ox, oy, src.as_ref(), &pp, ts, None);
        ts.pre_concat(Transform::from_translate(ox as f32, oy as f32))
    } else {
        let mut paint = Paint::default();
        paint.shader = Pattern::new(src.as_ref(), spread, filter, opacity, ts);
        paint.blend_mode = bm;
        paint.anti_alias = false;
        pm.fill_rect(Rect::from_xywh(0.0, 0.0, w as f32, h as f32).unwrap(), &paint, Transform::identity(), None);
        ts
    };
    let inv = match total.invert() {
        Some(v) => v,
        None => return vec![0, 0, 0, 0, 0, 0, 0, 0, 0, 0, 0],
    };
    let (a11, a12, a21, a22, t1, t2) = (inv.sx as f64, inv.kx as f64, inv.ky as f64, inv.sy as f64, inv.tx as f64, inv.ty as f64);
    let mag = a11.abs().max(a12.abs()).max(a21.abs()).max(a22.abs()).max(1.0);
    let eps = 2e-3 * mag + 1e-5 * (t1.abs() + t2.abs());
    let spread_eff = if kind == 0 { 0 } else { spread_i };
    let srcpx = |ix: i64, iy: i64| -> [i64; 4] {
        let p = src.pixel(tile_index(ix, sw as i64, spread_eff) as u32, tile_index(iy, sh as i64, spread_eff) as u32).unwrap();
        [p.red() as i64, p.green() as i64, p.blue() as i64, p.alpha() as i64]
    };
    let (mut checked, mut bad_near, mut bad_hull, mut bad_premul, mut outside, mut bad_const) = (0i128, 0i128, 0i128, 0i128, 0i128, 0i128);
    let mut first = [0i128; 5];
    let mut note = |first: &mut [i128; 5], x: u32, y: u32, what: i128, got: i64, exp: i64| {
        if first[2] == 0 {
            *first = [x as i128, y as i128, what, got as i128, exp as i128];
        }
    };
    let exact = blend == 0 && opacity >= 1.0 || (blend == 1 && opacity >= 1.0 && bgc[3] == 0);
    // ---- full reference (f64): filter taps and weights, clamps, opacity, blend, store
    let is_translate = total.sx == 1.0 && total.sy == 1.0 && total.kx == 0.0 && total.ky == 0.0;
    let int_translate = is_translate && total.tx == total.tx.trunc() && total.ty == total.ty.trunc();
    let eff_filter = if is_translate { 0 } else { filter_i };
    let _ = int_translate;
    let near = |t: f64| t * (t * ((-21.0 / 18.0) * t + 27.0 / 18.0) + 9.0 / 18.0) + 1.0 / 18.0;
    let far = |t: f64| (t * t) * ((7.0 / 18.0) * t - 6.0 / 18.0);
    let op = (opacity as f64).max(0.0).min(1.0);
    let reference = |u: f64, v: f64| -> [f64; 4] {
        let mut acc = [0.0f64; 4];
        match eff_filter {
            0 => {
                let e = srcpx(u.floor() as i64, v.floor() as i64);
                for j in 0..4 {
                    acc[j] = e[j] as f64 / 255.0;
                }
            }
            1 => {
                let (iu, iv) = ((u - 0.5).floor(), (v - 0.5).floor());
                let (fu, fv) = (u - 0.5 - iu, v - 0.5 - iv);
                for (dy, wy) in [(0i64, 1.0 - fv), (1, fv)] {
                    for (dx, wx) in [(0i64, 1.0 - fu), (1, fu)] {
                        let e = srcpx(iu as i64 + dx, iv as i64 + dy);
                        for j in 0..4 {
                            acc[j] += wx * wy * e[j] as f64 / 255.0;
                        }
                    }
                }
            }
            _ => {
                let (iu, iv) = ((u - 0.5).floor(), (v - 0.5).floor());
                let (fu, fv) = (u - 0.5 - iu, v - 0.5 - iv);
                let wxs = [far(1.0 - fu), near(1.0 - fu), near(fu), far(fu)];
                let wys = [far(1.0 - fv), near(1.0 - fv), near(fv), far(fv)];
                for (dy, wy) in wys.iter().enumerate() {
                    for (dx, wx) in wxs.iter().enumerate() {
                        let e = srcpx(iu as i64 - 1 + dx as i64, iv as i64 - 1 + dy as i64);
                        for j in 0..4 {
                            acc[j] += wx * wy * e[j] as f64 / 255.0;
                        }
                    }
                }
                // clamp_0, clamp_a
                for j in 0..4 {
                    acc[j] = acc[j].max(0.0);
                }
                acc[3] = acc[3].min(1.0);
                for j in 0..3 {
                    acc[j] = acc[j].min(acc[3]);
                }
            }
        }
        for j in 0..4 {
            acc[j] *= op;
        }
        if blend != 0 {
            let sa = acc[3];
            for j in 0..4 {
                acc[j] += bgc[j] as f64 / 255.0 * (1.0 - sa);
            }
        }
        acc
    };
    let mut bad_ref = 0i128;
    let mut worst_ref = 0.0f64;
    for y in 0..h {
        for x in 0..w {
            let got = pm.pixel(x, y).unwrap();
            let g = [got.red() as i64, got.green() as i64, got.blue() as i64, got.alpha() as i64];
            let (cx, cy) = (x as f64 + 0.5, y as f64 + 0.5);
            let (u, v) = (a11 * cx + a12 * cy + t1, a21 * cx + a22 * cy + t2);
            // every result of a draw onto a premultiplied background stays premultiplied
            if g[0] > g[3] || g[1] > g[3] || g[2] > g[3] {
                bad_premul += 1;
                note(&mut first, x, y, 3, g[0].max(g[1]).max(g[2]), g[3]);
            }
            if kind == 0 {
                // draw_pixmap: nothing outside the (transformed) source rectangle
                // the rectangle is scan-converted without anti-aliasing: pixels whose centre is within 1/8 px (device)
                // of its outline may go either way (C02)
                let m = 0.13 * mag + eps;
                let inside = u > -m && v > -m && u < sw as f64 + m && v < sh as f64 + m;
                let strictly_inside = u > m && v > m && u < sw as f64 - m && v < sh as f64 - m;
                if !inside {
                    if g != [bgc[0] as i64, bgc[1] as i64, bgc[2] as i64, bgc[3] as i64] {
                        outside += 1;
                        note(&mut first, x, y, 4, g[3], bgc[3] as i64);
                    }
                    continue;
                }
                if !strictly_inside {
                    continue;
                }
            }
            // the reference colour, compared where a small error of the mapped position cannot change the taps much:
            // evaluated at the position and at four positions eps around it, the result must be within one level of that range
            if !constant && !(eff_filter == 0 && ((u - u.round()).abs() < eps || (v - v.round()).abs() < eps))
                && !(eff_filter != 0 && (((u - 0.5) - (u - 0.5).round()).abs() < eps || ((v - 0.5) - (v - 0.5).round()).abs() < eps) && spread_eff != 0)
            {
                let probes = [(u, v), (u - eps, v), (u + eps, v), (u, v - eps), (u, v + eps)];
                let vals: Vec<[f64; 4]> = probes.iter().map(|(a, b)| reference(*a, *b)).collect();
                let skip = eff_filter == 0 && false;
                if !skip {
                    for j in 0..4 {
                        let lo = vals.iter().map(|c| c[j]).fold(f64::INFINITY, f64::min) * 255.0;
                        let hi = vals.iter().map(|c| c[j]).fold(f64::NEG_INFINITY, f64::max) * 255.0;
                        let gj = g[j] as f64;
                        let err = if gj < lo { lo - gj } else if gj > hi { gj - hi } else { 0.0 };
                        if err > worst_ref {
                            worst_ref = err;
                        }
                        if err > REF_TOL {
                            bad_ref += 1;
                            note(&mut first, x, y, 6, g[j], ((lo + hi) / 2.0).round() as i64);
                            break;
                        }
                    }
                }
            }
            if !exact {
                continue;
            }
            checked += 1;
            if constant {
                // any filter reproduces a constant image
                let c = [cc[0] as i64, cc[1] as i64, cc[2] as i64, cc[3] as i64];
                if g != c {
                    bad_const += 1;
                    note(&mut first, x, y, 5, g[0] * 1000 + g[3], c[0] * 1000 + c[3]);
                }
                continue;
            }
            let near_int = |z: f64| (z - z.round()).abs() < eps;
            match filter_i {
                0 => {
                    if near_int(u) || near_int(v) {
                        continue;
                    }
                    let e = srcpx(u.floor() as i64, v.floor() as i64);
                    if g != e {
                        bad_near += 1;
                        note(&mut first, x, y, 1, g[0] * 1000 + g[3], e[0] * 1000 + e[3]);
                    }
                }
                1 => {
                    // the 2x2 neighbourhood (or fewer when the filter was legitimately reduced to nearest): convex hull per channel
                    if near_int(u - 0.5) || near_int(v - 0.5) {
                        continue;
                    }
                    let (iu, iv) = ((u - 0.5).floor() as i64, (v - 0.5).floor() as i64);
                    let ps = [srcpx(iu, iv), srcpx(iu + 1, iv), srcpx(iu, iv + 1), srcpx(iu + 1, iv + 1)];
                    for j in 0..4 {
                        let lo = ps.iter().map(|p| p[j]).min().unwrap();
                        let hi = ps.iter().map(|p| p[j]).max().unwrap();
                        if g[j] < lo || g[j] > hi {
                            bad_hull += 1;
                            note(&mut first, x, y, 2, g[j], if g[j] < lo { lo } else { hi });
                            break;
                        }
                    }
                }
                _ => {} // bicubic: the premultiplied check above
            }
        }
    }
    vec![checked, bad_near, bad_hull, bad_premul, outside, bad_const, first[0], first[1], first[2], first[3], first[4], bad_ref, (worst_ref * 100.0) as i128]
}

/// tolerance of the reference comparison, in 8-bit levels (binary32 weights and sums, rounding at the store)
const REF_TOL: f64 = 1.01;

/// args: w h x y (bit patterns) -> the gather index
pub fn run_gather(l: &[i128]) -> Vec<i128> {
    if l.len() != 4 {
        return vec![-3];
    }
    #[cfg(tiny_skia_verif)]
    {
        return match tiny_skia::verif_hooks::gather_index(l[0] as u32, l[1] as u32, f(l[2]), f(l[3])) {
            Some(i) => vec![i as i128],
            None => vec![-1],
        };
    }
    #[allow(unreachable_code)]
    {
        vec![-8]
    }
}

/// args: kind sw sh ox oy spread w h -> for every destination pixel (row-major) the index of the source pixel it
/// received (the source holds its own index in r,g,b, opaque), -1 where the destination stayed transparent,
/// -4 for a colour that is no source pixel.  Public API only: draw_pixmap (kind 0) or a Pattern fill (kind 1),
/// Nearest, blend mode Source.
pub fn run_nearest_map(l: &[i128]) -> Vec<i128> {
    if l.len() != 8 {
        return vec![-3];
    }
    let kind = l[0];
    let (sw, sh) = (l[1] as u32, l[2] as u32);
    let (ox, oy) = (l[3] as i32, l[4] as i32);
    let spread = [SpreadMode::Pad, SpreadMode::Reflect, SpreadMode::Repeat][(l[5] as usize) % 3];
    let (w, h) = (l[6] as u32, l[7] as u32);
    let mut src = match Pixmap::new(sw, sh) {
        Some(v) => v,
        None => return vec![-3],
    };
    for (i, p) in src.pixels_mut().iter_mut().enumerate() {
        *p = PremultipliedColorU8::from_rgba((i & 255) as u8, ((i >> 8) & 255) as u8, ((i >> 16) & 255) as u8, 255).unwrap();
    }
    let mut pm = match Pixmap::new(w, h) {
        Some(v) => v,
        None => return vec![-3],
    };
    if kind == 0 {
        let pp = PixmapPaint { opacity: 1.0, blend_mode: BlendMode::Source, quality: FilterQuality::Nearest };
        pm.draw_pixmap(ox, oy, src.as_ref(), &pp, Transform::identity(), None);
    } else {
        let mut paint = Paint::default();
        let (tx, ty) = if kind == 2 { (ox as f32 * 0.5, oy as f32 * 0.5) } else { (ox as f32, oy as f32) };
        paint.shader = Pattern::new(src.as_ref(), spread, FilterQuality::Nearest, 1.0, Transform::from_translate(tx, ty));
        paint.blend_mode = BlendMode::Source;
        paint.anti_alias = false;
        pm.fill_rect(Rect::from_xywh(0.0, 0.0, w as f32, h as f32).unwrap(), &paint, Transform::identity(), None);
    }
    let n = (sw as i128) * (sh as i128);
    pm.pixels()
        .iter()
        .map(|p| {
            if p.alpha() == 0 {
                -1
            } else if p.alpha() != 255 {
                -4
            } else {
                let i = p.red() as i128 | (p.green() as i128) << 8 | (p.blue() as i128) << 16;
                if i < n { i } else { -4 }
            }
        })
        .collect()
}
