//! Independent geometric oracle (not part of tiny-skia): exact winding-number classification of
//! pixel centres / sub-samples against the outline of a path.  Line segments are exact (i128
//! arithmetic on coordinates scaled by 2^40); curves are flattened by repeated midpoint
//! subdivision in f64 (error far below the tolerance bands used by the properties).
use tiny_skia_path::{Path, PathSegment, Point};

const SCALE_BITS: i32 = 40;

#[derive(Clone, Copy, Debug)]
pub struct P {
    pub x: i128,
    pub y: i128,
    pub fx: f64,
    pub fy: f64,
}

fn to_p(x: f64, y: f64) -> P {
    let s = (1u64 << SCALE_BITS) as f64;
    P { x: (x * s).round() as i128, y: (y * s).round() as i128, fx: x, fy: y }
}

fn flat_quad(p0: (f64, f64), p1: (f64, f64), p2: (f64, f64), depth: u32, out: &mut Vec<P>) {
    if depth == 0 {
        out.push(to_p(p2.0, p2.1));
        return;
    }
    let m = |a: (f64, f64), b: (f64, f64)| ((a.0 + b.0) * 0.5, (a.1 + b.1) * 0.5);
    let a = m(p0, p1);
    let b = m(p1, p2);
    let c = m(a, b);
    flat_quad(p0, a, c, depth - 1, out);
    flat_quad(c, b, p2, depth - 1, out);
}

fn flat_cubic(p0: (f64, f64), p1: (f64, f64), p2: (f64, f64), p3: (f64, f64), depth: u32, out: &mut Vec<P>) {
    if depth == 0 {
        out.push(to_p(p3.0, p3.1));
        return;
    }
    let m = |a: (f64, f64), b: (f64, f64)| ((a.0 + b.0) * 0.5, (a.1 + b.1) * 0.5);
    let a = m(p0, p1);
    let b = m(p1, p2);
    let c = m(p2, p3);
    let d = m(a, b);
    let e = m(b, c);
    let f = m(d, e);
    flat_cubic(p0, a, d, f, depth - 1, out);
    flat_cubic(f, e, c, p3, depth - 1, out);
}

/// contours as closed polylines (every contour implicitly closed, as a fill does)
pub fn contours(path: &Path, close: bool) -> Vec<Vec<P>> {
    let mut res: Vec<Vec<P>> = Vec::new();
    let mut cur: Vec<P> = Vec::new();
    let mut last = (0.0f64, 0.0f64);
    let pt = |p: Point| (p.x as f64, p.y as f64);
    for seg in path.segments() {
        match seg {
            PathSegment::MoveTo(p) => {
                if cur.len() > 1 {
                    res.push(std::mem::take(&mut cur));
                } else {
                    cur.clear();
                }
                last = pt(p);
                cur.push(to_p(last.0, last.1));
            }
            PathSegment::LineTo(p) => {
                last = pt(p);
                cur.push(to_p(last.0, last.1));
            }
            PathSegment::QuadTo(p1, p2) => {
                flat_quad(last, pt(p1), pt(p2), 7, &mut cur);
                last = pt(p2);
            }
            PathSegment::CubicTo(p1, p2, p3) => {
                flat_cubic(last, pt(p1), pt(p2), pt(p3), 7, &mut cur);
                last = pt(p3);
            }
            PathSegment::Close => {
                // an explicit Close always draws the closing segment
                if let Some(f) = cur.first().cloned() {
                    last = (f.fx, f.fy);
                    cur.push(f);
                }
            }
        }
    }
    if cur.len() > 1 {
        res.push(cur);
    }
    if close {
        for c in res.iter_mut() {
            let f = c[0];
            let l = *c.last().unwrap();
            if f.x != l.x || f.y != l.y {
                c.push(f);
            }
        }
    }
    res
}

/// winding number of the point (px, py) (scaled coordinates) with the half-open rule
pub fn winding(cs: &[Vec<P>], px: i128, py: i128) -> i32 {
    let mut w = 0;
    for c in cs {
        for k in 0..c.len() - 1 {
            let (a, b) = (c[k], c[k + 1]);
            if a.y <= py && py < b.y {
                // upward edge: point strictly left of it?
                let cross = (b.x - a.x) * (py - a.y) - (px - a.x) * (b.y - a.y);
                if cross > 0 {
                    w += 1;
                }
            } else if b.y <= py && py < a.y {
                let cross = (b.x - a.x) * (py - a.y) - (px - a.x) * (b.y - a.y);
                if cross < 0 {
                    w -= 1;
                }
            }
        }
    }
    w
}

/// Euclidean distance from (x, y) to the nearest outline segment
pub fn dist_to_outline(cs: &[Vec<P>], x: f64, y: f64) -> f64 {
    let mut best = f64::INFINITY;
    for c in cs {
        for k in 0..c.len() - 1 {
            let (ax, ay, bx, by) = (c[k].fx, c[k].fy, c[k + 1].fx, c[k + 1].fy);
            let (dx, dy) = (bx - ax, by - ay);
            let l2 = dx * dx + dy * dy;
            let t = if l2 == 0.0 { 0.0 } else { (((x - ax) * dx + (y - ay) * dy) / l2).max(0.0).min(1.0) };
            let (qx, qy) = (ax + t * dx, ay + t * dy);
            let d = ((x - qx) * (x - qx) + (y - qy) * (y - qy)).sqrt();
            if d < best {
                best = d;
            }
        }
    }
    best
}

pub fn inside(w: i32, evenodd: bool) -> bool {
    if evenodd {
        w & 1 != 0
    } else {
        w != 0
    }
}

pub fn scaled(v: f64) -> i128 {
    (v * (1u64 << SCALE_BITS) as f64).round() as i128
}

/// exact-ish area coverage of pixel (c, r): fraction of a 16x16 grid of sub-sample centres inside
pub fn coverage(cs: &[Vec<P>], c: u32, r: u32, evenodd: bool) -> f64 {
    let mut n = 0;
    for j in 0..16 {
        for i in 0..16 {
            let x = c as f64 + (i as f64 + 0.5) / 16.0;
            let y = r as f64 + (j as f64 + 0.5) / 16.0;
            if inside(winding(cs, scaled(x), scaled(y)), evenodd) {
                n += 1;
            }
        }
    }
    n as f64 / 256.0
}

/// number of outline segments passing within `r` of (x, y)
pub fn segments_near(cs: &[Vec<P>], x: f64, y: f64, r: f64) -> usize {
    let mut n = 0;
    for c in cs {
        for k in 0..c.len() - 1 {
            let (ax, ay, bx, by) = (c[k].fx, c[k].fy, c[k + 1].fx, c[k + 1].fy);
            let (dx, dy) = (bx - ax, by - ay);
            let l2 = dx * dx + dy * dy;
            if l2 == 0.0 {
                continue;
            }
            let t = (((x - ax) * dx + (y - ay) * dy) / l2).max(0.0).min(1.0);
            let (qx, qy) = (ax + t * dx, ay + t * dy);
            if ((x - qx) * (x - qx) + (y - qy) * (y - qy)).sqrt() <= r {
                n += 1;
            }
        }
    }
    n
}
