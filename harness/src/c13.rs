//! C13: (a) `wide` lane operations of the backend this binary was compiled for, (b) scenes rendered through
//! the public API, byte output (compared across the per-configuration builds of this same source).
use crate::f;
use tiny_skia::*;

fn canon(v: u32) -> i128 {
    if (v & 0x7fff_ffff) > 0x7f80_0000 {
        0x7fc00000
    } else {
        v as i128
    }
}

/// args: backend width op a b -> lane result (-5 when this binary is not that backend)
pub fn run_wide(l: &[i128]) -> Vec<i128> {
    if l.len() != 5 {
        return vec![-3];
    }
    #[cfg(tiny_skia_verif)]
    {
        let cfg = tiny_skia::verif_hooks::wide_config();
        let mine = match cfg {
            0 => 0,
            1 => 1,
            2 => 2,
            _ => 3,
        };
        if l[0] != mine {
            return vec![-5];
        }
        let op = l[2] as u32;
        let (a, b) = (f(l[3]), f(l[4]));
        let raw = if l[1] == 8 {
            // the value under test sits in lane 5, the other lanes hold unrelated values
            let mut x = [1.5f32, -2.0, 0.0, 3.25, 7.0, 0.0, -0.0, 100.0];
            let mut y = [0.5f32, 2.0, -0.0, 3.25, -7.0, 0.0, 1.0, f32::NAN];
            x[5] = a;
            y[5] = b;
            tiny_skia::verif_hooks::wide_f32x8(op, x, y)[5]
        } else {
            let mut x = [1.5f32, -2.0, 0.0, 3.25];
            let mut y = [0.5f32, f32::NAN, -0.0, 3.25];
            x[2] = a;
            y[2] = b;
            tiny_skia::verif_hooks::wide_f32x4(op, x, y)[2]
        };
        let is_mask_or_int = matches!(op, 2..=7 | 10 | 11);
        return vec![if is_mask_or_int { raw as i128 } else { canon(raw) }];
    }
    #[allow(unreachable_code)]
    {
        vec![-8]
    }
}

pub fn run_wide_config(_l: &[i128]) -> Vec<i128> {
    #[cfg(tiny_skia_verif)]
    {
        return vec![tiny_skia::verif_hooks::wide_config() as i128];
    }
    #[allow(unreachable_code)]
    {
        vec![-8]
    }
}

// a tiny deterministic integer PRNG (no floating point: identical in every configuration)
struct Rng(u64);
impl Rng {
    fn next(&mut self) -> u32 {
        self.0 = self.0.wrapping_mul(6364136223846793005).wrapping_add(1442695040888963407);
        (self.0 >> 33) as u32
    }
    fn below(&mut self, n: u32) -> u32 {
        self.next() % n
    }
    fn unit(&mut self) -> f32 {
        // k / 255 or a half-step tie k + 0.5 / 255 or an arbitrary fraction
        match self.below(4) {
            0 => self.below(256) as f32 / 255.0,
            1 => (self.below(255) as f32 + 0.5) / 255.0,
            2 => [0.0f32, 1.0, 0.5, 0.25][self.below(4) as usize],
            _ => self.below(65536) as f32 / 65535.0,
        }
    }
    fn coord(&mut self, span: u32) -> f32 {
        (self.below(span * 16) as f32) / 16.0 - 2.0
    }
}

pub const MODES_PUB: [BlendMode; 29] = MODES;
const MODES: [BlendMode; 29] = [
    BlendMode::Clear, BlendMode::Source, BlendMode::Destination, BlendMode::SourceOver, BlendMode::DestinationOver,
    BlendMode::SourceIn, BlendMode::DestinationIn, BlendMode::SourceOut, BlendMode::DestinationOut, BlendMode::SourceAtop,
    BlendMode::DestinationAtop, BlendMode::Xor, BlendMode::Plus, BlendMode::Modulate, BlendMode::Screen, BlendMode::Overlay,
    BlendMode::Darken, BlendMode::Lighten, BlendMode::ColorDodge, BlendMode::ColorBurn, BlendMode::HardLight,
    BlendMode::SoftLight, BlendMode::Difference, BlendMode::Exclusion, BlendMode::Multiply, BlendMode::Hue,
    BlendMode::Saturation, BlendMode::Color, BlendMode::Luminosity,
];

fn stops(r: &mut Rng) -> Vec<GradientStop> {
    let n = 2 + r.below(3);
    let opaque = r.below(3) == 0;
    let mut v = Vec::new();
    for i in 0..n {
        let pos = match r.below(4) {
            0 => i as f32 / (n - 1) as f32,
            1 => 0.0,
            2 => 1.0,
            _ => r.unit(),
        };
        let a = if opaque { 1.0 } else { r.unit() };
        v.push(GradientStop::new(pos, Color::from_rgba(r.unit(), r.unit(), r.unit(), a).unwrap()));
    }
    v
}

fn spread(r: &mut Rng) -> SpreadMode {
    [SpreadMode::Pad, SpreadMode::Reflect, SpreadMode::Repeat][r.below(3) as usize]
}

fn transform(r: &mut Rng) -> Transform {
    match r.below(6) {
        0 | 1 => Transform::identity(),
        2 => Transform::from_translate(r.coord(8), r.coord(8)),
        3 => Transform::from_scale(0.5 + r.below(5) as f32 * 0.5, 0.5 + r.below(4) as f32 * 0.75),
        4 => Transform::from_row(1.0, 0.25, -0.5, 1.0, r.coord(6), r.coord(6)),
        _ => Transform::from_rotate(r.below(360) as f32),
    }
}

fn make_pixmap(r: &mut Rng, w: u32, h: u32) -> Pixmap {
    let mut p = Pixmap::new(w, h).unwrap();
    for px in p.pixels_mut() {
        let a = match r.below(3) {
            0 => 255,
            1 => 0,
            _ => r.below(256) as u8,
        };
        let c = |r: &mut Rng| (r.below(256) * a as u32 / 255) as u8;
        *px = PremultipliedColorU8::from_rgba(c(r), c(r), c(r), a).unwrap();
    }
    p
}

/// args: seed w h kind -> [number of ColorDodge/ColorBurn draws, any of them in a non-linear colour space] ++ the pixel bytes (kind selects the shader family so that every family is frequent)
pub fn run_scene(l: &[i128]) -> Vec<i128> {
    if l.len() < 4 {
        return vec![-3];
    }
    render_scene(l[0] as u64, l[1] as u32, l[2] as u32, l[3] as u32, None).0
}

/// renders the scene; `init` = the pixmap to draw on (None: a fresh one with the scene's own background)
pub fn render_scene(seed: u64, w: u32, h: u32, family: u32, init: Option<Pixmap>) -> (Vec<i128>, Pixmap) {
    let mut r = Rng(seed ^ 0x9E3779B97F4A7C15);
    let have_init = init.is_some();
    let mut pm = init.unwrap_or_else(|| Pixmap::new(w, h).unwrap());
    // background so that destination-dependent modes have something to work on
    if r.below(3) != 0 {
        let bg = make_pixmap(&mut r, w, h);
        if !have_init {
            pm.data_mut().copy_from_slice(bg.data());
        }
    }
    if family == 9 {
        // a gradient with more than 256 stops (a colour map), drawn in the high-precision pipeline over the whole width
        let n = 300 + r.below(300);
        let mut v = Vec::new();
        for i in 0..n {
            v.push(GradientStop::new(i as f32 / (n - 1) as f32, Color::from_rgba(r.unit(), r.unit(), r.unit(), 1.0).unwrap()));
        }
        let mut paint = Paint::default();
        paint.force_hq_pipeline = true;
        paint.anti_alias = false;
        if let Some(sh) = LinearGradient::new(Point::from_xy(0.0, 0.0), Point::from_xy(w as f32, 0.0), v, SpreadMode::Pad, Transform::identity()) {
            paint.shader = sh;
            if let Some(rc) = Rect::from_xywh(0.0, 0.0, w as f32, h as f32) {
                pm.fill_rect(rc, &paint, Transform::identity(), None);
            }
        }
        let mut out = vec![0i128, 0];
        out.extend(pm.data().iter().map(|x| *x as i128));
        return (out, pm);
    }
    let ndraws = 1 + r.below(3);
    let (mut uses_recip, mut recip_gamma) = (0i128, 0i128);
    // family 8: a pattern source with more than 32767 columns / rows (the gather index y * width + x leaves 16 bits)
    let (pw, ph) = if family == 8 {
        if r.below(2) == 0 { (40000, 2) } else { (2, 40000) }
    } else {
        (3 + r.below(6), 2 + r.below(6))
    };
    let pat = make_pixmap(&mut r, pw, ph);
    for _ in 0..ndraws {
        let mut paint = Paint::default();
        let kind = if family == 8 { 4 } else if family < 5 { family } else { r.below(5) };
        let shader = match kind {
            0 => Some(Shader::SolidColor(Color::from_rgba(r.unit(), r.unit(), r.unit(), r.unit()).unwrap())),
            1 => LinearGradient::new(
                Point::from_xy(r.coord(w), r.coord(h)),
                Point::from_xy(r.coord(w), r.coord(h)),
                stops(&mut r),
                spread(&mut r),
                transform(&mut r),
            ),
            2 => {
                // simple radial: start == end
                let c = Point::from_xy(r.coord(w), r.coord(h));
                RadialGradient::new(c, c, 1.0 + r.below(20) as f32 * 0.75, stops(&mut r), spread(&mut r), transform(&mut r))
            }
            3 => {
                // two-point conical incl. focal on the circle and focal outside (degenerate regions)
                let c = Point::from_xy(r.coord(w), r.coord(h));
                let rad = 2.0 + r.below(12) as f32;
                let fpt = match r.below(4) {
                    0 => Point::from_xy(c.x + rad, c.y),
                    1 => Point::from_xy(c.x + rad * 1.5, c.y + 1.0),
                    2 => Point::from_xy(c.x + rad * 0.5, c.y - 0.25 * rad),
                    _ => Point::from_xy(r.coord(w), r.coord(h)),
                };
                RadialGradient::new(fpt, c, rad, stops(&mut r), spread(&mut r), transform(&mut r))
            }
            _ => {
                let q = [FilterQuality::Nearest, FilterQuality::Bilinear, FilterQuality::Bicubic][r.below(3) as usize];
                let op = [1.0f32, 0.5, 0.999, 0.3][r.below(4) as usize];
                let pts = if family == 8 {
                    // show the far end of the long side
                    Transform::from_translate(-((pw.max(12) - 12) as f32), -((ph.max(12) - 12) as f32))
                } else {
                    transform(&mut r)
                };
                Some(Pattern::new(pat.as_ref(), spread(&mut r), q, op, pts))
            }
        };
        paint.shader = match shader {
            Some(s) => s,
            None => continue,
        };
        paint.blend_mode = MODES[r.below(29) as usize];
        let is_recip = matches!(paint.blend_mode, BlendMode::ColorDodge | BlendMode::ColorBurn);
        paint.anti_alias = r.below(2) == 0;
        paint.force_hq_pipeline = r.below(3) == 0;
        paint.colorspace = [ColorSpace::Linear, ColorSpace::Linear, ColorSpace::Linear, ColorSpace::Gamma2, ColorSpace::SimpleSRGB, ColorSpace::FullSRGBGamma][r.below(6) as usize];
        if is_recip {
            uses_recip += 1;
            if paint.colorspace != ColorSpace::Linear {
                recip_gamma = 1;
            }
        }
        let ts = transform(&mut r);
        if std::env::var("VERIF_SCENE_DEBUG").is_ok() {
            eprintln!("draw: kind {} shader {:?}\n  blend {:?} aa {} hq {} cs {:?} ts {:?}", kind, paint.shader, paint.blend_mode, paint.anti_alias, paint.force_hq_pipeline, paint.colorspace, ts);
        }
        let mask = if r.below(4) == 0 {
            let mut m = Mask::new(w, h).unwrap();
            let p = PathBuilder::from_circle(w as f32 / 2.0, h as f32 / 2.0, w.min(h) as f32 * 0.45).unwrap();
            m.fill_path(&p, FillRule::Winding, r.below(2) == 0, Transform::identity());
            Some(m)
        } else {
            None
        };
        match r.below(5) {
            0 => {
                if let Some(rc) = Rect::from_xywh(r.coord(w), r.coord(h), 1.0 + r.coord(w).abs(), 1.0 + r.coord(h).abs()) {
                    pm.fill_rect(rc, &paint, ts, mask.as_ref());
                }
            }
            1 | 2 => {
                let mut pb = PathBuilder::new();
                pb.move_to(r.coord(w), r.coord(h));
                for _ in 0..(2 + r.below(4)) {
                    match r.below(3) {
                        0 => pb.line_to(r.coord(w), r.coord(h)),
                        1 => pb.quad_to(r.coord(w), r.coord(h), r.coord(w), r.coord(h)),
                        _ => pb.cubic_to(r.coord(w), r.coord(h), r.coord(w), r.coord(h), r.coord(w), r.coord(h)),
                    }
                }
                pb.close();
                if let Some(p) = pb.finish() {
                    let rule = if r.below(2) == 0 { FillRule::Winding } else { FillRule::EvenOdd };
                    pm.fill_path(&p, &paint, rule, ts, mask.as_ref());
                }
            }
            3 => {
                let mut pb = PathBuilder::new();
                pb.move_to(r.coord(w), r.coord(h));
                for _ in 0..(1 + r.below(3)) {
                    pb.line_to(r.coord(w), r.coord(h));
                }
                if let Some(p) = pb.finish() {
                    let stroke = Stroke { width: [0.0f32, 0.7, 2.5, 6.0][r.below(4) as usize], ..Stroke::default() };
                    pm.stroke_path(&p, &paint, &stroke, ts, mask.as_ref());
                }
            }
            _ => {
                // whole-pixmap rect: every pixel goes through the pipeline
                pm.fill_rect(Rect::from_xywh(0.0, 0.0, w as f32, h as f32).unwrap(), &paint, Transform::identity(), mask.as_ref());
            }
        }
    }
    let mut out = vec![uses_recip, recip_gamma];
    out.extend(pm.data().iter().map(|b| *b as i128));
    (out, pm)
}

// ---- exhaustive / strided sweep of the unary lane operations against a reference written with scalar f32/f64
// arithmetic that mirrors Model/WideBackends.v (ROUNDPS = ties-to-even, CVT(T)PS2DQ = integer indefinite out of range)
#[cfg(tiny_skia_verif)]
fn ref_unary(cfg: u32, op: u32, x: f32) -> u32 {
    let simd = cfg != 0;
    let rne = |v: f32| -> f32 {
        if !v.is_finite() || v.abs() >= 8388608.0 {
            return v;
        }
        let d = v as f64;
        let f = d.floor();
        let r = if d - f > 0.5 {
            f + 1.0
        } else if d - f < 0.5 {
            f
        } else if (f as i64) % 2 == 0 {
            f
        } else {
            f + 1.0
        };
        let r = r as f32;
        if r == 0.0 {
            if v.is_sign_negative() { -0.0 } else { 0.0 }
        } else {
            r
        }
    };
    let cvt_indef = |v: f32| -> i32 {
        if !v.is_finite() || v >= 2147483648.0 || v < -2147483648.0 { i32::MIN } else { v as i32 }
    };
    let trunc_i = |v: f32| -> i32 { if simd { cvt_indef(v) } else { v as i32 } };
    match op {
        8 => {
            let r = trunc_i(x) as f32;
            (r - if r > x { 1.0 } else { 0.0 }).to_bits()
        }
        // the portable rounding (scalar fallback and SSE2) yields +0.0 for -0.5 where ROUNDPS yields -0.0: the only
        // input on which the two differ (Proofs/WideProofs.v: generic_round_refuted)
        9 => if cfg <= 1 && x == -0.5 { 0 } else { rne(x).to_bits() },
        10 => (if simd { cvt_indef(rne(x)) } else { rne(x) as i32 }) as u32,
        11 => trunc_i(x) as u32,
        14 => x.sqrt().to_bits(),
        15 => x.abs().to_bits(),
        _ => 0,
    }
}

/// args: op start count step -> [mismatches, first bits, got, expected, evaluated]
pub fn run_wide_sweep(l: &[i128]) -> Vec<i128> {
    if l.len() != 4 {
        return vec![-3];
    }
    #[cfg(tiny_skia_verif)]
    {
        let cfg = tiny_skia::verif_hooks::wide_config();
        let op = l[0] as u32;
        let (start, count, step) = (l[1] as u64, l[2] as u64, l[3] as u64);
        let (mut bad, mut first) = (0i128, [0i128; 3]);
        let mut i = 0u64;
        while i < count {
            let mut lanes = [0f32; 8];
            let mut bits = [0u32; 8];
            for k in 0..8 {
                bits[k] = (start + (i + k as u64) * step) as u32;
                lanes[k] = f32::from_bits(bits[k]);
            }
            let got = tiny_skia::verif_hooks::wide_f32x8(op, lanes, lanes);
            for k in 0..8 {
                if i + k as u64 >= count {
                    break;
                }
                let want = ref_unary(cfg, op, lanes[k]);
                let is_int = matches!(op, 10 | 11);
                let same = if is_int { got[k] == want } else { canon(got[k]) == canon(want) };
                if !same {
                    if bad == 0 {
                        first = [bits[k] as i128, got[k] as i128, want as i128];
                    }
                    bad += 1;
                }
            }
            i += 8;
        }
        return vec![bad, first[0], first[1], first[2], count as i128];
    }
    #[allow(unreachable_code)]
    {
        vec![-8]
    }
}
