use tiny_skia::{ColorU8, IntSize, Mask, Pixmap, PremultipliedColorU8};

fn encode_foreign(ct: png::ColorType, depth: png::BitDepth, w: u32, h: u32, data: &[u8], palette: Option<Vec<u8>>, interlaced: bool) -> Vec<u8> {
    let mut out = Vec::new();
    {
        let mut enc = png::Encoder::new(&mut out, w, h);
        enc.set_color(ct);
        enc.set_depth(depth);
        if let Some(p) = palette {
            enc.set_palette(p);
        }
        let _ = interlaced;
        let mut wr = enc.write_header().unwrap();
        wr.write_image_data(data).unwrap();
    }
    out
}

fn px_out(pm: &Pixmap) -> Vec<i128> {
    pm.data().iter().map(|x| *x as i128).collect()
}

pub fn run(l: &[i128]) -> Vec<i128> {
    match l.first() {
        Some(1) if l.len() == 5 => match PremultipliedColorU8::from_rgba(l[1] as u8, l[2] as u8, l[3] as u8, l[4] as u8) {
            Some(p) => {
                let c = p.demultiply();
                vec![c.red() as i128, c.green() as i128, c.blue() as i128, c.alpha() as i128]
            }
            None => vec![-2],
        },
        Some(2) if l.len() == 5 => {
            let p = ColorU8::from_rgba(l[1] as u8, l[2] as u8, l[3] as u8, l[4] as u8).premultiply();
            vec![p.red() as i128, p.green() as i128, p.blue() as i128, p.alpha() as i128]
        }
        Some(3) if l.len() >= 3 => {
            let (w, h) = (l[1] as u32, l[2] as u32);
            let data: Vec<u8> = l[3..].iter().map(|x| *x as u8).collect();
            let pm = match IntSize::from_wh(w, h).and_then(|s| Pixmap::from_vec(data, s)) {
                Some(p) => p,
                None => return vec![-3],
            };
            match pm.encode_png().ok().and_then(|d| Pixmap::decode_png(&d).ok()) {
                Some(p2) => {
                    if p2.width() != w || p2.height() != h {
                        return vec![-4];
                    }
                    px_out(&p2)
                }
                None => vec![-1],
            }
        }
        Some(4) | Some(7) if l.len() >= 4 => {
            let ct = match l[1] {
                0 => png::ColorType::Grayscale,
                2 => png::ColorType::Rgb,
                4 => png::ColorType::GrayscaleAlpha,
                _ => png::ColorType::Rgba,
            };
            let (w, h) = (l[2] as u32, l[3] as u32);
            let data: Vec<u8> = if l[0] == 4 {
                l[4..].iter().map(|x| *x as u8).collect()
            } else {
                l[4..].iter().flat_map(|x| vec![(*x >> 8) as u8, (*x & 255) as u8]).collect()
            };
            let depth = if l[0] == 4 { png::BitDepth::Eight } else { png::BitDepth::Sixteen };
            let file = encode_foreign(ct, depth, w, h, &data, None, false);
            match Pixmap::decode_png(&file) {
                Ok(p) => px_out(&p),
                Err(_) => vec![-1],
            }
        }
        Some(10) if l.len() >= 5 => {
            // an 8-bit file of colour type ct written by hand (stored deflate blocks, own CRC / Adler), Adam7-interlaced when
            // l[4] != 0 (the encoder dependency cannot write interlaced files): same pixels as the non-interlaced file
            let ct = l[1] as u8;
            let ch = match ct { 0 => 1, 2 => 3, 4 => 2, _ => 4 } as usize;
            let (w, h) = (l[2] as usize, l[3] as usize);
            let interlaced = l[4] != 0;
            let data: Vec<u8> = l[5..].iter().map(|x| *x as u8).collect();
            if w == 0 || h == 0 || data.len() != w * h * ch {
                return vec![-3];
            }
            let file = handmade_png(ct, ch, w, h, interlaced, &data);
            match Pixmap::decode_png(&file) {
                Ok(p) => {
                    if p.width() as usize != w || p.height() as usize != h {
                        return vec![-4];
                    }
                    px_out(&p)
                }
                Err(_) => vec![-1],
            }
        }
        Some(9) if l.len() >= 5 => {
            // an 8-bit grey (ct 0) or RGB (ct 2) file with a tRNS colour key: the keyed colour is fully transparent
            let ct = if l[1] == 0 { png::ColorType::Grayscale } else { png::ColorType::Rgb };
            let nk = if l[1] == 0 { 1 } else { 3 };
            let (w, h) = (l[2] as u32, l[3] as u32);
            if l.len() < 4 + nk {
                return vec![-3];
            }
            // tRNS for grey / RGB holds 16-bit samples
            let key: Vec<u8> = l[4..4 + nk].iter().flat_map(|v| vec![0u8, *v as u8]).collect();
            let data: Vec<u8> = l[4 + nk..].iter().map(|x| *x as u8).collect();
            let mut file = Vec::new();
            {
                let mut enc = png::Encoder::new(&mut file, w, h);
                enc.set_color(ct);
                enc.set_depth(png::BitDepth::Eight);
                enc.set_trns(key);
                let mut wr = match enc.write_header() {
                    Ok(v) => v,
                    Err(_) => return vec![-3],
                };
                if wr.write_image_data(&data).is_err() {
                    return vec![-3];
                }
            }
            match Pixmap::decode_png(&file) {
                Ok(p) => px_out(&p),
                Err(_) => vec![-1],
            }
        }
        Some(11) if l.len() >= 4 => {
            // a valid file with one bit flipped: Err, or Ok with exactly the pixels of the intact file (a flip in a part the
            // format lets a decoder ignore); -> 0 Err, 1 Ok identical, 2 Ok with other pixels / size, -3 the intact file does not decode
            let (pos, bit) = (l[1] as usize, l[2] as u32 % 8);
            let mut data: Vec<u8> = l[3..].iter().map(|x| *x as u8).collect();
            let good = match Pixmap::decode_png(&data) {
                Ok(p) => p,
                Err(_) => return vec![-3],
            };
            if pos >= data.len() {
                return vec![-3];
            }
            data[pos] ^= 1 << bit;
            match Pixmap::decode_png(&data) {
                Err(_) => vec![0],
                Ok(p) => {
                    if p.width() == good.width() && p.height() == good.height() && p.data() == good.data() {
                        vec![1]
                    } else {
                        vec![2]
                    }
                }
            }
        }
        Some(5) => {
            let data: Vec<u8> = l[1..].iter().map(|x| *x as u8).collect();
            let a = Pixmap::decode_png(&data).is_ok() as i128;
            let b = Mask::decode_png(&data).is_ok() as i128;
            vec![a, b]
        }
        Some(6) if l.len() >= 3 => {
            let (w, h) = (l[1] as u32, l[2] as u32);
            let data: Vec<u8> = l[3..].iter().map(|x| *x as u8).collect();
            let m = match IntSize::from_wh(w, h).and_then(|s| Mask::from_vec(data, s)) {
                Some(m) => m,
                None => return vec![-3],
            };
            match m.encode_png().ok().and_then(|d| Mask::decode_png(&d).ok()) {
                Some(m2) => m2.data().iter().map(|x| *x as i128).collect(),
                None => vec![-1],
            }
        }
        Some(8) if l.len() >= 4 => {
            // palette image: indices + palette (rgb triples); result must be the palette colours or an error
            let (w, h, np) = (l[1] as u32, l[2] as u32, l[3] as usize);
            let pal: Vec<u8> = l[4..4 + 3 * np].iter().map(|x| *x as u8).collect();
            let idx: Vec<u8> = l[4 + 3 * np..].iter().map(|x| *x as u8).collect();
            let file = encode_foreign(png::ColorType::Indexed, png::BitDepth::Eight, w, h, &idx, Some(pal), false);
            match Pixmap::decode_png(&file) {
                Ok(p) => px_out(&p),
                Err(_) => vec![-1],
            }
        }
        _ => vec![-3],
    }
}


fn crc32(data: &[u8]) -> u32 {
    let mut c = 0xFFFF_FFFFu32;
    for b in data {
        c ^= *b as u32;
        for _ in 0..8 {
            c = if c & 1 != 0 { 0xEDB8_8320 ^ (c >> 1) } else { c >> 1 };
        }
    }
    !c
}

fn adler32(data: &[u8]) -> u32 {
    let (mut a, mut b) = (1u32, 0u32);
    for d in data {
        a = (a + *d as u32) % 65521;
        b = (b + a) % 65521;
    }
    (b << 16) | a
}

fn chunk(out: &mut Vec<u8>, kind: &[u8; 4], body: &[u8]) {
    out.extend_from_slice(&(body.len() as u32).to_be_bytes());
    let mut c = kind.to_vec();
    c.extend_from_slice(body);
    out.extend_from_slice(&c);
    out.extend_from_slice(&crc32(&c).to_be_bytes());
}

/// An 8-bit PNG built without the encoder dependency; filter type 0 on every scanline, stored (uncompressed) deflate blocks.
fn handmade_png(ct: u8, ch: usize, w: usize, h: usize, interlaced: bool, data: &[u8]) -> Vec<u8> {
    let mut raw = Vec::new();
    if interlaced {
        // Adam7: (x start, y start, x step, y step) of the seven passes
        let passes = [(0, 0, 8, 8), (4, 0, 8, 8), (0, 4, 4, 8), (2, 0, 4, 4), (0, 2, 2, 4), (1, 0, 2, 2), (0, 1, 1, 2)];
        for (x0, y0, dx, dy) in passes {
            if x0 >= w || y0 >= h {
                continue;
            }
            let mut y = y0;
            while y < h {
                raw.push(0u8);
                let mut x = x0;
                while x < w {
                    raw.extend_from_slice(&data[(y * w + x) * ch..(y * w + x + 1) * ch]);
                    x += dx;
                }
                y += dy;
            }
        }
    } else {
        for y in 0..h {
            raw.push(0u8);
            raw.extend_from_slice(&data[y * w * ch..(y + 1) * w * ch]);
        }
    }
    let mut z = vec![0x78u8, 0x01];
    let mut blocks = raw.chunks(60000).peekable();
    if raw.is_empty() {
        z.extend_from_slice(&[1, 0, 0, 0xFF, 0xFF]);
    }
    while let Some(b) = blocks.next() {
        z.push(if blocks.peek().is_none() { 1 } else { 0 });
        z.extend_from_slice(&(b.len() as u16).to_le_bytes());
        z.extend_from_slice(&(!(b.len() as u16)).to_le_bytes());
        z.extend_from_slice(b);
    }
    z.extend_from_slice(&adler32(&raw).to_be_bytes());
    let mut out = vec![0x89, b'P', b'N', b'G', 0x0D, 0x0A, 0x1A, 0x0A];
    let mut ihdr = Vec::new();
    ihdr.extend_from_slice(&(w as u32).to_be_bytes());
    ihdr.extend_from_slice(&(h as u32).to_be_bytes());
    ihdr.extend_from_slice(&[8, ct, 0, 0, interlaced as u8]);
    chunk(&mut out, b"IHDR", &ihdr);
    chunk(&mut out, b"IDAT", &z);
    chunk(&mut out, b"IEND", &[]);
    out
}
