use tiny_skia::{ColorU8, IntSize, Mask, Pixmap, PremultipliedColorU8};

fn encode_foreign(ct: png::ColorType, depth: png::BitDepth, w: u32, h: u32, data: &[u8], palette: Option<Vec<u8>>, interlaced: bool) -> Vec<u8> {
    let mut out = Vec::new();
    {
        let mut enc = png::Encoder::new(&mut out, w, h);
        enc.set_color(ct);
        enc.set_depth(depth);
        if let Some(p) = palette {
            enc.set_palette(p);
        }
        let _ = interlaced;
        let mut wr = enc.write_header().unwrap();
        wr.write_image_data(data).unwrap();
    }
    out
}

fn px_out(pm: &Pixmap) -> Vec<i128> {
    pm.data().iter().map(|x| *x as i128).collect()
}

pub fn run(l: &[i128]) -> Vec<i128> {
    match l.first() {
        Some(1) if l.len() == 5 => match PremultipliedColorU8::from_rgba(l[1] as u8, l[2] as u8, l[3] as u8, l[4] as u8) {
            Some(p) => {
                let c = p.demultiply();
                vec![c.red() as i128, c.green() as i128, c.blue() as i128, c.alpha() as i128]
            }
            None => vec![-2],
        },
        Some(2) if l.len() == 5 => {
            let p = ColorU8::from_rgba(l[1] as u8, l[2] as u8, l[3] as u8, l[4] as u8).premultiply();
            vec![p.red() as i128, p.green() as i128, p.blue() as i128, p.alpha() as i128]
        }
        Some(3) if l.len() >= 3 => {
            let (w, h) = (l[1] as u32, l[2] as u32);
            let data: Vec<u8> = l[3..].iter().map(|x| *x as u8).collect();
            let pm = match IntSize::from_wh(w, h).and_then(|s| Pixmap::from_vec(data, s)) {
                Some(p) => p,
                None => return vec![-3],
            };
            match pm.encode_png().ok().and_then(|d| Pixmap::decode_png(&d).ok()) {
                Some(p2) => {
                    if p2.width() != w || p2.height() != h {
                        return vec![-4];
                    }
                    px_out(&p2)
                }
                None => vec![-1],
            }
        }
        Some(4) | Some(7) if l.len() >= 4 => {
            let ct = match l[1] {
                0 => png::ColorType::Grayscale,
                2 => png::ColorType::Rgb,
                4 => png::ColorType::GrayscaleAlpha,
                _ => png::ColorType::Rgba,
            };
            let (w, h) = (l[2] as u32, l[3] as u32);
            let data: Vec<u8> = if l[0] == 4 {
                l[4..].iter().map(|x| *x as u8).collect()
            } else {
                l[4..].iter().flat_map(|x| vec![(*x >> 8) as u8, (*x & 255) as u8]).collect()
            };
            let depth = if l[0] == 4 { png::BitDepth::Eight } else { png::BitDepth::Sixteen };
            let file = encode_foreign(ct, depth, w, h, &data, None, false);
            match Pixmap::decode_png(&file) {
                Ok(p) => px_out(&p),
                Err(_) => vec![-1],
            }
        }
        Some(9) if l.len() >= 5 => {
            // an 8-bit grey (ct 0) or RGB (ct 2) file with a tRNS colour key: the keyed colour is fully transparent
            let ct = if l[1] == 0 { png::ColorType::Grayscale } else { png::ColorType::Rgb };
            let nk = if l[1] == 0 { 1 } else { 3 };
            let (w, h) = (l[2] as u32, l[3] as u32);
            if l.len() < 4 + nk {
                return vec![-3];
            }
            // tRNS for grey / RGB holds 16-bit samples
            let key: Vec<u8> = l[4..4 + nk].iter().flat_map(|v| vec![0u8, *v as u8]).collect();
            let data: Vec<u8> = l[4 + nk..].iter().map(|x| *x as u8).collect();
            let mut file = Vec::new();
            {
                let mut enc = png::Encoder::new(&mut file, w, h);
                enc.set_color(ct);
                enc.set_depth(png::BitDepth::Eight);
                enc.set_trns(key);
                let mut wr = match enc.write_header() {
                    Ok(v) => v,
                    Err(_) => return vec![-3],
                };
                if wr.write_image_data(&data).is_err() {
                    return vec![-3];
                }
            }
            match Pixmap::decode_png(&file) {
                Ok(p) => px_out(&p),
                Err(_) => vec![-1],
            }
        }
        Some(5) => {
            let data: Vec<u8> = l[1..].iter().map(|x| *x as u8).collect();
            let a = Pixmap::decode_png(&data).is_ok() as i128;
            let b = Mask::decode_png(&data).is_ok() as i128;
            vec![a, b]
        }
        Some(6) if l.len() >= 3 => {
            let (w, h) = (l[1] as u32, l[2] as u32);
            let data: Vec<u8> = l[3..].iter().map(|x| *x as u8).collect();
            let m = match IntSize::from_wh(w, h).and_then(|s| Mask::from_vec(data, s)) {
                Some(m) => m,
                None => return vec![-3],
            };
            match m.encode_png().ok().and_then(|d| Mask::decode_png(&d).ok()) {
                Some(m2) => m2.data().iter().map(|x| *x as i128).collect(),
                None => vec![-1],
            }
        }
        Some(8) if l.len() >= 4 => {
            // palette image: indices + palette (rgb triples); result must be the palette colours or an error
            let (w, h, np) = (l[1] as u32, l[2] as u32, l[3] as usize);
            let pal: Vec<u8> = l[4..4 + 3 * np].iter().map(|x| *x as u8).collect();
            let idx: Vec<u8> = l[4 + 3 * np..].iter().map(|x| *x as u8).collect();
            let file = encode_foreign(png::ColorType::Indexed, png::BitDepth::Eight, w, h, &idx, Some(pal), false);
            match Pixmap::decode_png(&file) {
                Ok(p) => px_out(&p),
                Err(_) => vec![-1],
            }
        }
        _ => vec![-3],
    }
}
