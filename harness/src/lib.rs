//! Implementation-side runners for the correspondence suites: each suite maps a list of
//! integers (the case) to a list of integers (the canonical result), exactly like the
//! extracted Coq model does for the same suite name.
pub mod c14;
pub mod c19;
pub mod px;
pub mod c18;
pub mod c17;
pub mod c01;
pub mod c02;
pub mod c03;
pub mod c05;
pub mod c06;
pub mod c07;
pub mod c13;
pub mod c15;
pub mod c16;
pub mod c20;
pub mod oracle;

pub type Suite = fn(&[i128]) -> Vec<i128>;

pub fn suites() -> Vec<(&'static str, Suite)> {
    vec![
        ("c14_builder", c14::run_builder as Suite),
        ("from_points", c14::run_from_points as Suite),
        ("c14_transform", c14::run_transform as Suite),
        ("tight_bounds", c14::run_tight_bounds as Suite),
        ("c19", c19::run as Suite),
        ("px", px::run as Suite),
        ("c18", c18::run as Suite),
        ("c17", c17::run as Suite),
        ("fill_spans", c02::run_fill_spans as Suite),
        ("line_edge", c02::run_line_edge as Suite),
        ("quad_edge", c02::run_quad_edge as Suite),
        ("cubic_edge", c02::run_cubic_edge as Suite),
        ("fill_px", c02::run_fill_px as Suite),
        ("aruns", c03::run_aruns as Suite),
        ("aa_spans", c03::run_aa_spans as Suite),
        ("hair_spans", c06::run_hair_spans as Suite),
        ("hair_aa", c06::run_hair_aa as Suite),
        ("big_draw", c01::run_big_draw as Suite),
        ("stroke_fp", c06::run_stroke_fp as Suite),
        ("hair_px", c06::run_hair_px as Suite),
        ("line_clip", c06::run_line_clip as Suite),
        ("dash_new", c07::run_dash_new as Suite),
        ("dash", c07::run_dash as Suite),
        ("dash_geo", c07::run_dash_geo as Suite),
        ("wide", c13::run_wide as Suite),
        ("wide_config", c13::run_wide_config as Suite),
        ("scene", c13::run_scene as Suite),
        ("wide_sweep", c13::run_wide_sweep as Suite),
        ("grad_new", c15::run_grad_new as Suite),
        ("grad_px", c15::run_grad_px as Suite),
        ("pat_px", c16::run_pat_px as Suite),
        ("api_fuzz", c01::run_api_fuzz as Suite),
        ("tiles", c01::run_tiles as Suite),
        ("stroke_geo", c05::run_stroke_geo as Suite),
        ("gather", c16::run_gather as Suite),
        ("cs_px", px::run_cs_px as Suite),
        ("mask_ops", px::run_mask_ops as Suite),
        ("thin_cov", px::run_thin_cov as Suite),
        ("cs_span", px::run_cs_span as Suite),
        ("nearest_map", c16::run_nearest_map as Suite),
        ("stroker_hist", c20::run_stroker_hist as Suite),
        ("draw_hist", c20::run_draw_hist as Suite),
        ("stroke_repeat", c20::run_stroke_repeat as Suite),
        ("pattern_reuse", c20::run_pattern_reuse as Suite),
    ]
}

pub fn f(bits: i128) -> f32 {
    f32::from_bits((bits & 0xffff_ffff) as u32)
}

/// canonical bit pattern: every NaN becomes 0x7fc00000
pub fn b(x: f32) -> i128 {
    if x.is_nan() {
        0x7fc00000
    } else {
        x.to_bits() as i128
    }
}
