use tiny_skia::verif_hooks::{fill_path_spans, AlphaRunsHook, BlitOp};
use tiny_skia::FillRule;

/// width, then ops `1 x sa mid ea maxv` | `2` ; output: offsets -5 runs -5 alpha (the model appends its dense views)
pub fn run_aruns(l: &[i128]) -> Vec<i128> {
    if l.is_empty() || l[0] <= 0 || l[0] > 4096 {
        return vec![-3];
    }
    let mut ar = AlphaRunsHook::new(l[0] as u32).unwrap();
    let mut off = 0usize;
    let mut offs = Vec::new();
    let mut r = &l[1..];
    loop {
        match r {
            [1, x, sa, mid, ea, mv, rest @ ..] => {
                off = ar.add(*x as u32, *sa as u8, *mid as usize, *ea as u8, *mv as u8, off);
                offs.push(off as i128);
                r = rest;
            }
            [3, x, sa, mid, ea, mv, rest @ ..] => {
                off = ar.add(*x as u32, *sa as u8, *mid as usize, *ea as u8, *mv as u8, 0);
                offs.push(off as i128);
                r = rest;
            }
            [2, rest @ ..] => {
                ar.reset();
                off = 0;
                r = rest;
            }
            _ => break,
        }
    }
    let (runs, alpha) = ar.dump();
    let mut out = offs;
    out.push(-5);
    out.extend(runs.iter().map(|x| *x as i128));
    out.push(-5);
    out.extend(alpha.iter().map(|x| *x as i128));
    out
}

pub fn run_aa_spans(l: &[i128]) -> Vec<i128> {
    if l.len() < 3 {
        return vec![-3];
    }
    let rule = if l[0] != 0 { FillRule::EvenOdd } else { FillRule::Winding };
    let (w, h) = (l[1] as u32, l[2] as u32);
    let path = match crate::c02::build_path(&l[3..]) {
        Some(p) => p,
        None => return vec![-8],
    };
    let ops = fill_path_spans(&path, rule, true, w, h);
    let mut out = Vec::new();
    for op in ops {
        match op {
            BlitOp::AntiH { x, y, aa, runs } => {
                out.push(x as i128);
                out.push(y as i128);
                out.push(aa.len() as i128);
                out.extend(runs.iter().map(|v| *v as i128));
                out.extend(aa.iter().map(|v| *v as i128));
            }
            BlitOp::H { x, y, width } => out.extend_from_slice(&[-70, x as i128, y as i128, width as i128]),
            _ => out.push(-77),
        }
    }
    out
}
