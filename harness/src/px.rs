//! "px" suite: one row of pixels through RasterPipelineBlitter (hook `verif_hooks::blit`).
use tiny_skia::verif_hooks::{blit, BlitOp};
use tiny_skia::{BlendMode, Mask, Paint, Pixmap};

pub const MODES: [BlendMode; 29] = [
    BlendMode::Clear, BlendMode::Source, BlendMode::Destination, BlendMode::SourceOver,
    BlendMode::DestinationOver, BlendMode::SourceIn, BlendMode::DestinationIn, BlendMode::SourceOut,
    BlendMode::DestinationOut, BlendMode::SourceAtop, BlendMode::DestinationAtop, BlendMode::Xor,
    BlendMode::Plus, BlendMode::Modulate, BlendMode::Screen, BlendMode::Overlay, BlendMode::Darken,
    BlendMode::Lighten, BlendMode::ColorDodge, BlendMode::ColorBurn, BlendMode::HardLight,
    BlendMode::SoftLight, BlendMode::Difference, BlendMode::Exclusion, BlendMode::Multiply,
    BlendMode::Hue, BlendMode::Saturation, BlendMode::Color, BlendMode::Luminosity,
];

pub fn run(l: &[i128]) -> Vec<i128> {
    if l.len() < 12 {
        return vec![-3];
    }
    let (kind, mode, hq, aa) = (l[0], l[1] as usize, l[2] != 0, l[3] != 0);
    let (r, g, b, a) = (l[4] as u8, l[5] as u8, l[6] as u8, l[7] as u8);
    let has_mask = l[8] != 0;
    let (x0, len, w) = (l[9] as u32, l[10] as u32, l[11] as usize);
    let rest = &l[12..];
    if rest.len() < 5 * w || w == 0 {
        return vec![-3];
    }
    let mut pm = Pixmap::new(w as u32, 1).unwrap();
    let mut mask = Mask::new(w as u32, 1).unwrap();
    for i in 0..w {
        let d = &rest[5 * i..5 * i + 5];
        pm.data_mut()[4 * i..4 * i + 4].copy_from_slice(&[d[0] as u8, d[1] as u8, d[2] as u8, d[3] as u8]);
        mask.data_mut()[i] = d[4] as u8;
    }
    let extra = &rest[5 * w..];
    let mut paint = Paint::default();
    paint.set_color_rgba8(r, g, b, a);
    paint.blend_mode = MODES[mode];
    paint.anti_alias = aa;
    paint.force_hq_pipeline = hq;
    if kind == 6 {
        // three identical rows (destination and mask), one rectangle over all of them: the middle row
        use tiny_skia::{Rect, Transform};
        paint.anti_alias = false;
        let mut pm3 = Pixmap::new(w as u32, 3).unwrap();
        let mut mask3 = Mask::new(w as u32, 3).unwrap();
        for y in 0..3 {
            pm3.data_mut()[4 * w * y..4 * w * (y + 1)].copy_from_slice(pm.data());
            mask3.data_mut()[w * y..w * (y + 1)].copy_from_slice(mask.data());
        }
        let rect = Rect::from_xywh(x0 as f32, 0.0, len as f32, 3.0).unwrap();
        pm3.fill_rect(rect, &paint, Transform::identity(), if has_mask { Some(&mask3) } else { None });
        return pm3.data()[4 * w..8 * w].iter().map(|x| *x as i128).collect();
    }
    if kind == 4 || kind == 5 {
        use tiny_skia::{Rect, Transform};
        paint.anti_alias = false;
        let rect = Rect::from_xywh(x0 as f32, 0.0, len as f32, 1.0).unwrap();
        if kind == 5 {
            let (mw, mh) = (extra[0] as u32, extra[1] as u32);
            let mut m2 = Mask::new(mw, mh).unwrap();
            for b in m2.data_mut() {
                *b = 255;
            }
            pm.fill_rect(rect, &paint, Transform::identity(), Some(&m2));
        } else {
            pm.fill_rect(rect, &paint, Transform::identity(), if has_mask { Some(&mask) } else { None });
        }
        return pm.data().iter().map(|x| *x as i128).collect();
    }
    let op = match kind {
        0 => BlitOp::Rect { x: x0, y: 0, width: len, height: 1 },
        1 => {
            let mut runs = vec![0u16; len as usize + 1];
            runs[0] = len as u16;
            let mut aav = vec![0u8; len as usize + 1];
            aav[0] = extra[0] as u8;
            BlitOp::AntiH { x: x0, y: 0, aa: aav, runs }
        }
        2 => BlitOp::V { x: x0, y: 0, height: 1, alpha: extra[0] as u8 },
        _ => BlitOp::AntiH2 { x: x0, y: 0, alpha0: extra[0] as u8, alpha1: extra[1] as u8 },
    };
    let ok = blit(&mut pm.as_mut(), &paint, if has_mask { Some(&mask) } else { None }, &[op]);
    if !ok {
        return vec![-1];
    }
    pm.data().iter().map(|x| *x as i128).collect()
}
