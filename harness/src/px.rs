//! "px" suite: one row of pixels through RasterPipelineBlitter (hook `verif_hooks::blit`).
use tiny_skia::verif_hooks::{blit, BlitOp};
use tiny_skia::{BlendMode, Mask, Paint, Pixmap};

pub const MODES: [BlendMode; 29] = [
    BlendMode::Clear, BlendMode::Source, BlendMode::Destination, BlendMode::SourceOver,
    BlendMode::DestinationOver, BlendMode::SourceIn, BlendMode::DestinationIn, BlendMode::SourceOut,
    BlendMode::DestinationOut, BlendMode::SourceAtop, BlendMode::DestinationAtop, BlendMode::Xor,
    BlendMode::Plus, BlendMode::Modulate, BlendMode::Screen, BlendMode::Overlay, BlendMode::Darken,
    BlendMode::Lighten, BlendMode::ColorDodge, BlendMode::ColorBurn, BlendMode::HardLight,
    BlendMode::SoftLight, BlendMode::Difference, BlendMode::Exclusion, BlendMode::Multiply,
    BlendMode::Hue, BlendMode::Saturation, BlendMode::Color, BlendMode::Luminosity,
];

pub fn run(l: &[i128]) -> Vec<i128> {
    if l.len() < 12 {
        return vec![-3];
    }
    let (kind, mode, hq, aa) = (l[0], l[1] as usize, l[2] != 0, l[3] != 0);
    let (r, g, b, a) = (l[4] as u8, l[5] as u8, l[6] as u8, l[7] as u8);
    let has_mask = l[8] != 0;
    let (x0, len, w) = (l[9] as u32, l[10] as u32, l[11] as usize);
    let rest = &l[12..];
    if rest.len() < 5 * w || w == 0 {
        return vec![-3];
    }
    let mut pm = Pixmap::new(w as u32, 1).unwrap();
    let mut mask = Mask::new(w as u32, 1).unwrap();
    for i in 0..w {
        let d = &rest[5 * i..5 * i + 5];
        pm.data_mut()[4 * i..4 * i + 4].copy_from_slice(&[d[0] as u8, d[1] as u8, d[2] as u8, d[3] as u8]);
        mask.data_mut()[i] = d[4] as u8;
    }
    let extra = &rest[5 * w..];
    let mut paint = Paint::default();
    if l[4..8].iter().any(|v| *v > 255) {
        // a channel above 255 is the bit pattern of an f32 (Color::from_rgba), otherwise a byte
        let ch = |v: i128| if v <= 255 { v as u8 as f32 / 255.0 } else { f32::from_bits(v as u32) };
        match tiny_skia::Color::from_rgba(ch(l[4]), ch(l[5]), ch(l[6]), ch(l[7])) {
            Some(c) => paint.set_color(c),
            None => return vec![-3],
        }
    } else {
        paint.set_color_rgba8(r, g, b, a);
    }
    paint.blend_mode = MODES[mode];
    paint.anti_alias = aa;
    paint.force_hq_pipeline = hq;
    if kind == 6 {
        // three identical rows (destination and mask), one rectangle over all of them: the middle row
        use tiny_skia::{Rect, Transform};
        paint.anti_alias = false;
        let mut pm3 = Pixmap::new(w as u32, 3).unwrap();
        let mut mask3 = Mask::new(w as u32, 3).unwrap();
        for y in 0..3 {
            pm3.data_mut()[4 * w * y..4 * w * (y + 1)].copy_from_slice(pm.data());
            mask3.data_mut()[w * y..w * (y + 1)].copy_from_slice(mask.data());
        }
        let rect = Rect::from_xywh(x0 as f32, 0.0, len as f32, 3.0).unwrap();
        pm3.fill_rect(rect, &paint, Transform::identity(), if has_mask { Some(&mask3) } else { None });
        return pm3.data()[4 * w..8 * w].iter().map(|x| *x as i128).collect();
    }
    if kind == 4 || kind == 5 {
        use tiny_skia::{Rect, Transform};
        paint.anti_alias = false;
        let rect = Rect::from_xywh(x0 as f32, 0.0, len as f32, 1.0).unwrap();
        if kind == 5 {
            let (mw, mh) = (extra[0] as u32, extra[1] as u32);
            let mut m2 = Mask::new(mw, mh).unwrap();
            for b in m2.data_mut() {
                *b = 255;
            }
            pm.fill_rect(rect, &paint, Transform::identity(), Some(&m2));
        } else {
            pm.fill_rect(rect, &paint, Transform::identity(), if has_mask { Some(&mask) } else { None });
        }
        return pm.data().iter().map(|x| *x as i128).collect();
    }
    let op = match kind {
        0 => BlitOp::Rect { x: x0, y: 0, width: len, height: 1 },
        1 => {
            let mut runs = vec![0u16; len as usize + 1];
            runs[0] = len as u16;
            let mut aav = vec![0u8; len as usize + 1];
            aav[0] = extra[0] as u8;
            BlitOp::AntiH { x: x0, y: 0, aa: aav, runs }
        }
        2 => BlitOp::V { x: x0, y: 0, height: 1, alpha: extra[0] as u8 },
        _ => BlitOp::AntiH2 { x: x0, y: 0, alpha0: extra[0] as u8, alpha1: extra[1] as u8 },
    };
    let ok = blit(&mut pm.as_mut(), &paint, if has_mask { Some(&mask) } else { None }, &[op]);
    if !ok {
        return vec![-1];
    }
    pm.data().iter().map(|x| *x as i128).collect()
}

/// args: colorspace(0 Linear 1 Gamma2 2 SimpleSRGB 3 FullSRGBGamma) mode aa r g b a n then n * (dr dg db da)
/// Public API only: an n x 1 pixmap with the given (premultiplied) destination, one fill_rect over it (inset by half a
/// pixel at both ends when aa, so the end pixels are partially covered) -> the n resulting pixels (r g b a each)
pub fn run_cs_px(l: &[i128]) -> Vec<i128> {
    if l.len() < 8 {
        return vec![-3];
    }
    use tiny_skia::{ColorSpace, Rect, Transform};
    let cs = [ColorSpace::Linear, ColorSpace::Gamma2, ColorSpace::SimpleSRGB, ColorSpace::FullSRGBGamma][(l[0] as usize) % 4];
    let mode = MODES[(l[1] as usize) % 29];
    let aa = l[2] != 0;
    let n = l[7] as usize;
    if l.len() < 8 + 4 * n || n == 0 {
        return vec![-3];
    }
    let mut pm = Pixmap::new(n as u32, 1).unwrap();
    for i in 0..n {
        let d = &l[8 + 4 * i..12 + 4 * i];
        pm.data_mut()[4 * i..4 * i + 4].copy_from_slice(&[d[0] as u8, d[1] as u8, d[2] as u8, d[3] as u8]);
    }
    let mut paint = Paint::default();
    paint.set_color_rgba8(l[3] as u8, l[4] as u8, l[5] as u8, l[6] as u8);
    paint.blend_mode = mode;
    paint.anti_alias = aa;
    paint.colorspace = cs;
    let inset = if aa { 0.5 } else { 0.0 };
    let rect = match Rect::from_ltrb(inset, 0.0, n as f32 - inset, 1.0) {
        Some(r) => r,
        None => return vec![-3],
    };
    pm.fill_rect(rect, &paint, Transform::identity(), None);
    pm.data().iter().map(|x| *x as i128).collect()
}

/// Mask operations against their documented values.
/// args: op w h seed <builder ops for op 3>
///   op 0 Mask::from_pixmap(Alpha), 1 from_pixmap(Luminance), 2 invert, 3 intersect_path (aa = seed & 1), 4 Pixmap::apply_mask,
///   5 apply_mask with a mask of another size (documented: nothing happens)
/// -> [checked, bad, x, y, got, expected]
pub fn run_mask_ops(l: &[i128]) -> Vec<i128> {
    if l.len() < 4 {
        return vec![-3];
    }
    use tiny_skia::{FillRule, IntSize, MaskType, Transform};
    let op = l[0];
    let (w, h) = (l[1] as u32, l[2] as u32);
    let mut st = l[3] as u64 ^ 0x9E37_79B9_7F4A_7C15;
    let mut next = move || {
        st = st.wrapping_mul(6364136223846793005).wrapping_add(1442695040888963407);
        (st >> 33) as u32
    };
    let mut pm = match Pixmap::new(w, h) {
        Some(v) => v,
        None => return vec![-3],
    };
    for p in pm.pixels_mut() {
        let a = match next() % 4 {
            0 => 255,
            1 => 0,
            _ => next() % 256,
        };
        *p = tiny_skia::PremultipliedColorU8::from_rgba((next() % (a + 1)) as u8, (next() % (a + 1)) as u8, (next() % (a + 1)) as u8, a as u8).unwrap();
    }
    let old: Vec<u8> = (0..w * h).map(|_| [0u8, 255, 255, 1, 254, 128][(next() % 6) as usize].wrapping_add((next() % 3 == 0) as u8 * (next() % 200) as u8)).collect();
    let (mut checked, mut bad) = (0i128, 0i128);
    let mut first = [0i128; 4];
    let mut judge = |i: usize, got: f64, exp: f64, tol: f64| {
        checked += 1;
        if (got - exp).abs() > tol {
            bad += 1;
            if first[3] == 0 && first[2] == 0 {
                first = [(i as u32 % w) as i128, (i as u32 / w) as i128, got as i128, (exp * 1000.0) as i128 + 1];
            }
        }
    };
    match op {
        0 | 1 => {
            let m = Mask::from_pixmap(pm.as_ref(), if op == 0 { MaskType::Alpha } else { MaskType::Luminance });
            for (i, p) in pm.pixels().iter().enumerate() {
                let a = p.alpha() as f64;
                let exp = if op == 0 {
                    a
                } else if a == 0.0 {
                    0.0
                } else {
                    // Y = 0.2126 R + 0.7152 G + 0.0722 B of the demultiplied colour, as coverage: times alpha
                    0.2126 * p.red() as f64 + 0.7152 * p.green() as f64 + 0.0722 * p.blue() as f64
                };
                judge(i, m.data()[i] as f64, exp, if op == 0 { 0.0 } else { 1.01 });
            }
        }
        2 => {
            let mut m = Mask::from_vec(old.clone(), IntSize::from_wh(w, h).unwrap()).unwrap();
            m.invert();
            for i in 0..old.len() {
                judge(i, m.data()[i] as f64, 255.0 - old[i] as f64, 0.0);
            }
        }
        3 => {
            let path = match crate::c02::build_path(&l[4..]) {
                Some(p) => p,
                None => return vec![-4],
            };
            let aa = l[3] & 1 != 0;
            // fill rule and transform from the seed; the reference coverage is the PRE-TRANSFORMED path filled with the
            // identity (Mask::fill_path with a transform must equal it)
            let rule = if (l[3] >> 1) & 1 != 0 { FillRule::EvenOdd } else { FillRule::Winding };
            let ts = match (l[3] >> 2) & 3 {
                0 => Transform::identity(),
                1 => Transform::from_translate(3.0, -2.0),
                2 => Transform::from_row(1.5, 0.0, 0.0, 0.75, 1.0, 2.0),
                _ => Transform::from_row(0.0, 1.0, -1.0, 0.0, h as f32, 0.0),
            };
            let moved = match path.clone().transform(ts) {
                Some(p) => p,
                None => return vec![-4],
            };
            let mut fresh = Mask::new(w, h).unwrap();
            fresh.fill_path(&moved, rule, aa, Transform::identity());
            let mut direct = Mask::new(w, h).unwrap();
            direct.fill_path(&path, rule, aa, ts);
            for i in 0..old.len() {
                judge(i, direct.data()[i] as f64, fresh.data()[i] as f64, 0.0);
            }
            let mut m = Mask::from_vec(old.clone(), IntSize::from_wh(w, h).unwrap()).unwrap();
            m.intersect_path(&path, rule, aa, ts);
            for i in 0..old.len() {
                judge(i, m.data()[i] as f64, old[i] as f64 * fresh.data()[i] as f64 / 255.0, 0.51);
            }
        }
        4 | 5 => {
            let (mw, mh) = if op == 4 { (w, h) } else { (w + 1, h) };
            let md: Vec<u8> = (0..mw * mh).map(|i| old[(i % (w * h)) as usize]).collect();
            let m = Mask::from_vec(md.clone(), IntSize::from_wh(mw, mh).unwrap()).unwrap();
            let before: Vec<u8> = pm.data().to_vec();
            pm.apply_mask(&m);
            for i in 0..(w * h) as usize {
                for j in 0..4 {
                    let exp = if op == 4 { before[4 * i + j] as f64 * md[i] as f64 / 255.0 } else { before[4 * i + j] as f64 };
                    let exact = op == 5 || md[i] == 255 || md[i] == 0;
                    judge(i, pm.data()[4 * i + j] as f64, exp, if exact { 0.0 } else { 1.01 });
                }
            }
        }
        6 => {
            // a draw call with a mask of another size is documented to do nothing, on tiled pixmaps too (w or h above 8191):
            // the mask is 9 columns / rows short; fill_path, fill_rect with a transform, a thick and a hairline stroke
            use tiny_skia::{PathBuilder, Rect, Stroke};
            let (mw, mh) = if l[3] & 1 == 0 { (w.saturating_sub(9).max(1), h) } else { (w, h.saturating_sub(9).max(1)) };
            let m = Mask::from_vec(vec![200u8; (mw * mh) as usize], IntSize::from_wh(mw, mh).unwrap()).unwrap();
            let before: Vec<u8> = pm.data().to_vec();
            let mut paint = Paint::default();
            paint.set_color_rgba8(250, 10, 90, 255);
            paint.anti_alias = l[3] & 2 != 0;
            let (fw, fh) = (w as f32, h as f32);
            let rects = [
                Rect::from_ltrb(fw - 200.0, 1.0, fw - 1.0, (fh - 1.0).max(2.0)),
                Rect::from_ltrb(1.0, fh - 200.0, (fw - 1.0).max(2.0), fh - 1.0),
                Rect::from_ltrb(0.0, 0.0, fw.min(30.0), fh.min(30.0)),
            ];
            for r in rects.iter().flatten() {
                let path = PathBuilder::from_rect(*r);
                pm.fill_path(&path, &paint, FillRule::Winding, Transform::identity(), Some(&m));
                pm.fill_rect(*r, &paint, Transform::from_translate(0.5, 0.0), Some(&m));
                pm.stroke_path(&path, &paint, &Stroke { width: 3.0, ..Stroke::default() }, Transform::identity(), Some(&m));
                pm.stroke_path(&path, &paint, &Stroke { width: 0.0, ..Stroke::default() }, Transform::identity(), Some(&m));
            }
            for i in 0..(w * h) as usize {
                let same = pm.data()[4 * i..4 * i + 4] == before[4 * i..4 * i + 4];
                judge(i, if same { 0.0 } else { 1.0 }, 0.0, 0.0);
            }
        }
        _ => return vec![-3],
    }
    vec![checked, bad, first[0], first[1], first[2], first[3]]
}


/// Partial coverage through the public API, in every colour space:
/// args: colorspace mode hq r g b a  dr dg db da  shape width_milli
///   shape 0: an anti-aliased stroke of a slanted line of the given width (0 = hairline, < 1000 = coverage-modulated
///            hairline) over a 16 x 16 pixmap filled with the destination colour
///   shape 1: an anti-aliased fill_rect with fractional left / right edges (the edge columns go through blit_v)
/// The "fully drawn" value is the same paint drawn aliased over one destination pixel.
/// -> [changed pixels, pixels with a channel outside [min(dst, full) - 2, max(dst, full) + 2], x, y, channel, got, dst, full]
pub fn run_thin_cov(l: &[i128]) -> Vec<i128> {
    if l.len() != 13 {
        return vec![-3];
    }
    use tiny_skia::{ColorSpace, PathBuilder, Rect, Stroke, Transform, PremultipliedColorU8};
    let cs = [ColorSpace::Linear, ColorSpace::Gamma2, ColorSpace::SimpleSRGB, ColorSpace::FullSRGBGamma][(l[0] as usize) % 4];
    let mode = MODES[(l[1] as usize) % 29];
    let dst = match PremultipliedColorU8::from_rgba(l[7] as u8, l[8] as u8, l[9] as u8, l[10] as u8) {
        Some(c) => c,
        None => return vec![-3],
    };
    let mut paint = Paint::default();
    paint.set_color_rgba8(l[3] as u8, l[4] as u8, l[5] as u8, l[6] as u8);
    paint.blend_mode = mode;
    paint.colorspace = cs;
    paint.force_hq_pipeline = l[2] != 0;
    // fully drawn
    let mut one = Pixmap::new(1, 1).unwrap();
    one.pixels_mut()[0] = dst;
    paint.anti_alias = false;
    one.fill_rect(Rect::from_xywh(0.0, 0.0, 1.0, 1.0).unwrap(), &paint, Transform::identity(), None);
    let full = one.pixels()[0];
    // partially drawn
    paint.anti_alias = true;
    let mut pm = Pixmap::new(16, 16).unwrap();
    for p in pm.pixels_mut() {
        *p = dst;
    }
    if l[11] == 0 {
        let mut pb = PathBuilder::new();
        // one segment: at a joint of a hairline polyline the shared pixel is blended once per segment
        pb.move_to(1.3, 2.1);
        pb.line_to(14.2, 9.7);
        let path = pb.finish().unwrap();
        let stroke = Stroke { width: l[12] as f32 / 1000.0, ..Stroke::default() };
        pm.stroke_path(&path, &paint, &stroke, Transform::identity(), None);
    } else {
        let fr = (l[12] as f32 / 1000.0).max(0.05).min(0.95);
        pm.fill_rect(Rect::from_ltrb(2.0 + fr, 1.0, 12.0 + fr, 14.0).unwrap(), &paint, Transform::identity(), None);
    }
    let d = [dst.red(), dst.green(), dst.blue(), dst.alpha()];
    let f_ = [full.red(), full.green(), full.blue(), full.alpha()];
    let (mut changed, mut bad) = (0i128, 0i128);
    let mut first = [-1i128; 6];
    for (i, p) in pm.pixels().iter().enumerate() {
        let v = [p.red(), p.green(), p.blue(), p.alpha()];
        if v != d {
            changed += 1;
        }
        for k in 0..4 {
            let (lo, hi) = (d[k].min(f_[k]) as i128 - 2, d[k].max(f_[k]) as i128 + 2);
            if (v[k] as i128) < lo || (v[k] as i128) > hi {
                bad += 1;
                if first[0] < 0 {
                    first = [(i % 16) as i128, (i / 16) as i128, k as i128, v[k] as i128, d[k] as i128, f_[k] as i128];
                }
                break;
            }
        }
    }
    vec![changed, bad, first[0], first[1], first[2], first[3], first[4], first[5]]
}


/// The same partially covered pixel reached through different blit primitives, in every colour space:
/// args: colorspace mode hq r g b a  dr dg db da  frac_milli width
/// A 48 x 5 pixmap filled with the destination colour; one anti-aliased fill_rect(3, 2 + frac, 3 + width, 3): row 2 is covered
/// by (1 - frac); with width 1 the row is a single column (blit_v), wider rows are runs (blit_anti_h).
/// -> the r g b a of pixel (3, 2)
pub fn run_cs_span(l: &[i128]) -> Vec<i128> {
    if l.len() < 13 {
        return vec![-3];
    }
    use tiny_skia::{ColorSpace, Rect, Transform, PremultipliedColorU8};
    let cs = [ColorSpace::Linear, ColorSpace::Gamma2, ColorSpace::SimpleSRGB, ColorSpace::FullSRGBGamma][(l[0] as usize) % 4];
    let dst = match PremultipliedColorU8::from_rgba(l[7] as u8, l[8] as u8, l[9] as u8, l[10] as u8) {
        Some(c) => c,
        None => return vec![-3],
    };
    let mut paint = Paint::default();
    paint.set_color_rgba8(l[3] as u8, l[4] as u8, l[5] as u8, l[6] as u8);
    paint.blend_mode = MODES[(l[1] as usize) % 29];
    paint.colorspace = cs;
    paint.force_hq_pipeline = l[2] != 0;
    paint.anti_alias = true;
    let mut pm = Pixmap::new(48, 5).unwrap();
    for p in pm.pixels_mut() {
        *p = dst;
    }
    let fr = (l[11] as f32 / 1000.0).max(0.0).min(0.95);
    let w = (l[12] as f32).max(1.0).min(44.0);
    pm.fill_rect(Rect::from_ltrb(3.0, 2.0 + fr, 3.0 + w, 3.0).unwrap(), &paint, Transform::identity(), None);
    let p = pm.pixel(3, 2).unwrap();
    vec![p.red() as i128, p.green() as i128, p.blue() as i128, p.alpha() as i128]
}
