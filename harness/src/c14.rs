use crate::{b, f};
use tiny_skia_path::{Path, PathBuilder, PathVerb, Point, Rect};

pub fn run_ops_pub(pb: &mut PathBuilder, l: &[i128]) {
    run_ops(pb, l)
}

fn run_ops(pb: &mut PathBuilder, mut l: &[i128]) {
    loop {
        match l {
            [0, x, y, r @ ..] => {
                pb.move_to(f(*x), f(*y));
                l = r;
            }
            [1, x, y, r @ ..] => {
                pb.line_to(f(*x), f(*y));
                l = r;
            }
            [2, x1, y1, x, y, r @ ..] => {
                pb.quad_to(f(*x1), f(*y1), f(*x), f(*y));
                l = r;
            }
            [3, x1, y1, x2, y2, x, y, r @ ..] => {
                pb.cubic_to(f(*x1), f(*y1), f(*x2), f(*y2), f(*x), f(*y));
                l = r;
            }
            [4, r @ ..] => {
                pb.close();
                l = r;
            }
            [5, a, t, c, d, r @ ..] => {
                if let Some(rc) = Rect::from_ltrb(f(*a), f(*t), f(*c), f(*d)) {
                    pb.push_rect(rc);
                }
                l = r;
            }
            [6, a, t, c, d, r @ ..] => {
                if let Some(rc) = Rect::from_ltrb(f(*a), f(*t), f(*c), f(*d)) {
                    pb.push_oval(rc);
                }
                l = r;
            }
            [7, x, y, rad, r @ ..] => {
                pb.push_circle(f(*x), f(*y), f(*rad));
                l = r;
            }
            [8, n, r @ ..] => {
                let n = (*n).max(0) as usize;
                let n = n.min(r.len());
                let (sub, rest) = r.split_at(n);
                let mut pb2 = PathBuilder::new();
                run_ops(&mut pb2, sub);
                if let Some(p) = pb2.finish() {
                    pb.push_path(&p);
                }
                l = rest;
            }
            [9, r @ ..] => {
                pb.clear();
                l = r;
            }
            [10, r @ ..] => {
                let taken = std::mem::replace(pb, PathBuilder::new());
                if let Some(p) = taken.finish() {
                    *pb = p.clear();
                }
                l = r;
            }
            _ => return,
        }
    }
}

pub fn enc_path(p: Option<&Path>) -> Vec<i128> {
    match p {
        None => vec![-1],
        Some(p) => {
            let mut out = vec![p.verbs().len() as i128];
            for v in p.verbs() {
                out.push(match v {
                    PathVerb::Move => 0,
                    PathVerb::Line => 1,
                    PathVerb::Quad => 2,
                    PathVerb::Cubic => 3,
                    PathVerb::Close => 4,
                });
            }
            out.push(p.points().len() as i128);
            for pt in p.points() {
                out.push(b(pt.x));
                out.push(b(pt.y));
            }
            let r = p.bounds();
            out.extend_from_slice(&[b(r.left()), b(r.top()), b(r.right()), b(r.bottom())]);
            out
        }
    }
}

pub fn run_builder(l: &[i128]) -> Vec<i128> {
    let mut pb = PathBuilder::new();
    run_ops(&mut pb, l);
    let p = pb.finish();
    enc_path(p.as_ref())
}

pub fn run_from_points(l: &[i128]) -> Vec<i128> {
    let pts: Vec<Point> = l.chunks_exact(2).map(|c| Point::from_xy(f(c[0]), f(c[1]))).collect();
    match Rect::from_points(&pts) {
        Some(r) => vec![b(r.left()), b(r.top()), b(r.right()), b(r.bottom())],
        None => vec![-1],
    }
}

pub fn run_transform(l: &[i128]) -> Vec<i128> {
    if l.len() < 6 {
        return vec![-3];
    }
    let ts = tiny_skia_path::Transform::from_row(f(l[0]), f(l[2]), f(l[1]), f(l[3]), f(l[4]), f(l[5]));
    let mut pb = PathBuilder::new();
    run_ops(&mut pb, &l[6..]);
    match pb.finish() {
        Some(p) => enc_path(p.transform(ts).as_ref()),
        None => vec![-2],
    }
}
