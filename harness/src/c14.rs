use crate::{b, f};
use tiny_skia_path::{Path, PathBuilder, PathVerb, Point, Rect};

pub fn run_ops_pub(pb: &mut PathBuilder, l: &[i128]) {
    run_ops(pb, l)
}

fn run_ops(pb: &mut PathBuilder, mut l: &[i128]) {
    loop {
        match l {
            [0, x, y, r @ ..] => {
                pb.move_to(f(*x), f(*y));
                l = r;
            }
            [1, x, y, r @ ..] => {
                pb.line_to(f(*x), f(*y));
                l = r;
            }
            [2, x1, y1, x, y, r @ ..] => {
                pb.quad_to(f(*x1), f(*y1), f(*x), f(*y));
                l = r;
            }
            [3, x1, y1, x2, y2, x, y, r @ ..] => {
                pb.cubic_to(f(*x1), f(*y1), f(*x2), f(*y2), f(*x), f(*y));
                l = r;
            }
            [4, r @ ..] => {
                pb.close();
                l = r;
            }
            [5, a, t, c, d, r @ ..] => {
                if let Some(rc) = Rect::from_ltrb(f(*a), f(*t), f(*c), f(*d)) {
                    pb.push_rect(rc);
                }
                l = r;
            }
            [6, a, t, c, d, r @ ..] => {
                if let Some(rc) = Rect::from_ltrb(f(*a), f(*t), f(*c), f(*d)) {
                    pb.push_oval(rc);
                }
                l = r;
            }
            [7, x, y, rad, r @ ..] => {
                pb.push_circle(f(*x), f(*y), f(*rad));
                l = r;
            }
            [8, n, r @ ..] => {
                let n = (*n).max(0) as usize;
                let n = n.min(r.len());
                let (sub, rest) = r.split_at(n);
                let mut pb2 = PathBuilder::new();
                run_ops(&mut pb2, sub);
                if let Some(p) = pb2.finish() {
                    pb.push_path(&p);
                }
                l = rest;
            }
            [9, r @ ..] => {
                pb.clear();
                l = r;
            }
            [10, r @ ..] => {
                let taken = std::mem::replace(pb, PathBuilder::new());
                if let Some(p) = taken.finish() {
                    *pb = p.clear();
                }
                l = r;
            }
            [11, r @ ..] => {
                *pb = PathBuilder::default();
                l = r;
            }
            _ => return,
        }
    }
}

pub fn enc_path(p: Option<&Path>) -> Vec<i128> {
    match p {
        None => vec![-1],
        Some(p) => {
            let mut out = vec![p.verbs().len() as i128];
            for v in p.verbs() {
                out.push(match v {
                    PathVerb::Move => 0,
                    PathVerb::Line => 1,
                    PathVerb::Quad => 2,
                    PathVerb::Cubic => 3,
                    PathVerb::Close => 4,
                });
            }
            out.push(p.points().len() as i128);
            for pt in p.points() {
                out.push(b(pt.x));
                out.push(b(pt.y));
            }
            let r = p.bounds();
            out.extend_from_slice(&[b(r.left()), b(r.top()), b(r.right()), b(r.bottom())]);
            out
        }
    }
}

pub fn run_builder(l: &[i128]) -> Vec<i128> {
    let mut pb = PathBuilder::new();
    run_ops(&mut pb, l);
    let p = pb.finish();
    enc_path(p.as_ref())
}

pub fn run_from_points(l: &[i128]) -> Vec<i128> {
    let pts: Vec<Point> = l.chunks_exact(2).map(|c| Point::from_xy(f(c[0]), f(c[1]))).collect();
    match Rect::from_points(&pts) {
        Some(r) => vec![b(r.left()), b(r.top()), b(r.right()), b(r.bottom())],
        None => vec![-1],
    }
}

pub fn run_transform(l: &[i128]) -> Vec<i128> {
    if l.len() < 6 {
        return vec![-3];
    }
    let ts = tiny_skia_path::Transform::from_row(f(l[0]), f(l[2]), f(l[1]), f(l[3]), f(l[4]), f(l[5]));
    let mut pb = PathBuilder::new();
    run_ops(&mut pb, &l[6..]);
    match pb.finish() {
        Some(p) => enc_path(p.transform(ts).as_ref()),
        None => vec![-2],
    }
}

/// Structural guarantees and tight bounds of a path obtained through the public API.
/// args: op (0 the built path, 1 its stroke (width 3, round join / cap), 2 its dash [3, 2]) then builder ops (c02 format)
/// -> [status (0 checked, 1 no path), structural defect code (0 none), tight-bounds defect (0 none, 1 outside bounds(), 2 off the true extent),
///     got * 1000, expected * 1000]
pub fn run_tight_bounds(l: &[i128]) -> Vec<i128> {
    use tiny_skia_path::{PathSegment, PathVerb, Stroke, StrokeDash, LineCap, LineJoin};
    if l.is_empty() {
        return vec![-3];
    }
    // kinds 3 / 4: the constructors that do not go through the builder ops: PathBuilder::from_rect (writes its bounds directly)
    // and PathBuilder::from_oval, args l t r b (bit patterns)
    if (l[0] == 3 || l[0] == 4) && l.len() != 5 {
        return vec![-3];
    }
    let path = if l[0] == 3 || l[0] == 4 {
        let rect = match tiny_skia_path::Rect::from_ltrb(crate::f(l[1]), crate::f(l[2]), crate::f(l[3]), crate::f(l[4])) {
            Some(r) => r,
            None => return vec![1, 0, 0, 0, 0],
        };
        if l[0] == 3 {
            tiny_skia_path::PathBuilder::from_rect(rect)
        } else {
            match tiny_skia_path::PathBuilder::from_oval(rect) {
                Some(p) => p,
                None => return vec![1, 0, 0, 0, 0],
            }
        }
    } else {
        match crate::c02::build_path(&l[1..]) {
            Some(p) => p,
            None => return vec![1, 0, 0, 0, 0],
        }
    };
    let path = match l[0] {
        0 | 3 | 4 => path,
        1 => {
            let st = Stroke { width: 3.0, miter_limit: 4.0, line_cap: LineCap::Round, line_join: LineJoin::Round, dash: None };
            match path.stroke(&st, 1.0) {
                Some(p) => p,
                None => return vec![1, 0, 0, 0, 0],
            }
        }
        _ => match StrokeDash::new(vec![3.0, 2.0], 0.5).and_then(|d| path.dash(&d, 1.0)) {
            Some(p) => p,
            None => return vec![1, 0, 0, 0, 0],
        },
    };
    // structure
    let verbs = path.verbs();
    let pts = path.points();
    let mut code = 0i128;
    if verbs.len() < 2 {
        code = 1;
    } else if verbs[0] != PathVerb::Move {
        code = 2;
    }
    for w in verbs.windows(2) {
        if w[0] == PathVerb::Move && w[1] == PathVerb::Move {
            code = 3;
        }
        if w[0] == PathVerb::Close && w[1] == PathVerb::Close {
            code = 4;
        }
        if w[0] == PathVerb::Close && w[1] != PathVerb::Move {
            code = 5;
        }
    }
    let need: usize = verbs.iter().map(|v| match v { PathVerb::Move | PathVerb::Line => 1, PathVerb::Quad => 2, PathVerb::Cubic => 3, PathVerb::Close => 0 }).sum();
    if need != pts.len() {
        code = 6;
    }
    if pts.iter().any(|p| !p.x.is_finite() || !p.y.is_finite()) {
        code = 7;
    }
    let b = path.bounds();
    let (mut l_, mut t_, mut r_, mut b_) = (f32::MAX, f32::MAX, f32::MIN, f32::MIN);
    for p in pts {
        l_ = l_.min(p.x);
        t_ = t_.min(p.y);
        r_ = r_.max(p.x);
        b_ = b_.max(p.y);
    }
    if (b.left(), b.top(), b.right(), b.bottom()) != (l_, t_, r_, b_) {
        code = 8;
    }
    let replay: Vec<PathVerb> = path.segments().map(|s| match s {
        PathSegment::MoveTo(_) => PathVerb::Move,
        PathSegment::LineTo(_) => PathVerb::Line,
        PathSegment::QuadTo(..) => PathVerb::Quad,
        PathSegment::CubicTo(..) => PathVerb::Cubic,
        PathSegment::Close => PathVerb::Close,
    }).collect();
    if replay != verbs {
        code = 9;
    }
    // true extent (f64, analytic extrema)
    let (mut el, mut et, mut er, mut eb) = (f64::MAX, f64::MAX, f64::MIN, f64::MIN);
    let mut add = |x: f64, y: f64| {
        el = el.min(x);
        et = et.min(y);
        er = er.max(x);
        eb = eb.max(y);
    };
    let mut last = (0.0f64, 0.0f64);
    let mut start = last;
    for s in path.segments() {
        match s {
            PathSegment::MoveTo(p) => {
                last = (p.x as f64, p.y as f64);
                start = last;
                add(last.0, last.1);
            }
            PathSegment::LineTo(p) => {
                last = (p.x as f64, p.y as f64);
                add(last.0, last.1);
            }
            PathSegment::QuadTo(a, p) => {
                let (p0, p1, p2) = (last, (a.x as f64, a.y as f64), (p.x as f64, p.y as f64));
                let ev = |t: f64| {
                    let u = 1.0 - t;
                    (u * u * p0.0 + 2.0 * u * t * p1.0 + t * t * p2.0, u * u * p0.1 + 2.0 * u * t * p1.1 + t * t * p2.1)
                };
                for (c0, c1, c2) in [(p0.0, p1.0, p2.0), (p0.1, p1.1, p2.1)] {
                    let d = c0 - 2.0 * c1 + c2;
                    if d != 0.0 {
                        let t = (c0 - c1) / d;
                        if t > 0.0 && t < 1.0 {
                            let q = ev(t);
                            add(q.0, q.1);
                        }
                    }
                }
                last = p2;
                add(last.0, last.1);
            }
            PathSegment::CubicTo(a, c, p) => {
                let (p0, p1, p2, p3) = (last, (a.x as f64, a.y as f64), (c.x as f64, c.y as f64), (p.x as f64, p.y as f64));
                let ev = |t: f64| {
                    let u = 1.0 - t;
                    let f = |a0: f64, a1: f64, a2: f64, a3: f64| u * u * u * a0 + 3.0 * u * u * t * a1 + 3.0 * u * t * t * a2 + t * t * t * a3;
                    (f(p0.0, p1.0, p2.0, p3.0), f(p0.1, p1.1, p2.1, p3.1))
                };
                for (c0, c1, c2, c3) in [(p0.0, p1.0, p2.0, p3.0), (p0.1, p1.1, p2.1, p3.1)] {
                    // derivative / 3 = A t^2 + B t + C
                    let (qa, qb, qc) = (-c0 + 3.0 * c1 - 3.0 * c2 + c3, 2.0 * (c0 - 2.0 * c1 + c2), c1 - c0);
                    let mut roots = Vec::new();
                    if qa.abs() < 1e-12 * (qb.abs() + qc.abs() + 1e-300) {
                        if qb != 0.0 {
                            roots.push(-qc / qb);
                        }
                    } else {
                        let disc = qb * qb - 4.0 * qa * qc;
                        if disc >= 0.0 {
                            let sq = disc.sqrt();
                            roots.push((-qb + sq) / (2.0 * qa));
                            roots.push((-qb - sq) / (2.0 * qa));
                        }
                    }
                    for t in roots {
                        if t > 0.0 && t < 1.0 {
                            let q = ev(t);
                            add(q.0, q.1);
                        }
                    }
                }
                last = p3;
                add(last.0, last.1);
            }
            PathSegment::Close => {
                last = start;
            }
        }
    }
    let tb = match path.compute_tight_bounds() {
        Some(v) => v,
        None => return vec![0, code, 3, 0, 0],
    };
    let scale = el.abs().max(et.abs()).max(er.abs()).max(eb.abs()).max(1.0);
    let tol = 2e-5 * scale;
    let mut tcode = 0i128;
    let (mut got, mut exp) = (0.0f64, 0.0f64);
    // "within bounds() ... up to float rounding": a path without curves needs no arithmetic at all (its tight bounds ARE its
    // bounds, exactly); an extremum of a curve is evaluated in binary32 and may leave bounds() by the rounding of that evaluation
    let has_curve = verbs.iter().any(|v| matches!(v, PathVerb::Quad | PathVerb::Cubic));
    if !has_curve {
        if (tb.left(), tb.top(), tb.right(), tb.bottom()) != (b.left(), b.top(), b.right(), b.bottom()) {
            tcode = 1;
        }
    } else {
        let t32 = tol as f32;
        if tb.left() < b.left() - t32 || tb.top() < b.top() - t32 || tb.right() > b.right() + t32 || tb.bottom() > b.bottom() + t32 {
            tcode = 1;
        }
    }
    for (g, e) in [(tb.left() as f64, el), (tb.top() as f64, et), (tb.right() as f64, er), (tb.bottom() as f64, eb)] {
        if (g - e).abs() > tol && tcode == 0 {
            tcode = 2;
            got = g;
            exp = e;
        }
    }
    vec![0, code, tcode, (got * 1000.0) as i128, (exp * 1000.0) as i128]
}
