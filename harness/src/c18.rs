use crate::{b, f};
use tiny_skia::{FillRule, Mask, Paint, PathBuilder, Pixmap, Point, Transform};

fn ts(l: &[i128]) -> Transform {
    // model order: sx kx ky sy tx ty ; from_row(sx, ky, kx, sy, tx, ty)
    Transform::from_row(f(l[0]), f(l[2]), f(l[1]), f(l[3]), f(l[4]), f(l[5]))
}
fn enc(t: Transform) -> Vec<i128> {
    vec![b(t.sx), b(t.kx), b(t.ky), b(t.sy), b(t.tx), b(t.ty)]
}

pub fn run(l: &[i128]) -> Vec<i128> {
    match l.first() {
        Some(1) if l.len() == 7 => match ts(&l[1..]).invert() {
            Some(t) => enc(t),
            None => vec![-1],
        },
        Some(2) if l.len() == 13 => enc(ts(&l[1..7]).pre_concat(ts(&l[7..13]))),
        Some(3) if l.len() == 9 => {
            let mut p = Point::from_xy(f(l[7]), f(l[8]));
            ts(&l[1..7]).map_point(&mut p);
            // map_points must agree with map_point
            let mut ps = [Point::from_xy(f(l[7]), f(l[8])), Point::from_xy(0.0, 0.0)];
            ts(&l[1..7]).map_points(&mut ps);
            if b(ps[0].x) != b(p.x) || b(ps[0].y) != b(p.y) {
                return vec![-7];
            }
            vec![b(p.x), b(p.y)]
        }
        Some(4) if l.len() == 7 => {
            let t = ts(&l[1..]);
            vec![t.is_identity() as i128, t.is_translate() as i128, t.is_scale_translate() as i128, t.has_skew() as i128, t.is_finite() as i128]
        }
        Some(6) if l.len() >= 8 => {
            // metamorphic: drawing with a transform == drawing the pre-transformed geometry (fill_path, Mask::fill_path)
            let t = ts(&l[1..7]);
            let aa = l[7] != 0;
            let pts: Vec<f32> = l[8..].iter().map(|x| f(*x)).collect();
            if pts.len() < 6 {
                return vec![-3];
            }
            let mut pb = PathBuilder::new();
            pb.move_to(pts[0], pts[1]);
            for c in pts[2..].chunks_exact(2) {
                pb.line_to(c[0], c[1]);
            }
            pb.close();
            let path = match pb.finish() {
                Some(p) => p,
                None => return vec![-2],
            };
            let mut paint = Paint::default();
            paint.set_color_rgba8(200, 50, 100, 180);
            paint.anti_alias = aa;
            let mut a = Pixmap::new(40, 40).unwrap();
            let mut bb = Pixmap::new(40, 40).unwrap();
            a.fill_path(&path, &paint, FillRule::Winding, t, None);
            let mut diff = 0i128;
            // the reference path is rebuilt from the mapped points (Transform::map_points + PathBuilder), not taken from
            // Path::transform, which the draw call itself uses
            let rebuilt = {
                let mut q: Vec<Point> = pts.chunks_exact(2).map(|c| Point::from_xy(c[0], c[1])).collect();
                t.map_points(&mut q);
                let mut pb2 = PathBuilder::new();
                pb2.move_to(q[0].x, q[0].y);
                for p in &q[1..] {
                    pb2.line_to(p.x, p.y);
                }
                pb2.close();
                pb2.finish()
            };
            match rebuilt {
                Some(p2) => {
                    bb.fill_path(&p2, &paint, FillRule::Winding, Transform::identity(), None);
                    diff += a.data().iter().zip(bb.data()).filter(|(x, y)| x != y).count() as i128;
                    let mut m1 = Mask::new(40, 40).unwrap();
                    let mut m2 = Mask::new(40, 40).unwrap();
                    m1.fill_path(&path, FillRule::Winding, aa, t);
                    m2.fill_path(&p2, FillRule::Winding, aa, Transform::identity());
                    diff += m1.data().iter().zip(m2.data()).filter(|(x, y)| x != y).count() as i128;
                }
                None => {
                    diff += a.data().iter().filter(|x| **x != 0).count() as i128;
                }
            }
            vec![diff]
        }
        Some(7) if l.len() >= 9 => {
            // stroke_path(path, stroke, ts) == fill_path(path.stroke(stroke, res_scale(ts)), ts)
            use tiny_skia::{PathStroker, Stroke};
            let t = ts(&l[1..7]);
            let width = f(l[7]);
            let aa = l[8] != 0;
            let pts: Vec<f32> = l[9..].iter().map(|x| f(*x)).collect();
            if pts.len() < 8 {
                return vec![-3];
            }
            let mut pb = PathBuilder::new();
            pb.move_to(pts[0], pts[1]);
            for c in pts[2..].chunks_exact(6) {
                pb.cubic_to(c[0], c[1], c[2], c[3], c[4], c[5]);
            }
            let path = match pb.finish() {
                Some(p) => p,
                None => return vec![-2],
            };
            let mut paint = Paint::default();
            paint.set_color_rgba8(20, 150, 100, 255);
            paint.anti_alias = aa;
            let stroke = Stroke { width, ..Stroke::default() };
            let mut a = Pixmap::new(64, 64).unwrap();
            let mut bb = Pixmap::new(64, 64).unwrap();
            a.stroke_path(&path, &paint, &stroke, t, None);
            // the resolution scale by its definition (the longer of the two rows (sx, kx) and (ky, sy) of the matrix), NOT taken
            // from the function under test
            let row = |a: f32, b2: f32| (a * a + b2 * b2).sqrt();
            let (r1, r2) = (row(t.sx, t.kx), row(t.ky, t.sy));
            let rs = if r1.is_finite() && r2.is_finite() && r1.max(r2) > 0.0 { r1.max(r2) } else { 1.0 };
            let _ = PathStroker::compute_resolution_scale(&t);
            if let Some(sp) = path.stroke(&stroke, rs) {
                bb.fill_path(&sp, &paint, FillRule::Winding, t, None);
            }
            vec![a.data().iter().zip(bb.data()).filter(|(x, y)| x != y).count() as i128]
        }
        Some(10) if l.len() >= 17 => {
            // a DASHED stroke: stroke_path(path, stroke, ts) == fill_path(path.dash(d, rs).stroke(stroke, rs), ts) with the resolution
            // scale rs taken from its definition (the dasher measures curves with a tolerance that depends on it)
            use tiny_skia::{Stroke, StrokeDash};
            let t = ts(&l[1..7]);
            let width = f(l[7]);
            let aa = l[8] != 0;
            let (d0, d1) = (f(l[9]), f(l[10]));
            let pts: Vec<f32> = l[11..].iter().map(|x| f(*x)).collect();
            if pts.len() < 8 {
                return vec![-3];
            }
            let mut pb = PathBuilder::new();
            pb.move_to(pts[0], pts[1]);
            for c in pts[2..].chunks_exact(6) {
                pb.cubic_to(c[0], c[1], c[2], c[3], c[4], c[5]);
            }
            let path = match pb.finish() {
                Some(p) => p,
                None => return vec![-2],
            };
            let dash = match StrokeDash::new(vec![d0, d1], 0.0) {
                Some(d) => d,
                None => return vec![-2],
            };
            let mut paint = Paint::default();
            paint.set_color_rgba8(20, 150, 100, 255);
            paint.anti_alias = aa;
            let stroke = Stroke { width, dash: Some(dash.clone()), ..Stroke::default() };
            let mut a = Pixmap::new(96, 96).unwrap();
            let mut bb = Pixmap::new(96, 96).unwrap();
            a.stroke_path(&path, &paint, &stroke, t, None);
            let row = |x: f32, y: f32| (x * x + y * y).sqrt();
            let (r1, r2) = (row(t.sx, t.kx), row(t.ky, t.sy));
            let rs = if r1.is_finite() && r2.is_finite() && r1.max(r2) > 0.0 { r1.max(r2) } else { 1.0 };
            let plain = Stroke { width, ..Stroke::default() };
            if let Some(sp) = path.dash(&dash, rs).and_then(|dp| dp.stroke(&plain, rs)) {
                bb.fill_path(&sp, &paint, FillRule::Winding, t, None);
            }
            vec![a.data().iter().zip(bb.data()).filter(|(x, y)| x != y).count() as i128, a.data().iter().filter(|x| **x != 0).count() as i128]
        }
        Some(8) if l.len() == 13 => {
            // fill_rect(rect, paint, ts) == fill_path(rect as a path, paint, ts) for a paint whose shader must follow the transform
            // (aliased, whole-pixel rectangle: both rasterise the same pixels)
            use tiny_skia::{GradientStop, LinearGradient, Pattern, Point, Rect, SpreadMode, Color, FilterQuality};
            let t = ts(&l[1..7]);
            let shader_kind = l[7];
            let (x, y, w, h) = (l[8] as f32, l[9] as f32, l[10] as f32, l[11] as f32);
            let draw_pixmap = l[12] != 0;
            let rect = match Rect::from_xywh(x, y, w, h) {
                Some(r) => r,
                None => return vec![-2],
            };
            let mut src = Pixmap::new(6, 5).unwrap();
            for (i, p) in src.pixels_mut().iter_mut().enumerate() {
                *p = tiny_skia::PremultipliedColorU8::from_rgba((i * 8) as u8, 255 - (i * 7) as u8, (i * 3) as u8, 255).unwrap();
            }
            let mut paint = Paint::default();
            paint.anti_alias = false;
            paint.shader = if shader_kind == 0 {
                LinearGradient::new(Point::from_xy(0.0, 0.0), Point::from_xy(24.0, 10.0),
                    vec![GradientStop::new(0.0, Color::from_rgba8(255, 0, 0, 255)), GradientStop::new(1.0, Color::from_rgba8(0, 0, 255, 255))],
                    SpreadMode::Reflect, Transform::identity()).unwrap()
            } else {
                Pattern::new(src.as_ref(), SpreadMode::Repeat, FilterQuality::Nearest, 1.0, Transform::from_translate(1.0, 2.0))
            };
            let mut a = Pixmap::new(48, 40).unwrap();
            let mut bb = Pixmap::new(48, 40).unwrap();
            if draw_pixmap {
                // draw_pixmap(x, y, ts) == draw_pixmap(0, 0, ts . translate(x, y))
                let pp = tiny_skia::PixmapPaint::default();
                a.draw_pixmap(x as i32, y as i32, src.as_ref(), &pp, t, None);
                bb.draw_pixmap(0, 0, src.as_ref(), &pp, t.pre_translate(x, y), None);
            } else {
                a.fill_rect(rect, &paint, t, None);
                bb.fill_path(&PathBuilder::from_rect(rect), &paint, FillRule::Winding, t, None);
            }
            vec![a.data().iter().zip(bb.data()).filter(|(x, y)| x != y).count() as i128, a.data().iter().filter(|x| **x != 0).count() as i128]
        }
        Some(9) if l.len() >= 15 => {
            // stroke_path(path, paint, stroke(w), ts) == stroke_path(ts(path), paint with the shader moved by ts, stroke(w * s), identity)
            // for a similarity transform ts with scale s whose entries are small integers (mirrors, quarter turns, point
            // reflection, x2): every coordinate is exact, so both draws see the same device geometry -- hairlines, thin
            // anti-aliased strokes (coverage-modulated hairlines) and thick strokes alike
            use tiny_skia::{GradientStop, LinearGradient, Pattern, Point, SpreadMode, Color, FilterQuality, Stroke, LineCap};
            let t = ts(&l[1..7]);
            let width = f(l[7]);
            let aa = l[8] != 0;
            let shader_kind = l[9];
            let scale = f(l[10]);
            let pts: Vec<f32> = l[11..].iter().map(|x| f(*x)).collect();
            if pts.len() < 4 {
                return vec![-3];
            }
            let mut pb = PathBuilder::new();
            pb.move_to(pts[0], pts[1]);
            for c in pts[2..].chunks_exact(2) {
                pb.line_to(c[0], c[1]);
            }
            let path = match pb.finish() {
                Some(p) => p,
                None => return vec![-2],
            };
            let mut src = Pixmap::new(6, 5).unwrap();
            for (i, p) in src.pixels_mut().iter_mut().enumerate() {
                *p = tiny_skia::PremultipliedColorU8::from_rgba((i * 8) as u8, 255 - (i * 7) as u8, (i * 3) as u8, 255).unwrap();
            }
            // `extra`: the draw transform folded into the shader's own transform by hand (own . post_concat(extra)), which is
            // what "the shader follows the geometry" means; Shader::transform itself is not used for the reference
            let mk = |extra: Transform| -> Paint {
                let mut paint = Paint::default();
                paint.anti_alias = aa;
                match shader_kind % 4 {
                    0 => paint.set_color_rgba8(20, 150, 100, 255),
                    1 => {
                        paint.shader = LinearGradient::new(Point::from_xy(0.0, 0.0), Point::from_xy(12.0, 5.0),
                            vec![GradientStop::new(0.0, Color::from_rgba8(255, 0, 0, 255)), GradientStop::new(1.0, Color::from_rgba8(0, 0, 255, 255))],
                            SpreadMode::Reflect, Transform::identity().post_concat(extra)).unwrap()
                    }
                    2 => paint.shader = Pattern::new(src.as_ref(), SpreadMode::Repeat, FilterQuality::Nearest, 1.0, Transform::from_translate(1.0, 2.0).post_concat(extra)),
                    _ => {
                        // an elliptical radial gradient: its own transform does not commute with the draw transform
                        paint.shader = tiny_skia::RadialGradient::new(Point::from_xy(6.0, 5.0), Point::from_xy(6.0, 5.0), 9.0,
                            vec![GradientStop::new(0.0, Color::from_rgba8(255, 255, 0, 255)), GradientStop::new(1.0, Color::from_rgba8(0, 0, 255, 255))],
                            SpreadMode::Repeat, Transform::from_row(1.0, 0.0, 0.25, 0.5, 2.0, 1.0).post_concat(extra)).unwrap()
                    }
                }
                paint
            };
            let cap = [LineCap::Butt, LineCap::Round, LineCap::Square][(l[9] as usize / 4) % 3];
            let mut a = Pixmap::new(64, 64).unwrap();
            let mut bb = Pixmap::new(64, 64).unwrap();
            a.stroke_path(&path, &mk(Transform::identity()), &Stroke { width, line_cap: cap, ..Stroke::default() }, t, None);
            let p2 = match path.clone().transform(t) {
                Some(p) => p,
                None => return vec![-2],
            };
            let paint2 = mk(t);
            bb.stroke_path(&p2, &paint2, &Stroke { width: width * scale, line_cap: cap, ..Stroke::default() }, Transform::identity(), None);
            // hairlines (width 0, or anti-aliased and at most one device pixel wide) walk the same device segments in both
            // draws; wider strokes are outlined in different spaces (before / after the mirror or turn), so join and cap
            // pixels may differ by a few coverage levels
            let tol = if width == 0.0 || (aa && width * scale <= 1.0) { 2 } else if aa { 64 } else { 255 }; // aliased outlines through pixel centres: ties
            let mut worst = 0i128;
            let mut bad = 0i128;
            for (x, y) in a.data().iter().zip(bb.data()) {
                let d = (*x as i128 - *y as i128).abs();
                if d > tol {
                    bad += 1;
                }
                worst = worst.max(d);
            }
            vec![bad, a.data().iter().filter(|x| **x != 0).count() as i128, worst]
        }
        _ => vec![-3],
    }
}
