use crate::f;
use crate::oracle;
use tiny_skia::verif_hooks::{hairline_spans, BlitOp};
use tiny_skia::{LineCap, Paint, Pixmap, Stroke, Transform};

/// args: w h <builder ops> : the 1-pixel blits of the aliased butt-cap hairline stroker
pub fn run_hair_spans(l: &[i128]) -> Vec<i128> {
    if l.len() < 2 {
        return vec![-3];
    }
    let (w, h) = (l[0] as u32, l[1] as u32);
    let path = match crate::c02::build_path(&l[2..]) {
        Some(p) => p,
        None => return vec![-8],
    };
    let ops = hairline_spans(&path, LineCap::Butt, false, w, h);
    let mut out = Vec::new();
    for op in ops {
        match op {
            BlitOp::H { x, y, width } if width == 1 => out.extend_from_slice(&[x as i128, y as i128]),
            _ => out.push(-77),
        }
    }
    out
}

/// args: w h <builder ops> : the per-pixel contributions (x, y, alpha > 0) of the anti-aliased butt-cap hairline, in order
pub fn run_hair_aa(l: &[i128]) -> Vec<i128> {
    if l.len() < 2 {
        return vec![-3];
    }
    let (w, h) = (l[0] as u32, l[1] as u32);
    let path = match crate::c02::build_path(&l[2..]) {
        Some(p) => p,
        None => return vec![-8],
    };
    let ops = hairline_spans(&path, LineCap::Butt, true, w, h);
    let mut out = Vec::new();
    let mut px = |x: u32, y: u32, a: u8| {
        if a != 0 {
            out.extend_from_slice(&[x as i128, y as i128, a as i128]);
        }
    };
    let mut other = false;
    for op in ops {
        match op {
            BlitOp::AntiH { x, y, aa, runs } => {
                let mut i = 0usize;
                while i < runs.len() && runs[i] != 0 {
                    for k in 0..runs[i] as usize {
                        px(x + (i + k) as u32, y, aa[i]);
                    }
                    i += runs[i] as usize;
                }
            }
            BlitOp::V { x, y, height, alpha } => {
                for k in 0..height {
                    px(x, y + k, alpha);
                }
            }
            BlitOp::AntiH2 { x, y, alpha0, alpha1 } => {
                px(x, y, alpha0);
                px(x + 1, y, alpha1);
            }
            BlitOp::AntiV2 { x, y, alpha0, alpha1 } => {
                px(x, y, alpha0);
                px(x, y + 1, alpha1);
            }
            _ => other = true,
        }
    }
    if other {
        out.push(-77);
    }
    out
}

fn cap_of(c: i128) -> LineCap {
    match c {
        1 => LineCap::Round,
        2 => LineCap::Square,
        _ => LineCap::Butt,
    }
}

/// args: cap aa width_milli w h far(0/1) ts(6) <builder ops>
/// Strokes the path as a hairline (width 0, or a sub-pixel width with aa) on a transparent pixmap and
/// judges the touched pixels with the independent oracle:
///   [touched, far_pixels, gaps, x, y, kind, clip_dependence]
///   far: touched pixel farther than `reach` from the path;  gaps: path point inside the pixmap without a
///   touched pixel within `reach`;  clip_dependence: pixels that differ from the same path drawn on a pixmap
///   3x as large and cropped (0 when far = 0: only computed if far != 0 argument)
/// coverage difference between the clipped and the unclipped drawing that counts as a dependence
const COVERAGE_DEP: i32 = 96;

/// The known fold finding: a mostly-horizontal segment that is above y = 0.5 somewhere over the pixmap's columns (or a
/// mostly-vertical one left of x = 0.5 somewhere over its rows) has its running coordinate clamped to 0 by the anti-hairline
/// blitters, which displaces the remainder of that segment.  tiny-skia's own segments (curve chords) are not known here, so
/// the test is conservative: true when a piece of the outline within 2.5 px of (px, py) belongs to a run of consecutive
/// mostly-horizontal (mostly-vertical) pieces that reaches y < 1 (x < 1) over the pixmap.
fn near_fold_segment(cs: &[Vec<oracle::P>], px: f64, py: f64, w: f64, h: f64) -> bool {
    let slack = 1.0 / 16.0;
    // smallest v-coordinate of the part of the segment whose u-coordinate lies in [-1.5, n + 1.5]
    let low = |u0: f64, v0: f64, u1: f64, v1: f64, n: f64| -> f64 {
        let (lo, hi) = (-1.5, n + 1.5);
        if (u0 < lo && u1 < lo) || (u0 > hi && u1 > hi) {
            return f64::INFINITY;
        }
        let at = |u: f64| if u1 == u0 { v0.min(v1) } else { v0 + (u - u0) / (u1 - u0) * (v1 - v0) };
        let (ua, ub) = (u0.max(lo).min(hi), u1.max(lo).min(hi));
        at(ua).min(at(ub))
    };
    for c in cs {
        let n = c.len() - 1;
        let seg = |k: usize| (c[k].fx, c[k].fy, c[k + 1].fx, c[k + 1].fy);
        let horish = |k: usize| { let (ax, ay, bx, by) = seg(k); (bx - ax).abs() + slack >= (by - ay).abs() };
        let vertish = |k: usize| { let (ax, ay, bx, by) = seg(k); (by - ay).abs() + slack >= (bx - ax).abs() };
        let folds_h = |k: usize| { let (ax, ay, bx, by) = seg(k); low(ax, ay, bx, by, w) < 1.0 };
        let folds_v = |k: usize| { let (ax, ay, bx, by) = seg(k); low(ay, ax, by, bx, h) < 1.0 };
        for k in 0..n {
            let (ax, ay, bx, by) = seg(k);
            let (dx, dy) = (bx - ax, by - ay);
            let l2 = dx * dx + dy * dy;
            let t = if l2 == 0.0 { 0.0 } else { (((px - ax) * dx + (py - ay) * dy) / l2).max(0.0).min(1.0) };
            let (qx, qy) = (ax + t * dx, ay + t * dy);
            if ((px - qx).powi(2) + (py - qy).powi(2)).sqrt() > 2.5 {
                continue;
            }
            for pass in 0..2 {
                let (is, folds): (&dyn Fn(usize) -> bool, &dyn Fn(usize) -> bool) =
                    if pass == 0 { (&horish, &folds_h) } else { (&vertish, &folds_v) };
                if !is(k) {
                    continue;
                }
                let mut j = k;
                loop {
                    if folds(j) { return true; }
                    if j == 0 || !is(j - 1) { break; }
                    j -= 1;
                }
                let mut j = k;
                while j + 1 < n && is(j + 1) {
                    j += 1;
                    if folds(j) { return true; }
                }
            }
        }
    }
    false
}

fn near_diagonal_piece(cs: &[Vec<oracle::P>], px: f64, py: f64) -> bool {
    for c in cs {
        for k in 0..c.len() - 1 {
            let (ax, ay, bx, by) = (c[k].fx, c[k].fy, c[k + 1].fx, c[k + 1].fy);
            let (dx, dy) = (bx - ax, by - ay);
            let l2 = dx * dx + dy * dy;
            let t = if l2 == 0.0 { 0.0 } else { (((px - ax) * dx + (py - ay) * dy) / l2).max(0.0).min(1.0) };
            let (qx, qy) = (ax + t * dx, ay + t * dy);
            if ((px - qx).powi(2) + (py - qy).powi(2)).sqrt() <= 4.0 && (dx.abs() - dy.abs()).abs() <= 0.12 * dx.abs().max(dy.abs()) {
                return true;
            }
        }
    }
    false
}

pub fn run_hair_px(l: &[i128]) -> Vec<i128> {
    if l.len() < 12 {
        return vec![-3];
    }
    let cap = cap_of(l[0]);
    let aa = l[1] != 0;
    let width = l[2] as f32 / 1000.0;
    let (w, h) = (l[3] as u32, l[4] as u32);
    let check_crop = l[5] != 0;
    let t = Transform::from_row(f(l[6]), f(l[8]), f(l[7]), f(l[9]), f(l[10]), f(l[11]));
    let path = match crate::c02::build_path(&l[12..]) {
        Some(p) => p,
        None => return vec![-8],
    };
    let mut paint = Paint::default();
    paint.set_color_rgba8(255, 255, 255, 255);
    paint.anti_alias = aa;
    let stroke = Stroke { width, line_cap: cap, ..Stroke::default() };
    let mut pm = Pixmap::new(w, h).unwrap();
    pm.stroke_path(&path, &paint, &stroke, t, None);
    let tp = match path.clone().transform(t) {
        Some(p) => p,
        None => return vec![-2],
    };
    let cs = oracle::contours(&tp, false);
    // reach: about one pixel, plus the half-pixel cap extension, plus 1 for aa bleed / sub-pixel width
    let cap_ext = if cap == LineCap::Butt { 0.0 } else { 0.5 };
    let reach = 1.45 + cap_ext + if aa { 0.6 } else { 0.0 };
    let (mut touched, mut far) = (0i128, 0i128);
    // aa only: pixels in the first rows / columns, where the anti-hairline blitters fold the part of the line
    // above / left of the pixmap back onto row / column 0 (known finding)
    let mut edge_bad = 0i128;
    let mut first = [-1i128, -1, 0];
    let alpha: Vec<u8> = pm.pixels().iter().map(|p| p.alpha()).collect();
    for y in 0..h {
        for x in 0..w {
            if alpha[(y * w + x) as usize] != 0 {
                touched += 1;
                let d = oracle::dist_to_outline(&cs, x as f64 + 0.5, y as f64 + 0.5);
                if d > reach {
                    if aa && (x <= 2 || y <= 2) {
                        edge_bad += 1;
                    } else {
                        far += 1;
                        if first[0] < 0 {
                            first = [x as i128, y as i128, 1];
                        }
                    }
                }
            }
        }
    }
    // gaps: sample the path; every sample inside the pixmap [0,w)x[0,h) needs a touched pixel near it
    let mut gaps = 0i128;
    for c in &cs {
        for k in 0..c.len() - 1 {
            let (ax, ay, bx, by) = (c[k].fx, c[k].fy, c[k + 1].fx, c[k + 1].fy);
            let len = ((bx - ax).powi(2) + (by - ay).powi(2)).sqrt();
            if len < 1.0 {
                continue; // sub-pixel segments may legitimately vanish
            }
            let n = (len * 2.0).ceil() as usize;
            for i in 0..=n {
                let s = i as f64 / n as f64;
                // skip the very ends (half-open pixel rule / caps)
                let (px, py) = (ax + s * (bx - ax), ay + s * (by - ay));
                if s * len < 1.0 || (1.0 - s) * len < 1.0 {
                    continue;
                }
                // the sample and the path one pixel before and after it must be inside the pixmap: a chord that only
                // clips a corner pixel may legitimately fall between two pixel-centre samples of the DDA
                let (ux, uy) = ((bx - ax) / len, (by - ay) / len);
                // with round / square caps the closing line of a contour ends at the cap-extended first point (as in
                // Skia), so the drawn line may be displaced by up to the cap extension: stay that far from the border
                let m = cap_ext;
                let inside = |x: f64, y: f64| x >= m && y >= m && x < w as f64 - m && y < h as f64 - m;
                if !inside(px, py) || !inside(px - ux, py - uy) || !inside(px + ux, py + uy) {
                    continue;
                }
                let (cx, cy) = (px.floor() as i64, py.floor() as i64);
                let mut ok = false;
                for dy in -2..=2i64 {
                    for dx in -2..=2i64 {
                        let (qx, qy) = (cx + dx, cy + dy);
                        if qx < 0 || qy < 0 || qx >= w as i64 || qy >= h as i64 {
                            continue;
                        }
                        if alpha[(qy as u32 * w + qx as u32) as usize] != 0 {
                            let d = ((qx as f64 + 0.5 - px).powi(2) + (qy as f64 + 0.5 - py).powi(2)).sqrt();
                            if d <= reach {
                                ok = true;
                            }
                        }
                    }
                }
                if !ok {
                    gaps += 1;
                    if first[0] < 0 {
                        first = [px as i128, py as i128, 2];
                    }
                }
            }
        }
    }
    // dots: a contour all of whose points coincide is, with a round or square cap, a dot of half a pixel around the point (the
    // cap extension on both sides): it needs a touched pixel near it like any other point of the path.  Not judged: round caps
    // without anti-aliasing -- the hairline code extends a round cap by pi/8 (as Skia does), the dot is then 0.785 px long
    // and, like every aliased segment shorter than a pixel (see the gap rule above), may fall between two pixel centres
    if cap_ext > 0.0 && (aa || cap == LineCap::Square) {
        for c in &cs {
            let (px, py) = (c[0].fx, c[0].fy);
            if c.len() < 2 || !c.iter().all(|q| q.fx == px && q.fy == py) {
                continue;
            }
            if !(px >= 1.5 && py >= 1.5 && px < w as f64 - 1.5 && py < h as f64 - 1.5) {
                continue;
            }
            let (cx, cy) = (px.floor() as i64, py.floor() as i64);
            let mut ok = false;
            for dy in -2..=2i64 {
                for dx in -2..=2i64 {
                    let (qx, qy) = (cx + dx, cy + dy);
                    if qx < 0 || qy < 0 || qx >= w as i64 || qy >= h as i64 {
                        continue;
                    }
                    if alpha[(qy as u32 * w + qx as u32) as usize] != 0 {
                        let d = ((qx as f64 + 0.5 - px).powi(2) + (qy as f64 + 0.5 - py).powi(2)).sqrt();
                        if d <= reach {
                            ok = true;
                        }
                    }
                }
            }
            if !ok {
                gaps += 1;
                if first[0] < 0 {
                    first = [px as i128, py as i128, 3];
                }
            }
        }
    }
    // independence from what the path does outside: draw on a 3x pixmap with the path shifted, crop, compare
    let mut dep = 0i128;
    let mut dep2 = 0i128;
    if check_crop && w <= 64 && h <= 64 {
        let mut big = Pixmap::new(3 * w, 3 * h).unwrap();
        let t2 = t.post_translate(w as f32, h as f32);
        big.stroke_path(&path, &paint, &stroke, t2, None);
        for y in 0..h {
            for x in 0..w {
                let a = alpha[(y * w + x) as usize];
                let b = big.pixels()[((y + h) * 3 * w + x + w) as usize].alpha();
                // the pixels themselves may differ by clipping numerics only within the proximity band
                if (a != 0) != (b != 0) {
                    let d = oracle::dist_to_outline(&cs, x as f64 + 0.5, y as f64 + 0.5);
                    if d > reach {
                        if aa && (x <= 2 || y <= 2) {
                            edge_bad += 1;
                        } else {
                            dep += 1;
                        }
                    }
                }
                // anti-aliased: the coverage itself must not depend on the part outside (a displaced line changes the
                // split of coverage between neighbouring pixels long before it leaves the proximity band); the first
                // rows / columns belong to the known fold finding, the last ones see the other clip edge
                if aa && x > 2 && y > 2 && x + 3 < w && y + 3 < h && (a as i32 - b as i32).abs() >= COVERAGE_DEP {
                    if near_fold_segment(&cs, x as f64 + 0.5, y as f64 + 0.5, w as f64, h as f64) {
                        edge_bad += 1;
                    } else if near_diagonal_piece(&cs, x as f64 + 0.5, y as f64 + 0.5) {
                        // a segment at 45 degrees is drawn by the mostly-horizontal or by the mostly-vertical blitter
                        // depending on the last bit of its deltas, which the translation of the reference drawing may
                        // change: the two blitters split the same coverage between different neighbours
                    } else {
                        dep2 += 1;
                    }
                }
            }
        }
    }
    // C04: touched pixels outside the bounding box of the (transformed) path grown by the width, the cap extension and
    // one pixel of anti-aliasing bleed
    let bb = tp.bounds();
    let grow = (width * 0.5).max(0.5) as f64 + cap_ext + 1.0 + 0.5;
    let mut stray = 0i128;
    for y in 0..h {
        for x in 0..w {
            if alpha[(y * w + x) as usize] != 0 {
                let (cx, cy) = (x as f64 + 0.5, y as f64 + 0.5);
                if cx < bb.left() as f64 - grow || cx > bb.right() as f64 + grow || cy < bb.top() as f64 - grow || cy > bb.bottom() as f64 + grow {
                    stray += 1;
                }
            }
        }
    }
    vec![touched, far, gaps, first[0], first[1], first[2], dep, edge_bad, dep2, stray]
}

/// args: x0 y0 x1 y1 l t r b (bit patterns) -> -1 | -2 | the clipped end points (line_clipper::intersect)
pub fn run_line_clip(l: &[i128]) -> Vec<i128> {
    if l.len() != 8 {
        return vec![-3];
    }
    #[cfg(tiny_skia_verif)]
    {
        use crate::{b, f};
        let clip = match tiny_skia::Rect::from_ltrb(f(l[4]), f(l[5]), f(l[6]), f(l[7])) {
            Some(c) => c,
            None => return vec![-2],
        };
        let src = [tiny_skia::Point::from_xy(f(l[0]), f(l[1])), tiny_skia::Point::from_xy(f(l[2]), f(l[3]))];
        return match tiny_skia::verif_hooks::line_clipper_intersect(src, &clip) {
            None => vec![-1],
            Some(d) => vec![b(d[0].x), b(d[0].y), b(d[1].x), b(d[1].y)],
        };
    }
    #[allow(unreachable_code)]
    {
        vec![-8]
    }
}


/// The footprint of a thick stroke (C04): args: width_milli miter_milli join(0 miter 1 miter-clip 2 round 3 bevel) cap aa w h <builder ops>
/// -> [painted pixels, painted pixels outside the bounding box of the path grown by the stroke outset and one pixel, x, y]
/// stroke outset = width/2 times max(1, miter limit for miter joins, sqrt(1 + limit^2) for miter-clip joins, sqrt 2 for square caps)
pub fn run_stroke_fp(l: &[i128]) -> Vec<i128> {
    if l.len() < 8 {
        return vec![-3];
    }
    use tiny_skia::LineJoin;
    let width = l[0] as f32 / 1000.0;
    let miter = l[1] as f32 / 1000.0;
    let join = [LineJoin::Miter, LineJoin::MiterClip, LineJoin::Round, LineJoin::Bevel][(l[2] as usize) % 4];
    let cap = cap_of(l[3]);
    let (w, h) = (l[5] as u32, l[6] as u32);
    let path = match crate::c02::build_path(&l[7..]) {
        Some(p) => p,
        None => return vec![-8],
    };
    let mut paint = Paint::default();
    paint.set_color_rgba8(255, 255, 255, 255);
    paint.anti_alias = l[4] & 1 != 0;
    // a uniform scale of the draw call (bits 1.. of the aa argument): the footprint is the scaled path grown by the scaled outset
    let sc = [1.0f32, 2.0, 4.0, 0.5][((l[4] >> 1) as usize) % 4];
    let stroke = Stroke { width, miter_limit: miter, line_join: join, line_cap: cap, ..Stroke::default() };
    let mut pm = match Pixmap::new(w, h) {
        Some(p) => p,
        None => return vec![-3],
    };
    pm.stroke_path(&path, &paint, &stroke, Transform::from_scale(sc, sc), None);
    let mut k = 1.0f32;
    if join == LineJoin::Miter {
        k = k.max(miter);
    }
    if join == LineJoin::MiterClip {
        // the corners of a clipped miter lie on the offset lines beyond the vertex, at most r * sqrt(1 + m^2) from it
        // (the reading of the C05 known finding C05-miterclip-corners)
        k = k.max((1.0 + miter * miter).sqrt());
    }
    if cap == LineCap::Square {
        k = k.max(std::f32::consts::SQRT_2);
    }
    let grow = (width * sc * 0.5).max(0.5) * k + 1.0 + 0.5;
    let bb = match tiny_skia::Rect::from_ltrb(path.bounds().left() * sc, path.bounds().top() * sc, path.bounds().right() * sc, path.bounds().bottom() * sc) {
        Some(r) => r,
        None => return vec![-8],
    };
    let (mut painted, mut stray, mut sx, mut sy) = (0i128, 0i128, -1i128, -1i128);
    for y in 0..h {
        for x in 0..w {
            if pm.pixels()[(y * w + x) as usize].alpha() != 0 {
                painted += 1;
                let (cx, cy) = (x as f32 + 0.5, y as f32 + 0.5);
                if cx < bb.left() - grow || cx > bb.right() + grow || cy < bb.top() - grow || cy > bb.bottom() + grow {
                    stray += 1;
                    if sx < 0 {
                        sx = x as i128;
                        sy = y as i128;
                    }
                }
            }
        }
    }
    vec![painted, stray, sx, sy]
}
