"""C08 — every blend mode computes its compositing formula on every colour pair."""
from .common import *
from .pxcommon import *

ID = "C08"
PROPS_FILES = ["Props/C08", "Props/C08Highp"]
FRAGMENTS = []
ALL_FRAGMENTS = True
TRUSTED = [
    "Coq 8.16.1 kernel; Flocq 4.1.0 binary32",
    "tools/translate.py: the blend closures of lowp.rs / highp.rs are REGENERATED into Gen/LowpGen.v, Gen/HighpGen.v, Gen/BlendTable.v on every run; theorems are about the generated text",
    "hand-written Model/Pixel.v (stage glue, program selection, row runner) tied by the bit-exact px correspondence through RasterPipelineBlitter (hook verif_hooks::blit)",
    "Spec/BlendSpec.v, Spec/BlendSpecQ.v: the hand-written compositing formulas (the spec)",
    "Base/Wide.v: SSE2 lane semantics of min/max/round_int; RCPPS modelled as exact 1/x (ColorDodge/ColorBurn compared within 1)",
]
ASSUMPTIONS = [
    "highp float rounding budget is not a theorem (ideal Q identity + exhaustive sweep + bit-exact correspondence)",
    "non-separable modes (Hue, Saturation, Color, Luminosity) are not modelled: oracle/sweep only",
]
RULE = ("px rows through the blitter: all 29 modes x {lowp, highp} x rect spans at every alignment 0..40 / length 1..40 "
        "with random premultiplied destinations and paint colours, full coverage, no mask; oracle = exact rational "
        "compositing formula (tolerance 1/255 highp, 2/255 lowp) + premultiplied result; thorough adds the exhaustive "
        "Rust sweep over all source x destination channel pairs; non-trivial = the draw changed at least one pixel")


def gen_cases(rng, tier):
    cases = []
    n = 4000 if tier == "quick" else 60000
    for i in range(n):
        mode = i % 29
        hq = (i // 29) % 2 == 1
        w = rng.choice([1, 3, 8, 9, 16, 17, 24, 33, 41])
        x0 = rng.randint(0, w - 1)
        ln = rng.randint(1, w - x0)
        row = [rand_premul(rng) + (255,) for _ in range(w)]
        cases.append(px_case(0, mode, hq, rng.random() < 0.5, rand_color(rng), False, x0, ln, row))
    return cases


def channel_check(c, o_row, d_row, what_ok):
    return None


def oracle(suite, args, out):
    if out.startswith(("PANIC", "CRASH", "HANG")):
        return "implementation did not return: " + out[:200]
    c = decode(args)
    if out.strip() == "-1":
        # rejected draw: only Destination, or opaque DestinationIn
        m = MODES[c["mode"]]
        if m == "Destination" or (m == "DestinationIn" and c["color"][3] == 255):
            return None
        return "draw rejected for mode %s" % m
    o = decode_out(out, c["w"])
    if o is None:
        return "malformed output"
    if c["kind"] != 0 or c["has_mask"]:
        return None
    lowp = is_lowp(c["mode"], c["hq"])
    src = premul_source(c["color"], lowp)
    tol = Fr(2) if lowp else Fr(1)
    if c["mode"] in APPROX_RECIP:
        tol = Fr(2)
    for x in range(c["x0"], c["x0"] + c["len"]):
        d = c["row"][x]
        da = Fr(d[3], 255)
        if not premul_ok(o[x]):
            return "result pixel %r at x=%d is not premultiplied (mode %s, %s)" % (o[x], x, MODES[c["mode"]], "lowp" if lowp else "highp")
        for ch in range(3):
            f = spec(c["mode"], src[ch], Fr(d[ch], 255), src[3], da)
            if f is None:
                continue
            f = min(max(f, Fr(0)), Fr(1))
            if abs(o[x][ch] - 255 * f) > tol + Fr(1, 1000):
                return "mode %s %s channel %d: wrote %d, formula gives %.3f (src %r over dst %r)" % (
                    MODES[c["mode"]], "lowp" if lowp else "highp", ch, o[x][ch], float(255 * f), c["color"], d)
        ns = spec_nonsep(c["mode"], src[:3], [Fr(d[k], 255) for k in range(3)], src[3], da)
        if ns is not None:
            for ch in range(3):
                f = min(max(ns[ch], Fr(0)), Fr(1))
                if abs(o[x][ch] - 255 * f) > Fr(2) + Fr(1, 1000):
                    return "NONSEP mode %s channel %d: wrote %d, the non-separable formula gives %.3f (src %r over dst %r)" % (
                        MODES[c["mode"]], ch, o[x][ch], float(255 * f), c["color"], d)
        fa = spec_alpha(c["mode"], src[3], da)
        if abs(o[x][3] - 255 * fa) > tol + Fr(1, 1000):
            return "mode %s %s alpha: wrote %d, formula gives %.3f (src %r over dst %r)" % (
                MODES[c["mode"]], "lowp" if lowp else "highp", o[x][3], float(255 * fa), c["color"], d)
    return None


def relation(suite, args, mo, io):
    if mo == io:
        return True
    if mo.strip() == "-9":
        return True   # stage not modelled (non-separable modes): oracle only
    c = decode(args)
    if c["mode"] in APPROX_RECIP:
        a, b = mo.split(), io.split()
        return len(a) == len(b) and all(abs(int(x) - int(y)) <= 1 for x, y in zip(a, b))
    return False


def nontrivial_tag(suite, args, out):
    c = decode(args)
    o = decode_out(out, c["w"]) if out and out[0].isdigit() else None
    if not o:
        return None
    if any(tuple(o[x]) != tuple(c["row"][x][:4]) for x in range(c["w"])):
        return "%s:%s" % (MODES[c["mode"]], "hq" if c["hq"] else "lowp?")
    return None


def extra(ctx, vp):
    """thorough tier: exhaustive Rust sweep (search only)"""
    import subprocess, os
    stride = 257 if ctx.tier == "quick" else 1
    exe = os.path.join(vp.CARGO_TARGET, "release", "sweep")
    ok, msg = vp.build_harness("release")
    if not ok or not os.path.exists(exe):
        ctx.oblige("build:sweep", False, msg)
        return
    rc, out, dt = vp.run([exe, str(stride)], timeout=3000)
    bad = []
    total = 0
    for line in out.strip().split("\n"):
        t = line.split()
        if len(t) < 5 or not t[0].isdigit():
            continue
        mode, hq, n, err, prem = int(t[0]), int(t[1]), int(t[2]), int(t[3]), int(t[4])
        total += n
        lowp = is_lowp(mode, bool(hq))
        tol = 2000 if lowp or mode in APPROX_RECIP else 1000
        # the sweep's reference uses the unquantised source: lowp gets half a unit (times the slope <= 2) for its 8-bit source
        if lowp:
            tol += 1000
        if err > tol + 2 or prem > 0:
            bad.append(line)
    ctx.notes.append("exhaustive sweep stride=%d: %d channel evaluations in %.0fs, %d lines over tolerance" % (stride, total, dt, len(bad)))
    ctx.evaluations += total
    for b in bad[:3]:
        ctx.violations.append({"kind": "sweep", "suite": "sweep", "args": [], "impl": b, "what": "sweep: " + b})
