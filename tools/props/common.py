import struct, math

def f2b(x):
    """python float -> f32 bit pattern (round to nearest)"""
    return struct.unpack("<I", struct.pack("<f", x))[0]

def b2f(b):
    return struct.unpack("<f", struct.pack("<I", b & 0xffffffff))[0]

NAN = 0x7fc00000
INF = 0x7f800000
NINF = 0xff800000
MAXF = 0x7f7fffff
NMAXF = 0xff7fffff
NZERO = 0x80000000
MIN_SUB = 1

# f32 bit patterns of interest
BOUNDARY_F32 = [0, NZERO, 1, 0x80000001, 0x00800000, f2b(0.5), f2b(1.0), f2b(-1.0), f2b(2.5), f2b(100.0),
                f2b(8191.0), f2b(8192.0), f2b(32767.0), f2b(65536.0), 0x4b000000, 0x4b800000, 0x4f000000,
                0xcf000000, 0x4effffff, f2b(1e30), f2b(-1e30), MAXF, NMAXF, INF, NINF, NAN]

def is_finite_bits(b):
    return (b & 0x7f800000) != 0x7f800000

def ints(line):
    return [int(t) for t in line.split()]
