"""C02 — aliased fill paints exactly the pixels whose centres lie inside the path."""
from .common import *
from .geomgen import *

ID = "C02"
PROPS_FILES = ["Props/C02", "Props/FixedPoint"]
FRAGMENTS = ["fixed-point"]
TRUSTED = [
    "Coq 8.16.1 kernel; Flocq 4.1.0 (f32 -> FDot6 conversion, conservative rounding in f64)",
    "hand-written bit-exact Model/Edge.v (LineEdge::new, fixed-point helpers, vertical-edge merging) and Model/Walk.v (sort, walk_edges, insert_new_edges, ripple) tied by bit-exact span correspondence through the recording-blitter hook",
    "harness/src/oracle.rs: independent exact winding-number classifier used to judge pixels (not tiny-skia code)",
]
ASSUMPTIONS = [
    "the float edge clipper and the chopping of curves into monotone pieces (edge_builder) are not modelled: they are judged by the classifier oracle only (partial); QuadraticEdge / CubicEdge themselves are modelled bit-exactly (Model/CurveEdge.v) but the walker model (Walk.v) is still line-only",
    "Rect::round truncation (aliased fill_rect of fractional rects) is a known finding",
]
RULE = ("(a) LineEdge::new on boundary/random segments, bit-exact; (b) polygons/stars/multi-contour polylines on the 1/64 "
        "grid fully inside the clip: blit_h spans of scan::path::fill_path bit-exact against the Coq walker, both fill "
        "rules; (c) public fill_path / Mask::fill_path incl. curves, clipping on every border, transforms and the 8191 "
        "tile seam, every pixel judged by the exact classifier outside a band (1/8 px polylines, 3/4 px curves); "
        "non-trivial = at least one span / painted pixel")


def gen_cases(rng, tier):
    cases = []
    n = 3000 if tier == "quick" else 40000
    # (a) edges
    for i in range(n):
        k = rng.random()
        if k < 0.6:
            pts = [g(rng.uniform(-5, 60)) for _ in range(4)]
        elif k < 0.8:
            pts = [f2b(rng.uniform(-5, 60)) for _ in range(4)]
        else:
            pts = [rng.choice([f2b(0.5), f2b(1.5), f2b(8191.0), f2b(-0.5), f2b(0.0), f2b(31.984375), f2b(32767.0), f2b(1e6), f2b(100000.5)]) for _ in range(4)]
        cases.append(("line_edge", pts + [rng.choice([0, 0, 2])]))
    # the i16 fast path of fdot6::div: x-runs and y-runs of exactly / almost 512 px (FDot6 +-32768, +-32767, +-32769)
    for i in range(120 if tier == "quick" else 1500):
        x0, y0 = rng.randint(-64, 64 * 40) / 64.0, rng.randint(-64, 64 * 40) / 64.0
        run = rng.choice([-1, 1]) * (512 + rng.choice([-2, -1, 0, 0, 0, 1, 2]) / 64.0)
        if i % 3 == 0:
            pts = [g(x0), g(y0), g(x0 + run), g(y0 + rng.uniform(0.5, 700))]
        elif i % 3 == 1:
            pts = [g(x0), g(y0), g(x0 + rng.uniform(-700, 700)), g(y0 + run)]
        else:
            pts = [g(x0), g(y0), g(x0 + run), g(y0 + rng.choice([-1, 1]) * (512 + rng.choice([-1, 0, 1]) / 64.0))]
        cases.append(("line_edge", pts + [rng.choice([0, 0, 2])]))
    # QuadraticEdge (set-up of the forward differences and the update loop), bit-exact: y-monotone quads as the edge builder
    # hands them over (the raw hook asserts y0 <= y1 <= y2 or the reverse), shift 0 (aliased) and 2 (anti-aliased)
    for i in range(1500 if tier == "quick" else 20000):
        k = rng.random()
        span = rng.choice([3.0, 20.0, 60.0, 300.0, 2000.0])
        ys = sorted(rng.uniform(-5, span) for _ in range(3))
        if rng.random() < 0.5:
            ys.reverse()
        if k < 0.2:
            ys[1] = ys[0] if rng.random() < 0.5 else ys[2]
        xs = [rng.uniform(-5, span) for _ in range(3)]
        if k > 0.9:
            xs = [xs[0]] * 3
        q = (lambda v: g(v)) if rng.random() < 0.6 else (lambda v: f2b(v))
        cases.append(("quad_edge", [q(xs[0]), q(ys[0]), q(xs[1]), q(ys[1]), q(xs[2]), q(ys[2]), rng.choice([0, 0, 2])]))
    # CubicEdge, bit-exact: y-monotone cubics (as chopped by the edge builder) and arbitrary ones (the update loop pins newy)
    for i in range(1500 if tier == "quick" else 20000):
        k = rng.random()
        span = rng.choice([3.0, 20.0, 60.0, 300.0, 2000.0])
        ys = [rng.uniform(-5, span) for _ in range(4)]
        if k < 0.8:
            ys.sort()
            if rng.random() < 0.5:
                ys.reverse()
        if k < 0.15:
            ys[1] = ys[0]
        xs = [rng.uniform(-5, span) for _ in range(4)]
        q = (lambda v: g(v)) if rng.random() < 0.6 else (lambda v: f2b(v))
        cases.append(("cubic_edge", [q(xs[0]), q(ys[0]), q(xs[1]), q(ys[1]), q(xs[2]), q(ys[2]), q(xs[3]), q(ys[3]), rng.choice([0, 0, 2])]))
    # (b) polygons inside the clip, bit-exact spans
    m = 1500 if tier == "quick" else 20000
    for i in range(m):
        w = rng.choice([16, 32, 48, 64])
        ops = rand_path_ops(rng, w / 2, w / 2, w / 2 - 2, curves=False, grid=rng.choice([64.0, 2.0, 1.0, 4096.0]))
        cases.append(("fill_spans", [i % 2, w, w] + ops))
    # paths with quadratic and cubic segments inside the clip, bit-exact spans: chopping at the y extrema (binary32), the
    # forward-differenced curve edges, the walker replacing the line of a curve edge in place
    for i in range(1500 if tier == "quick" else 20000):
        w = rng.choice([16, 32, 48, 64, 200])
        ops = rand_path_ops(rng, w / 2, w / 2, w / 2 - 2, curves=True, grid=rng.choice([64.0, 2.0, 1.0, 4096.0]))
        cases.append(("fill_spans", [i % 2, w, w] + ops))
    # axis-aligned rectangles / vertical edges (combine_vertical)
    for i in range(200):
        w = 32
        x0, x1 = sorted([rng.randint(1, 30), rng.randint(1, 30)]); y0, y1, y2 = sorted([rng.randint(1, 30) for _ in range(3)])
        ops = poly_ops([(x0, y0), (x0, y1), (x0, y2), (x1, y2), (x1, y0)], grid=1.0)
        ops += poly_ops([(x0, y1), (x1 + 1, y1), (x1 + 1, y2), (x0, y2)], grid=1.0)
        cases.append(("fill_spans", [i % 2, w, w] + ops))
    # (c) pixel classification through the public API
    k = 400 if tier == "quick" else 6000
    for i in range(k):
        w, h = rng.choice([(24, 24), (40, 30), (17, 45)])
        place = rng.random()
        cx, cy, r = w / 2, h / 2, min(w, h) / 2 - 2
        if place < 0.5:
            cx += rng.choice([-1, 1]) * rng.uniform(0.3, 1.2) * w / 2 if rng.random() < 0.7 else 0
            cy += rng.choice([-1, 1]) * rng.uniform(0.3, 1.2) * h / 2 if rng.random() < 0.7 else 0
            r = r * rng.uniform(0.8, 2.5)
        curves = rng.random() < 0.35
        ops = rand_path_ops(rng, cx, cy, r, curves=curves)
        band = 750 if curves else 125
        ts = rand_ts(rng)
        cases.append(("fill_px", [i % 2, 0, rng.choice([0, 0, 1]), w, h, 0, w, band, 0] + ts + ops))
    # curves cut by the clip in special ways: one monotonic quad / cubic piece crossing two opposite borders (taller or wider
    # than the pixmap), and cubics whose control values are symmetric about a border (the chop parameter is exactly 1/2)
    for i in range(60 if tier == "quick" else 800):
        w, h = rng.choice([(24, 24), (40, 30), (100, 100)])
        k = i % 4
        far = lambda n: n * rng.uniform(0.3, 1.5)
        if k == 0:      # tall quad: top to bottom in one piece
            pts0 = (rng.uniform(0.1, 0.5) * w, -far(h)); c = (rng.uniform(0.2, 0.9) * w, rng.uniform(0.5, 1.0) * h); p1 = (rng.uniform(0.5, 0.95) * w, h + far(h))
            ops = [0, f2b(pts0[0]), f2b(pts0[1]), 2, f2b(c[0]), f2b(c[1]), f2b(p1[0]), f2b(p1[1]), 1, f2b(-far(w)), f2b(p1[1]), 1, f2b(-far(w)), f2b(pts0[1]), 4]
        elif k == 1:    # wide quad: left to right in one piece
            p0 = (-far(w), rng.uniform(0.1, 0.5) * h); c = (rng.uniform(0.5, 1.0) * w, rng.uniform(0.2, 0.9) * h); p1 = (w + far(w), rng.uniform(0.5, 0.95) * h)
            ops = [0, f2b(p0[0]), f2b(p0[1]), 2, f2b(c[0]), f2b(c[1]), f2b(p1[0]), f2b(p1[1]), 1, f2b(p1[0]), f2b(-far(h)), 1, f2b(p0[0]), f2b(-far(h)), 4]
        elif k == 2:    # cubic symmetric about x = 0 (left border)
            a, b = rng.choice([30.0, 12.0, 7.5]), rng.choice([10.0, 4.0, 2.5])
            ys = sorted(rng.uniform(0.05, 0.95) * h for _ in range(4))
            ops = [0, f2b(-a), f2b(ys[0]), 3, f2b(-b), f2b(ys[1]), f2b(b), f2b(ys[2]), f2b(a), f2b(ys[3]), 1, f2b(w * 0.8), f2b(ys[3]), 1, f2b(w * 0.8), f2b(ys[0]), 4]
        else:           # cubic symmetric about y = 0 (top border)
            a, b = rng.choice([30.0, 12.0, 7.5]), rng.choice([10.0, 4.0, 2.5])
            xs = sorted(rng.uniform(0.05, 0.95) * w for _ in range(4))
            ops = [0, f2b(xs[0]), f2b(-a), 3, f2b(xs[1]), f2b(-b), f2b(xs[2]), f2b(b), f2b(xs[3]), f2b(a), 1, f2b(xs[3]), f2b(h * 0.8), 1, f2b(xs[0]), f2b(h * 0.8), 4]
        cases.append(("fill_px", [i % 2, 0, rng.choice([0, 0, 1]), w, h, 0, w, 750, 0] + list(IDENT) + ops))
    # tiny paths magnified by the draw transform (extent below 1/4096 units, scale 1e4 .. 1e6): what counts is the size on the device
    for i in range(24 if tier == "quick" else 240):
        w, h = rng.choice([(24, 24), (40, 30)])
        sc = rng.choice([1.0e4, 5.0e4, 1.0e5, 1.0e6])
        n = rng.randint(3, 5)
        pts = [(rng.uniform(2, w - 2) / sc, rng.uniform(2, h - 2) / sc) for _ in range(n)]
        ops = [0, f2b(pts[0][0]), f2b(pts[0][1])] + [v for q_ in pts[1:] for v in (1, f2b(q_[0]), f2b(q_[1]))] + [4]
        cases.append(("fill_px", [i % 2, 0, rng.choice([0, 0, 2]) if n == 4 and False else 0, w, h, 0, w, 250, 0] + [f2b(sc), 0, 0, f2b(sc), 0, 0] + ops))
    # curves that START or END exactly on a border of the clip and bulge into the pixmap, the contour closed outside the pixmap
    # (so the edge clipper is used): touching a border is not crossing it
    for i in range(64 if tier == "quick" else 800):
        w, h = rng.choice([(24, 24), (40, 30), (100, 100)])
        side = i % 4
        cub = (i // 4) % 2
        t0, t1 = sorted([rng.uniform(0.1, 0.45), rng.uniform(0.55, 0.9)])
        depth = rng.uniform(0.3, 0.8)
        out = rng.choice([3.0, 10.0, 40.0])
        if side in (0, 1):      # left / right border: end points (bx, t0 h) and (bx, t1 h)
            bx = 0.0 if side == 0 else float(w)
            inx = bx + (depth * w if side == 0 else -depth * w)
            ox = bx + (-out if side == 0 else out)
            a, b = (bx, round(t0 * h, 2)), (bx, round(t1 * h, 2))
            if rng.random() < 0.4:   # only one end on the border, the other inside
                b = (bx + (inx - bx) * rng.uniform(0.3, 1.0), b[1])
            c1, c2 = (inx, a[1] + (b[1] - a[1]) * rng.uniform(0.0, 0.5)), (inx, a[1] + (b[1] - a[1]) * rng.uniform(0.5, 1.0))
            tail = [1, f2b(b[0]), f2b(h + out if b[0] != bx else b[1]), 1, f2b(ox), f2b(h + out if b[0] != bx else b[1]), 1, f2b(ox), f2b(a[1])]
        else:                   # top / bottom border
            by = 0.0 if side == 2 else float(h)
            iny = by + (depth * h if side == 2 else -depth * h)
            oy = by + (-out if side == 2 else out)
            a, b = (round(t0 * w, 2), by), (round(t1 * w, 2), by)
            if rng.random() < 0.4:
                b = (b[0], by + (iny - by) * rng.uniform(0.3, 1.0))
            c1, c2 = (a[0] + (b[0] - a[0]) * rng.uniform(0.0, 0.5), iny), (a[0] + (b[0] - a[0]) * rng.uniform(0.5, 1.0), iny)
            tail = [1, f2b(w + out if b[1] != by else b[0]), f2b(b[1]), 1, f2b(w + out if b[1] != by else b[0]), f2b(oy), 1, f2b(a[0]), f2b(oy)]
        if cub:
            ops = [0, f2b(a[0]), f2b(a[1]), 3, f2b(c1[0]), f2b(c1[1]), f2b(c2[0]), f2b(c2[1]), f2b(b[0]), f2b(b[1])] + tail + [4]
        else:
            ops = [0, f2b(a[0]), f2b(a[1]), 2, f2b((c1[0] + c2[0]) / 2), f2b((c1[1] + c2[1]) / 2), f2b(b[0]), f2b(b[1])] + tail + [4]
        cases.append(("fill_px", [i % 2, 0, rng.choice([0, 0, 1]), w, h, 0, w, 750, 0] + list(IDENT) + ops))
    # cubics that are degree-elevated quadratics (computed in binary32, so the cubic coefficient of the derivative is rounding
    # noise, not 0), asymmetric, with an interior y extremum: the extremum must still be found and the curve chopped there
    for i in range(40 if tier == "quick" else 500):
        w, h = rng.choice([(100, 100), (64, 64), (200, 120)])
        x0, x2 = rng.uniform(0.05, 0.3) * w, rng.uniform(0.7, 0.95) * w
        up = i % 2 == 0
        y0, y2 = rng.uniform(0.5, 0.9) * h, rng.uniform(0.5, 0.9) * h
        if not up:
            y0, y2 = h - y0, h - y2
        q1 = (rng.uniform(0.3, 0.7) * w + rng.uniform(-0.25, 0.25) * w, (0.05 if up else 0.95) * h + rng.uniform(-0.3, 0.0) * h * (1 if up else -1))
        f32 = lambda v: b2f(f2b(v))
        e = lambda a, b: f32(f32(a) + f32(f32(2.0 / 3.0) * f32(f32(b) - f32(a))))
        c1 = (e(x0, q1[0]), e(y0, q1[1])); c2 = (e(x2, q1[0]), e(y2, q1[1]))
        base = (0.98 if up else 0.02) * h
        ops = [0, f2b(x0), f2b(y0), 3, f2b(c1[0]), f2b(c1[1]), f2b(c2[0]), f2b(c2[1]), f2b(x2), f2b(y2), 1, f2b(x2), f2b(base), 1, f2b(x0), f2b(base), 4]
        cases.append(("fill_px", [i % 2, 0, rng.choice([0, 0, 1]), w, h, 0, w, 750, 0] + list(IDENT) + ops))
    # large cubics with lopsided control polygons (the flattening count must follow the larger deviation)
    for i in range(48 if tier == "quick" else 600):
        w, h = rng.choice([(200, 120), (160, 160), (120, 200)])
        cases.append(("fill_px", [i % 2, 0, rng.choice([0, 0, 1]), w, h, 0, w, 750, 0] + list(IDENT) + lopsided_cubic_ops(rng, w, h) + [4]))
    # edges whose x-run is exactly 512 px (FDot6 32768, the first value outside the i16 fast path of fdot6::div), as drawn
    # and as produced by clipping a longer edge against both sides of a 512-px-wide pixmap
    for i in range(6 if tier == "quick" else 60):
        hh = rng.randint(20, 40)
        if i % 2 == 0:
            x0, y0 = rng.randint(4, 60), rng.randint(2, 8)
            sgn = rng.choice([-1, 1])
            xa, xb = (x0, x0 + 512) if sgn > 0 else (x0 + 512, x0)
            pts = [(xa, y0), (xb, y0 + hh), (xa, y0 + hh)]
            w = 600
        else:
            w = 512
            y0 = rng.randint(2, 8)
            pts = [(-40 - rng.randint(0, 30), y0), (w + 40 + rng.randint(0, 30), y0 + hh), (-40, y0 + hh + 6)]
        cases.append(("fill_px", [i % 2, 0, 0, w, hh + 16, 0, w, 125, 0] + list(IDENT) + poly_ops(pts, grid=1.0)))
    # Pixmap::fill_rect (aliased fast path through Rect::round) with fractional edges
    for i in range(150 if tier == "quick" else 2000):
        w = h = 24
        l, t = rng.choice([0.3, 0.5, 0.7, 2.0, 3.49, 5.51]), rng.choice([0.2, 0.5, 0.8, 1.0, 4.6])
        r, b = l + rng.choice([1.0, 1.4, 2.5, 10.0, 10.4]), t + rng.choice([1.0, 1.6, 3.0, 7.3])
        cases.append(("fill_px", [0, 0, 2, w, h, 0, w, 125, 0] + list(IDENT) + [5, f2b(l), f2b(t), f2b(r), f2b(b)]))
    # tile seam: pixmaps wider / taller than 8191
    for i in range(4 if tier == "quick" else 32):
        ops = rand_path_ops(rng, 8191 + rng.uniform(-6, 6), 10, 9, curves=(i % 2 == 1))
        cases.append(("fill_px", [i % 2, 0, (i // 2) % 2, 8230, 20, 8160, 8225, 750 if i % 2 else 125, 0] + list(IDENT) + ops))
    # shapes that end half a pixel to two pixels past the tile seam: the next tile holds only their last column(s)
    for i in range(4 if tier == "quick" else 32):
        x1 = 8191 + rng.choice([0.6, 0.9, 1.3, 1.8])
        x0 = 8191 - rng.uniform(3, 12)
        y0, y1 = rng.uniform(2, 5), rng.uniform(12, 17)
        pts = [(x0, y0), (x1, y0 + rng.uniform(0, 2)), (x1, y1), (x0, y1 - rng.uniform(0, 2))]
        cases.append(("fill_px", [i % 2, 0, (i // 2) % 2, 8230, 20, 8160, 8225, 125, 0] + list(IDENT) + poly_ops(pts, grid=64.0)))
    # tiled in both directions (8200 x 8200, four tiles): shapes in the top rows and across the horizontal seam of the same
    # tile column; the window of checked columns lies in the left tile column or across the vertical seam
    for i in range(1 if tier == "quick" else 6):
        left = i % 2 == 0
        cx = rng.uniform(12, 30) if left else 8191 + rng.uniform(-5, 5)
        ops = []
        for cy in (rng.uniform(4, 9), 8191 + rng.uniform(-4, 4)):
            ops += poly_ops(rand_polygon(rng, cx, cy, rng.uniform(3, 8), grid=64.0), close=True, grid=64.0)
        wx0 = 0 if left else 8160
        cases.append(("fill_px", [i % 2, 0, 0, 8200, 8200, wx0, wx0 + 40, 125, 0] + list(IDENT) + ops))
    return cases


def oracle(suite, args, out):
    if suite in ("line_edge", "quad_edge", "cubic_edge"):
        return None   # crate-internal function driven directly: its debug assertions are preconditions
    if out.startswith(("PANIC", "CRASH", "HANG")):
        return "implementation did not return: " + out[:200]
    if suite == "fill_px":
        o = ints(out)
        if len(o) >= 7 and o[2] > 0:
            if o[6] == -5000 or o[6] == -5:
                return "pixel (%d,%d) is half painted (alpha %d) by an aliased fill" % (o[3], o[4], o[5])
            return "%d pixels outside the tolerance band are wrong; first: pixel (%d,%d) has alpha %d but its centre is %s the path" % (
                o[2], o[3], o[4], o[5], "inside" if o[6] > 0 else "outside")
    if suite == "fill_spans":
        if "-77" in out.split():
            return "fill_path emitted a blitter call other than blit_h/blit_rect"
    return None


def known_class(suite, args, out, what):
    # aliased Pixmap::fill_rect goes through Rect::round, whose saturate_round truncates (floor(x) + 0.5 cast) and
    # rounds x and width separately: fractional rects are painted up to one pixel off
    if suite == "fill_px" and args[2] == 2:
        return "C02-fill-rect-round-truncates"
    return None


_OP_AR = {0: 2, 1: 2, 2: 4, 3: 6, 4: 0, 5: 4, 6: 4, 7: 3}


def has_curve_ops(ops):
    i = 0
    while i < len(ops):
        k = ops[i]
        if k in (2, 3, 6, 7):
            return True
        if k not in _OP_AR:
            return True
        i += 1 + _OP_AR[k]
    return False


def merged_spans(out):
    """the spans of a blit list as a set of pixels per row: sorted, touching spans merged"""
    t = out.split()
    if len(t) % 3 or not all(x.lstrip("-").isdigit() for x in t):
        return None
    rows = {}
    for i in range(0, len(t), 3):
        x, y, w = int(t[i]), int(t[i + 1]), int(t[i + 2])
        if w <= 0 or x < 0:
            return None
        rows.setdefault(y, []).append((x, x + w))
    res = []
    for y in sorted(rows):
        cur = None
        for a, b in sorted(rows[y]):
            if cur and a <= cur[1]:
                cur[1] = max(cur[1], b)
            else:
                cur = [a, b]
                res.append((y, cur))
    return [(y, c[0], c[1]) for y, c in res]


def relation(suite, args, mo, io):
    if mo == io or mo.strip() == "-9":
        return True
    if suite == "fill_spans" and has_curve_ops(args[3:]):
        # the model walks the flattened line lists of the curve edges, the implementation replaces the line of a curve edge
        # in place: edges with equal abscissae may be met in another order, which splits or joins touching spans but
        # covers the same pixels
        a, b = merged_spans(mo), merged_spans(io)
        if a is not None and a == b:
            return True
    if mo.strip() == "-1" and (io.startswith("PANIC") or suite in ("line_edge", "quad_edge", "cubic_edge")):
        # -1 = a debug assertion of the fixed-point conversion fails: a panic in checked builds, an unspecified value in
        # release builds (the raw LineEdge hook is never reached with such coordinates through the public API: the edge
        # builder clips first)
        return True
    return False


def nontrivial_tag(suite, args, out):
    if suite == "line_edge":
        return "edge" if out.strip() != "-2" else None
    if suite in ("quad_edge", "cubic_edge"):
        o = out.split()
        return suite[:4] + ":%s" % ("many" if o and o[0].isdigit() and int(o[0]) > 2 else "few") if o and o[0].isdigit() and int(o[0]) > 0 else None
    if suite == "fill_spans":
        return "spans" if len(out.split()) >= 3 else None
    o = out.split()
    return "px" if len(o) >= 3 and o[0].isdigit() and int(o[0]) > 0 else None


def extra(ctx, vp):
    """Evaluate the hypothesis of C02_cubic_path_fill_spec (every cubic edge ends on the row of its last point) on a sample of
    paths with cubic segments, with the extracted model: reported as an obligation that holds when the test could be evaluated
    on every sampled path; the detail gives the fraction of paths on which the theorem applies."""
    import os, random
    rng = random.Random(7 + ctx.seed)
    n = 300 if ctx.tier == "quick" else 4000
    lines = []
    for i in range(n):
        w = rng.choice([16, 32, 64, 200])
        ops = rand_path_ops(rng, w / 2, w / 2, w / 2 - 2, curves=True, grid=rng.choice([64.0, 2.0, 1.0, 4096.0]))
        lines.append(vp.case_line("cubics_exact", [0] + ops))
    out = vp.run_lines(os.path.join(vp.OCAML_DIR, "model_run"), lines)
    cnt = {}
    for o in out:
        cnt[o.strip()] = cnt.get(o.strip(), 0) + 1
    ctx.evaluations += len(lines)
    with_cubics = cnt.get("1", 0) + cnt.get("0", 0)
    bad = [k for k in cnt if k not in ("0", "1", "2", "-8")]
    ctx.oblige("hypothesis:cubics_exact", not bad and with_cubics > 0,
               "of %d sampled paths %d have cubic segments; on %d of them every cubic edge ends on the row of its last point "
               "(C02_cubic_path_fill_spec applies), on %d the pin lengthens an edge; %d paths without cubics%s" % (
                   n, with_cubics, cnt.get("1", 0), cnt.get("0", 0), cnt.get("2", 0), ("; unexpected outputs %r" % bad) if bad else ""))
    if cnt.get("1", 0):
        ctx.tag("cubic-path-exact")
