"""Shared generator / decoder / exact spec for the "px" correspondence suite (one pixmap row through
RasterPipelineBlitter).  Used by C04, C08, C09, C10, C11, C12."""
import struct
from fractions import Fraction as Fr

MODES = ["Clear", "Source", "Destination", "SourceOver", "DestinationOver", "SourceIn", "DestinationIn", "SourceOut",
         "DestinationOut", "SourceAtop", "DestinationAtop", "Xor", "Plus", "Modulate", "Screen", "Overlay", "Darken",
         "Lighten", "ColorDodge", "ColorBurn", "HardLight", "SoftLight", "Difference", "Exclusion", "Multiply",
         "Hue", "Saturation", "Color", "Luminosity"]
LOWP_MODES = [i for i, m in enumerate(MODES) if m not in ("ColorDodge", "ColorBurn", "SoftLight", "Hue", "Saturation", "Color", "Luminosity")]
MODELLED = [i for i, m in enumerate(MODES) if m not in ("Hue", "Saturation", "Color", "Luminosity")]
APPROX_RECIP = [MODES.index("ColorDodge"), MODES.index("ColorBurn")]
PRESCALE = {"Destination", "DestinationOver", "Plus", "DestinationOut", "SourceAtop", "SourceOver", "Xor"}
# modes whose formula at source 0 is not the destination: F(0, d) != d
MASK_ZERO_WRITES = {"Clear", "Source", "SourceIn", "DestinationIn", "SourceOut", "DestinationAtop", "Modulate"}


def f32(x):
    return struct.unpack("<f", struct.pack("<f", x))[0]


def px_case(kind, mode, hq, aa, color, has_mask, x0, length, row, extra=()):
    """row: list of (r, g, b, a, mask)"""
    args = [kind, mode, int(hq), int(aa)] + list(color) + [int(has_mask), x0, length, len(row)]
    for p in row:
        args += list(p)
    args += list(extra)
    return ("px", args)


def decode(args):
    kind, mode, hq, aa = args[0:4]
    color = args[4:8]
    has_mask, x0, length, w = args[8:12]
    row = [tuple(args[12 + 5 * i:12 + 5 * i + 5]) for i in range(w)]
    extra = args[12 + 5 * w:]
    return dict(kind=kind, mode=mode, hq=hq, aa=aa, color=color, has_mask=has_mask, x0=x0, len=length, w=w, row=row, extra=extra)


def decode_out(out, w):
    t = out.split()
    if len(t) != 4 * w:
        return None
    v = [int(x) for x in t]
    return [tuple(v[4 * i:4 * i + 4]) for i in range(w)]


def is_lowp(mode, hq):
    return (not hq) and mode in LOWP_MODES


def premul_source(color, lowp):
    """premultiplied source (as Fractions in 0..1) the pipeline works with: lowp quantises to 8 bits"""
    c = [f32(x / 255.0) for x in color]
    a = c[3]
    if color[3] == 255:
        pm = c
    else:
        pm = [min(1.0, max(0.0, f32(c[i] * a))) for i in range(3)] + [a]
    if lowp:
        return [Fr(int(f32(f32(x * 255.0) + 0.5))) / 255 for x in pm]
    return [Fr(x) for x in pm]


def spec(mode, s, d, sa, da):
    """exact compositing formula (premultiplied, Fractions); None for non-separable / sqrt modes"""
    m = MODES[mode]
    both = lambda b: s * (1 - da) + d * (1 - sa) + b
    if m == "Clear": return Fr(0)
    if m == "Source": return s
    if m == "Destination": return d
    if m == "SourceOver": return s + d * (1 - sa)
    if m == "DestinationOver": return d + s * (1 - da)
    if m == "SourceIn": return s * da
    if m == "DestinationIn": return d * sa
    if m == "SourceOut": return s * (1 - da)
    if m == "DestinationOut": return d * (1 - sa)
    if m == "SourceAtop": return s * da + d * (1 - sa)
    if m == "DestinationAtop": return d * sa + s * (1 - da)
    if m == "Xor": return s * (1 - da) + d * (1 - sa)
    if m == "Plus": return min(s + d, Fr(1))
    if m == "Modulate": return s * d
    if m == "Screen": return s + d - s * d
    if m == "Overlay": return both(2 * s * d if 2 * d <= da else sa * da - 2 * (da - d) * (sa - s))
    if m == "Darken": return s + d - max(s * da, d * sa)
    if m == "Lighten": return s + d - min(s * da, d * sa)
    if m == "ColorDodge":
        if d == 0: return s * (1 - da)
        if s == sa: return s + d * (1 - sa)
        return both(sa * min(da, d * sa / (sa - s)))
    if m == "ColorBurn":
        if d == da: return d + s * (1 - da)
        if s == 0: return d * (1 - sa)
        return both(sa * (da - min(da, (da - d) * sa / s)))
    if m == "HardLight": return both(2 * s * d if 2 * s <= sa else sa * da - 2 * (da - d) * (sa - s))
    if m == "Difference": return s + d - 2 * min(s * da, d * sa)
    if m == "Exclusion": return s + d - 2 * s * d
    if m == "Multiply": return both(s * d)
    return None


def spec_nonsep(mode, s3, d3, sa, da):
    """the four non-separable modes (Hue, Saturation, Color, Luminosity) as Skia / W3C define them on premultiplied colours:
    exact rationals; returns the three colour channels or None for other modes"""
    m = MODES[mode]
    if m not in ("Hue", "Saturation", "Color", "Luminosity"):
        return None
    lum = lambda c: c[0] * Fr(30, 100) + c[1] * Fr(59, 100) + c[2] * Fr(11, 100)
    sat = lambda c: max(c) - min(c)

    def set_sat(c, s_):
        mn, mx = min(c), max(c)
        if mx == mn:
            return [Fr(0)] * 3
        return [(v - mn) * s_ / (mx - mn) for v in c]

    def set_lum(c, l):
        diff = l - lum(c)
        return [v + diff for v in c]

    def clip_color(c, a):
        mn, mx, l = min(c), max(c), lum(c)
        out = []
        for v in c:
            if mn < 0 and l != mn:
                v = l + (v - l) * l / (l - mn)
            if mx > a and mx != l:
                v = l + (v - l) * (a - l) / (mx - l)
            out.append(max(v, Fr(0)))
        return out

    if m == "Hue":
        c = [v * sa for v in s3]
        c = set_sat(c, sat(d3) * sa); c = set_lum(c, lum(d3) * sa)
    elif m == "Saturation":
        c = [v * sa for v in d3]
        c = set_sat(c, sat(s3) * da); c = set_lum(c, lum(d3) * sa)
    elif m == "Color":
        c = [v * da for v in s3]
        c = set_lum(c, lum(d3) * sa)
    else:
        c = [v * sa for v in d3]
        c = set_lum(c, lum(s3) * da)
    c = clip_color(c, sa * da)
    return [s3[i] * (1 - da) + d3[i] * (1 - sa) + c[i] for i in range(3)]


def spec_alpha(mode, sa, da):
    m = MODES[mode]
    if m in ("Clear",): return Fr(0)
    if m == "Source": return sa
    if m == "Destination": return da
    if m in ("SourceIn", "DestinationIn", "Modulate"): return sa * da
    if m == "SourceOut": return sa * (1 - da)
    if m == "DestinationOut": return da * (1 - sa)
    if m == "SourceAtop": return da
    if m == "DestinationAtop": return sa
    if m == "Xor": return sa + da - 2 * sa * da
    if m == "Plus": return min(sa + da, Fr(1))
    return sa + da - sa * da


def rand_premul(rng):
    r = rng.random()
    if r < 0.15:
        a = 255
    elif r < 0.25:
        a = 0
    else:
        a = rng.randint(0, 255)
    ch = lambda: rng.choice([0, a, a // 2, rng.randint(0, a)])
    return (ch(), ch(), ch(), a)


def rand_color(rng):
    a = rng.choice([255, 255, 0, 128, 1, 254, rng.randint(0, 255)])
    return [rng.choice([0, 255, 128, rng.randint(0, 255)]) for _ in range(3)] + [a]


def premul_ok(p):
    return p[0] <= p[3] and p[1] <= p[3] and p[2] <= p[3]
