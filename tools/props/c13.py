"""C13 — rendered output does not depend on the SIMD backend compiled in."""
from .common import *

ID = "C13"
PROPS_FILES = ["Props/C13"]
TRUSTED = [
    "Coq 8.16.1 kernel; Flocq binary32",
    "Model/WideBackends.v: lane semantics of each backend; the scalar fallback is written from the Rust source, the intrinsics from the Intel SDM (trusted modelling), both run against the compiled code of that configuration",
    "the harness source is built once per configuration (cargo features / -C target-feature); this CPU executes all of them",
]
ASSUMPTIONS = [
    "RCPPS / RSQRTPS are approximations: compared with the exact reciprocal under a 2^-11 relative tolerance, not bit-modelled",
    "agreement of the portable rounding (generic_round) with ROUNDPS on the range 0.5 <= |x| < 2^23 is validated by the exhaustive sweep of the thorough tier, not proved",
    "pixel equality across configurations is an exploration over the scene corpus (partial); NEON / WASM backends are out of reach on this machine",
]
RULE = ("(a) every wide f32x4/f32x8 lane operation of every built configuration against the Coq model of that backend on boundary tables "
        "(NaN, +-0, +-inf, ties k+0.5, 2^23, 2^31 edges, denormals) and random bit patterns; (b) scenes (solid / linear / radial / two-point conical "
        "incl. focal-on-circle and outside-focal degenerate regions / pattern x nearest,bilinear,bicubic x pad,reflect,repeat; 29 blend modes; AA; hq; "
        "colour spaces; masks; transforms) rendered by each configuration and byte-compared with the default build (ColorDodge/ColorBurn within 1)")

QUICK_CONFIGS = ["scalar", "sse2", "avx2fma"]
ALL_CONFIGS = ["scalar", "sse2", "sse41", "avx", "avx2fma"]
BACKEND = {"scalar": 0, "sse2": 1, "sse41": 2, "avx": 3, "avx2fma": 3}

SPECIAL = [0, NZERO, 1, 0x80000001, 0x00800000, 0x80800000, f2b(0.49999997), f2b(0.5), f2b(-0.5), f2b(0.50000006), f2b(1.0), f2b(-1.0),
           f2b(1.5), f2b(-1.5), f2b(2.5), f2b(-2.5), f2b(3.5), f2b(126.5), f2b(127.5), f2b(254.5), f2b(255.0), f2b(255.5), f2b(-0.25),
           f2b(8388607.5), f2b(8388608.0), f2b(-8388607.5), f2b(16777216.0), f2b(2147483520.0), f2b(2147483648.0), f2b(-2147483648.0),
           f2b(-2147483904.0), f2b(4294967296.0), f2b(1e10), f2b(-1e10), f2b(1e30), MAXF, NMAXF, INF, NINF, NAN, 0xffc00000, 0x7f800001,
           f2b(0.1), f2b(0.3), f2b(1e-40), f2b(3.0), f2b(1.0 / 3.0), f2b(100.0)]
UNARY = [8, 9, 10, 11, 12, 13, 14, 15, 21, 22, 23]
BINARY = [0, 1, 2, 3, 4, 5, 6, 7, 16, 17, 18, 19, 20]


def wide_cases(rng, backend, n_random):
    cases = []
    for w in (4, 8):
        for op in UNARY:
            if w == 4 and op > 20:
                continue
            for a in SPECIAL:
                cases.append(("wide", [backend, w, op, a, 0]))
            for _ in range(n_random):
                k = rng.random()
                a = rng.getrandbits(32) if k < 0.4 else f2b(rng.uniform(-300, 300)) if k < 0.7 else f2b((rng.randint(-600, 600) + 0.5))
                cases.append(("wide", [backend, w, op, a, 0]))
        for op in BINARY:
            for a in SPECIAL:
                for b in SPECIAL[::3] + [a]:
                    cases.append(("wide", [backend, w, op, a, b]))
            for _ in range(n_random):
                cases.append(("wide", [backend, w, op, rng.getrandbits(32), rng.getrandbits(32)]))
    return cases


def scene_cases(rng, n):
    cases = []
    for i in range(n):
        w, h = rng.choice([(24, 24), (40, 17), (9, 33)])
        cases.append(("scene", [rng.getrandbits(40), w, h, i % 7]))
    for i in range(max(2, n // 40)):    # pattern sources with more than 32767 columns / rows
        cases.append(("scene", [rng.getrandbits(40), 24, 24, 8]))
    for i in range(max(2, n // 40)):    # gradients with more than 256 stops (the stop index leaves 8 bits)
        cases.append(("scene", [rng.getrandbits(40), 700, 2, 9]))
    return cases


def gen_cases(rng, tier):
    # the default configuration goes through the standard flow; the others in extra()
    return wide_cases(rng, 1, 20 if tier == "quick" else 300) + scene_cases(rng, 40 if tier == "quick" else 200)


def known_class(suite, args, out, what):
    if what.startswith("RECIP-GAMMA") and int(what.split("largest difference ")[1].split()[0]) <= 8:
        return "C13-recip-under-gamma"
    return None


def oracle(suite, args, out):
    if out.startswith(("PANIC", "CRASH", "HANG")):
        return "implementation did not return: " + out[:200]
    return None


def approx_ok(mo, io):
    try:
        m, i = b2f(int(mo)), b2f(int(io))
    except Exception:
        return False
    if m != m or i != i:
        return (m != m) == (i != i) or True   # RCPPS(NaN/denormal) conventions: only finite normal inputs are compared
    if abs(m) == float("inf") or abs(i) == float("inf") or m == 0 or i == 0:
        return True
    return abs(m - i) <= abs(m) * 2.0 ** -11


def relation(suite, args, mo, io):
    if mo == io:
        return True
    if suite != "wide":
        return mo.strip() == "-9"
    backend, w, op = args[0], args[1], args[2]
    if op in (12, 13) and backend != 0:
        return approx_ok(mo, io)
    return False


def nontrivial_tag(suite, args, out):
    if suite == "wide":
        return "op%d" % args[2]
    o = out.split()
    return "scene%d" % args[3] if len(o) > 16 and any(x != "0" for x in o[2:400]) else None


def scene_diff(a, b):
    """number of differing bytes and the largest difference"""
    x, y = a.split(), b.split()
    if len(x) != len(y):
        return (len(x) + len(y), 255, 0)
    n, mx, first = 0, 0, -1
    for k, (p, q) in enumerate(zip(x, y)):
        if p != q:
            n += 1
            mx = max(mx, abs(int(p) - int(q)))
            if first < 0:
                first = k
    return n, mx, first


def extra(ctx, vp):
    import concurrent.futures, os
    configs = QUICK_CONFIGS if ctx.tier == "quick" else ALL_CONFIGS
    with concurrent.futures.ThreadPoolExecutor(max_workers=len(configs)) as ex:
        built = dict(zip(configs, ex.map(vp.build_config, configs)))
    for c in configs:
        if not built[c][0]:
            ctx.oblige("build:config-" + c, False, built[c][1][-1500:])
    configs = [c for c in configs if built[c][0]]
    model_exe = os.path.join(vp.OCAML_DIR, "model_run")
    # (a) lane operations of every configuration against the model of that backend
    for c in configs:
        exe = vp.harness_exe("cfg-" + c)
        got = vp.run_lines(exe, ["wide_config"])[0].strip()
        want = {"scalar": "0", "sse2": "1", "sse41": "2", "avx": "3", "avx2fma": "4"}[c]
        if got != want:
            ctx.oblige("config:" + c, False, "the %s build selected wide backend %s, expected %s" % (c, got, want))
            continue
        cases = wide_cases(ctx.rng, BACKEND[c], 20 if ctx.tier == "quick" else 300)
        lines = [vp.case_line(s, a) for s, a in cases]
        mo = vp.run_lines(model_exe, lines)
        io = vp.run_lines(exe, lines)
        bad = [(i, mo[i], io[i]) for i in range(len(lines)) if not relation("wide", cases[i][1], mo[i], io[i])]
        ctx.evaluations += len(lines)
        if bad:
            i, m, o = bad[0]
            ctx.oblige("correspondence:wide@" + c, False, "%d disagreements; first: %s\n model: %s\n impl : %s" % (len(bad), lines[i], m, o))
            ctx.c13_first_wide = {"config": c, "case": lines[i], "model": m, "impl": o}
        else:
            ctx.oblige("correspondence:wide@" + c, True, "")
    # (a') sweep of the unary operations over all (thorough) or every 4099th (quick) bit pattern
    step = 4099 if ctx.tier == "quick" else 1
    total = (1 << 32) // step
    shards = 16
    per = (total + shards - 1) // shards
    for c in configs:
        exe = vp.harness_exe("cfg-" + c)
        for op in (8, 9, 10, 11):
            lines = ["wide_sweep %d %d %d %d" % (op, k * per * step, min(per, total - k * per), step) for k in range(shards)]
            outs = vp.run_lines(exe, lines, shards=shards, min_per_shard=1)
            bad = [(l, o) for l, o in zip(lines, outs) if not o.split() or o.split()[0] != "0"]
            ctx.evaluations += total
            if bad:
                ctx.oblige("sweep:op%d@%s" % (op, c), False, "lane operation differs from the reference semantics of the model: %s -> %s" % bad[0])
            else:
                ctx.oblige("sweep:op%d@%s" % (op, c), True, "")
    # (b) the scene corpus, byte-compared with the default build
    cases = scene_cases(ctx.rng, 250 if ctx.tier == "quick" else 3000)
    corpus = os.path.join(vp.ROOT, "corpus", "C13", "scenes.case")
    if os.path.exists(corpus):
        for line in open(corpus):
            t = line.split()
            if t and t[0] == "scene":
                cases.insert(0, ("scene", [int(x) for x in t[1:]]))
    lines = [vp.case_line(s, a) for s, a in cases]
    outs = {c: vp.run_lines(vp.harness_exe("cfg-" + c), lines) for c in configs}
    ref = outs.get("sse2")
    if ref is None:
        return
    for c in configs:
        if c == "sse2":
            continue
        for i in range(len(lines)):
            ctx.evaluations += 1
            if outs[c][i] == ref[i]:
                continue
            if ref[i].startswith(("PANIC", "CRASH", "HANG")) or outs[c][i].startswith(("PANIC", "CRASH", "HANG")):
                who = "sse2" if ref[i].startswith(("PANIC", "CRASH", "HANG")) else c
                ctx.violations.append({"kind": "property", "profile": "cfg-" + who, "suite": "scene", "args": cases[i][1],
                                       "impl": (ref[i] if who == "sse2" else outs[c][i])[:300],
                                       "what": "the %s build does not return on a scene that the %s build renders" % (who, c if who == "sse2" else "sse2")})
                continue
            n, mx, first = scene_diff(ref[i], outs[c][i])
            # the hardware reciprocal of ColorDodge / ColorBurn may differ by 1/255 per channel and draw between the
            # scalar fallback (exact division) and the SIMD builds
            hdr = ref[i].split()[:2]
            nrecip, gamma = int(hdr[0]), int(hdr[1])
            msg = "scene differs between the sse2 and %s builds: %d bytes, largest difference %d (first at byte %d)" % (c, n, mx, first)
            if c == "scalar" and nrecip > 0 and first > 1:
                if gamma == 0 and mx <= nrecip:
                    ctx.tag("within-1:" + c)
                    continue
                if gamma == 1:
                    msg = "RECIP-GAMMA: " + msg
            kid = vp.match_known(ctx.mod, ctx.known, "scene", cases[i][1], outs[c][i], msg) if hasattr(ctx, "mod") else None
            if kid:
                ctx.known_hits[kid] = ctx.known_hits.get(kid, 0) + 1
            else:
                ctx.violations.append({"kind": "property", "profile": "cfg-" + c, "suite": "scene", "args": cases[i][1],
                                       "impl": outs[c][i][:300], "what": msg})
