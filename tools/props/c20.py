"""C20 — results are deterministic and independent of object reuse and call history."""
from .common import *
from .geomgen import *
from . import c14 as _c14

ID = "C20"
PROPS_FILES = ["Props/C20"]
FRAGMENTS = ["stroker-fields", "no-globals"]
TRUSTED = [
    "Coq 8.16.1 kernel",
    "tools/translate.py: the PathStroker field list, the fields assigned / cleared at the top level of stroke_inner before the segment loop, the field states written by PathBuilder::new / PathBuilder::clear / Path::clear, and the scan for statics / thread-locals / interior mutability are re-extracted from the source on every run",
    "Model/PathBuilder.v (bit-exact, C14 correspondence) for the builder-reuse histories",
]
ASSUMPTIONS = [
    "that a field assigned before the segment loop is not read before that assignment is a syntactic property of stroke_inner the translator checks by position only",
    "thread schedules and allocator behaviour are runtime facts no Gallina model exhibits: determinism on 16 threads is exercised, not proved (partial)",
    "the curve stroker is not modelled: independence of the stroker's prior state is a theorem about the reset list plus an exploration of reuse histories",
]
RULE = ("(a) histories of 2..12 stroke() calls on one PathStroker (lines, quads, cubics, cusps, huge widths and resolution scales that exhaust the "
        "recursion limits, strokes that return None) against a fresh stroker per call and Path::stroke: bit-exact; (b) builder call sequences with "
        "PathBuilder::clear / Path::clear / finish interleaved against the Coq builder model; (c) scene B drawn after scene A versus on a copy of "
        "the same bytes in a new allocation, repeated, and on 16 threads at once: byte-exact")


def rand_job(rng, hard=False):
    ops = []
    x, y = rng.uniform(-80, 80), rng.uniform(-80, 80)
    ops += [0, f2b(x), f2b(y)]
    if rng.random() < 0.08:
        # a zero-length closed first contour (M p L p Z or M p Z), then possibly more
        ops += ([1, f2b(x), f2b(y)] if rng.random() < 0.7 else []) + [4]
        if rng.random() < 0.5:
            ops += [0, f2b(x + 5), f2b(y)]
        else:
            return [len(ops)] + ops + [f2b(rng.choice([1.0, 2.0, 7.5, 20.0])), f2b(4.0), rng.choice([1, 2, 1, 2, 0]), rng.randrange(4), f2b(1.0)]
    for _ in range(rng.randint(1, 4)):
        k = rng.random()
        def pt(sc=60):
            return f2b(round(rng.uniform(-sc, sc), 2))
        if hard and k < 0.7:
            # sharply bent / cusped curves
            if rng.random() < 0.5:
                ops += [2, pt(90), pt(90), f2b(x + rng.uniform(-1, 1) * 60), f2b(y + rng.uniform(-1, 1) * 0.5)]
            else:
                ops += [3, pt(100), pt(100), pt(100), pt(100), f2b(x + rng.uniform(-30, 30)), f2b(y + rng.uniform(-30, 30))]
        elif k < 0.35:
            ops += [1, pt(), pt()]
        elif k < 0.65:
            ops += [2, pt(), pt(), pt(), pt()]
        elif k < 0.95:
            ops += [3, pt(), pt(), pt(), pt(), pt(), pt()]
        else:
            ops += [1, ops[-2], ops[-1]]     # zero-length segment
    if rng.random() < 0.3:
        ops += [4]
    if hard:
        width = rng.choice([1e3, 1e5, 1e5, 1e6, 3e7])
        res = rng.choice([1.0, 100.0, 1e4, 1e6])
    else:
        k = rng.random()
        width = rng.choice([0.0, -1.0, float("nan"), float("inf")]) if k < 0.08 else rng.choice([0.5, 1.0, 2.0, 7.5, 20.0, 55.0])
        res = rng.choice([1.0, 1.0, 0.25, 4.0, 64.0])
    job = [len(ops)] + ops + [f2b(width), f2b(rng.choice([4.0, 1.0, 10.0, 1.5])), rng.randrange(3), rng.randrange(4), f2b(res)]
    return job


def overflow_job(rng):
    """a finite path whose outline leaves the f32 range: the stroker has emitted contours when finish() fails"""
    big = rng.choice([3.0e38, 2.5e38, 3.3e38])
    ops = [0, f2b(0.0), f2b(0.0), 1, f2b(big), f2b(big)]
    if rng.random() < 0.4:
        ops += [1, f2b(big), f2b(rng.choice([0.0, 1e37]))]
    return [len(ops)] + ops + [f2b(rng.choice([2e38, 1e38, 3e38])), f2b(4.0), rng.randrange(3), rng.randrange(4), f2b(1.0)]


def odd_scale_job(rng):
    """an ordinary curved path stroked with a resolution scale that is zero, negative or denormal"""
    job = rand_job(rng)
    job[-1] = f2b(rng.choice([0.0, -0.0, -1.0, -16.0, 1e-30, 1e-42]))
    return job


def gen_cases(rng, tier):
    cases = []
    q = tier == "quick"
    for i in range(600 if q else 8000):
        jobs = []
        n = rng.randint(2, 12)
        for k in range(n):
            r = rng.random()
            if r < 0.06:
                jobs += overflow_job(rng)
            elif r < 0.14:
                jobs += odd_scale_job(rng)
            else:
                jobs += rand_job(rng, hard=rng.random() < 0.3)
        cases.append(("stroker_hist", jobs))
    # builder reuse: the C14 generator biased to clear / finish + Path::clear
    for s, a in _c14.gen_cases(rng, tier):
        if s == "c14_builder" and (9 in a or 10 in a):
            cases.append((s, a))
    for i in range(200 if q else 2500):
        ops = []
        for seg in range(rng.randint(2, 5)):
            for _ in range(rng.randint(0, 4)):
                k = rng.choice([0, 1, 1, 2, 3, 4])
                n = {0: 2, 1: 2, 2: 4, 3: 6, 4: 0}[k]
                ops += [k] + [f2b(rng.choice([0.0, 1.0, 2.5, -3.0, 10.0])) for _ in range(n)]
            ops += [rng.choice([9, 10, 10])]
        for _ in range(rng.randint(1, 3)):
            k = rng.choice([1, 2, 3, 0])
            n = {0: 2, 1: 2, 2: 4, 3: 6}[k]
            ops += [k] + [f2b(rng.choice([0.0, 1.0, 2.5, -3.0, 10.0])) for _ in range(n)]
        ops += [1, f2b(5.0), f2b(6.0)]
        cases.append(("c14_builder", ops))
    # every builder-reuse case gets a companion: the operations after its last top-level clear / Path::clear / default(), run on
    # a brand-new builder, must produce the same path (post_oracle)
    comp = []
    for s_, a_ in cases:
        if s_ == "c14_builder":
            suf = suffix_after_last_reset(a_)
            if suf is not None and suf != a_:
                comp.append((s_, suf))
    cases += comp
    for i in range(60 if q else 800):
        w, h = rng.choice([(24, 24), (40, 17)])
        cases.append(("draw_hist", [rng.getrandbits(40), rng.getrandbits(40), w, h, rng.randrange(7), rng.randrange(7), 16 if i % 4 == 0 else 2]))
    # the same stroke after the same path was stroked under another scale (a result cached on less than all its inputs)
    from .geomgen import rand_path_ops
    for i in range(80 if q else 1000):
        s1, s2 = rng.sample([0.25, 0.5, 1.0, 2.0, 4.0, 10.0], 2)
        ops = rand_path_ops(rng, 32 / s2, 32 / s2, 24 / s2, curves=True, grid=16.0)
        cases.append(("stroke_repeat", [f2b(rng.choice([2.0, 4.0, 8.0]) / s2), f2b(s1), f2b(s2), i % 2] + ops))
    # one source Pixmap drawn, changed in place and drawn again (something remembered about an image by its address)
    for i in range(60 if q else 800):
        cases.append(("pattern_reuse", [rng.getrandbits(40), rng.randint(1, 9), rng.randint(1, 9), rng.choice([16, 24, 33]), rng.choice([12, 20]),
                                        rng.randrange(3), rng.randrange(10)]))
    return cases


_AR = {0: 2, 1: 2, 2: 4, 3: 6, 4: 0, 5: 4, 6: 4, 7: 3, 9: 0, 10: 0, 11: 0}


def suffix_after_last_reset(a):
    """the operations after the last top-level 9 (clear) / 10 (finish + Path::clear) / 11 (default()); None when the
    sequence does not parse cleanly or holds no reset"""
    i, last = 0, None
    while i < len(a):
        k = a[i]
        if k == 8:
            if i + 1 >= len(a) or a[i + 1] < 0 or i + 2 + a[i + 1] > len(a):
                return None
            i += 2 + a[i + 1]
            continue
        if k not in _AR or i + 1 + _AR[k] > len(a):
            return None
        if k in (9, 10, 11):
            last = i + 1
        i += 1 + _AR[k]
    return None if last is None else a[last:]


def post_oracle(cases, outs):
    idx = {}
    for i, (s_, a_) in enumerate(cases):
        if s_ == "c14_builder":
            idx.setdefault(tuple(a_), i)
    bad = []
    for i, (s_, a_) in enumerate(cases):
        if s_ != "c14_builder":
            continue
        suf = suffix_after_last_reset(a_)
        if suf is None or suf == a_:
            continue
        j = idx.get(tuple(suf))
        if j is None or outs[i].startswith(("PANIC", "CRASH", "HANG")) or outs[j].startswith(("PANIC", "CRASH", "HANG")):
            continue
        if outs[i].strip() != outs[j].strip():
            bad.append((i, "a builder reused after clear / Path::clear / default() builds %s where a new builder given the same later operations builds %s" % (
                outs[i].strip()[:120], outs[j].strip()[:120])))
    return bad


def oracle(suite, args, out):
    if out.startswith(("PANIC", "CRASH", "HANG")):
        if suite == "stroker_hist":
            return None   # panics of the stroker itself are C01's subject; a panic is the same for a fresh stroker
        return "implementation did not return: " + out[:200]
    o = ints(out)
    if suite == "stroker_hist" and len(o) == 4 and o[2] > 0:
        return "a reused PathStroker returned a different result from a fresh one in %d of %d calls (first: call %d)" % (o[2], o[0], o[3])
    if suite == "stroke_repeat" and len(o) == 2 and o[1] > 0:
        return "%d bytes of a stroke differ depending on whether the same path was stroked under another transform before on the same thread" % o[1]
    if suite == "pattern_reuse" and len(o) == 2 and o[1] > 0:
        return "%d bytes differ between drawing a source pixmap that was drawn before and then changed in place and drawing a new allocation with the same pixels" % o[1]
    if suite == "draw_hist" and len(o) == 4:
        if o[1] > 0:
            return "%d bytes differ between drawing on the pixmap a previous scene left and on a copy of the same bytes" % o[1]
        if o[2] > 0:
            return "%d bytes differ when the same calls are repeated" % o[2]
        if o[3] > 0:
            return "%d of the concurrent threads produced different bytes" % o[3]
    return None


def relation(suite, args, mo, io):
    if mo == io:
        return True
    return mo.strip() == "-9"


def nontrivial_tag(suite, args, out):
    o = out.split()
    if suite == "stroker_hist":
        return "hist" if len(o) == 4 and o[1].isdigit() and int(o[1]) > 1 else None
    if suite == "draw_hist":
        return "draw" if len(o) == 4 and o[0] != "0" else None
    if suite == "pattern_reuse":
        return "pattern-reuse" if len(o) == 2 and o[0] not in ("0", "-3") else None
    if suite == "stroke_repeat":
        return "repeat" if len(o) == 2 and o[0] not in ("0", "-3", "-4") else None
    return "builder-reuse" if len(o) > 3 else None
