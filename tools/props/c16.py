"""C16 — Pattern and draw_pixmap sample the source image at the mapped position."""
import math
from .common import *
from .geomgen import IDENT

ID = "C16"
PROPS_FILES = ["Props/C16"]
TRUSTED = [
    "Coq 8.16.1 kernel; Flocq binary32",
    "Model/Sampler.v: bit-exact gather index (clamp to width - 1ulp, truncate) and the ideal tiling / filter-weight functions over Q",
    "harness/src/c16.rs f64 reference: inverse-mapped pixel centre, spread mode on integer indices, 2x2 hull, premultiplied validity",
]
ASSUMPTIONS = [
    "the float coordinate pipeline (seed_shader, transform, tile) is tied to the ideal index functions by the oracle only; pixels whose mapped centre lies within 2e-3 px of a source pixel boundary are not judged (partial)",
]
RULE = ("draw_pixmap (integer offsets incl. negative / partly / fully outside) and Pattern fills: source sizes 1x1..64x64, random or constant contents, "
        "scale / rotate / skew / flip / large-translation transforms, 3 spread modes x 3 filters x opacity x Source/SourceOver x 3 backgrounds: "
        "nearest = exact source pixel of the inverse-mapped centre; bilinear within the 2x2 hull; every result premultiplied; constant images reproduced; "
        "nothing changes outside the source rectangle of draw_pixmap")


def rand_ts(rng, w, h):
    k = rng.random()
    if k < 0.3:
        return list(IDENT)
    if k < 0.45:
        return [f2b(1.0), 0, 0, f2b(1.0), f2b(rng.choice([3.0, -2.0, 0.5, 7.25, 1000.0, -1000.0, rng.uniform(-9, 9)])), f2b(rng.choice([1.0, -4.0, 0.5, rng.uniform(-9, 9)]))]
    if k < 0.6:
        return [f2b(rng.choice([0.5, 2.0, -1.0, 1.5, 3.0])), 0, 0, f2b(rng.choice([0.75, 1.25, -1.0, 2.0])), f2b(rng.uniform(-4, w)), f2b(rng.uniform(-4, h))]
    if k < 0.75:
        return [f2b(1.0), f2b(rng.choice([0.3, -0.5])), f2b(rng.choice([0.0, 0.25])), f2b(1.0), f2b(rng.uniform(0, 6)), f2b(rng.uniform(0, 6))]
    a = rng.uniform(0, 6.28)
    s = rng.choice([1.0, 0.7, 1.8, 2.5])
    return [f2b(s * math.cos(a)), f2b(-s * math.sin(a)), f2b(s * math.sin(a)), f2b(s * math.cos(a)), f2b(rng.uniform(0, w)), f2b(rng.uniform(0, h))]


def gen_cases(rng, tier):
    cases = []
    q = tier == "quick"
    # the gather index, bit-exact against the Coq model: boundary coordinates on every side of the image
    for i in range(4000 if q else 60000):
        w, h = rng.choice([(1, 1), (2, 3), (5, 3), (64, 64), (100, 7), (1000, 2), (4096, 3), (16384, 1), (rng.randint(1, 300), rng.randint(1, 300))])
        def coord(n):
            k = rng.random()
            if k < 0.3:
                return rng.choice(BOUNDARY_F32 + [f2b(n - 1.0), f2b(float(n)), f2b(n - 0.5), f2b(n + 0.5), f2b(-0.5), f2b(0.5), 0x3effffff, f2b(n) - 1, f2b(n) + 1])
            if k < 0.6:
                return f2b(rng.uniform(-2, n + 2))
            if k < 0.8:
                return f2b(rng.randint(-2, n + 2) + rng.choice([0.0, 0.5]))
            return rng.getrandbits(32)
        cases.append(("gather", [w, h, coord(w), coord(h)]))
    for i in range(2500 if q else 30000):
        w, h = rng.choice([(24, 20), (33, 9), (16, 16), (40, 30)])
        sw, sh = rng.choice([(1, 1), (2, 3), (5, 3), (7, 4), (4, 7), (8, 8), (20, 20), (64, 64), (3, 1), (1, 5), (13, 6)])
        kind = rng.choice([0, 1, 1])
        if kind == 0:
            ox = rng.choice([0, 1, 5, -1, -3, w - 2, w, w + 5, -sw, -sw + 1, rng.randint(-10, w + 5)])
            oy = rng.choice([0, 2, -1, h - 1, h, -sh, rng.randint(-10, h + 5)])
            ts = rand_ts(rng, w, h) if rng.random() < 0.5 else list(IDENT)
        else:
            ox = oy = 0
            ts = rand_ts(rng, w, h)
        cases.append(("pat_px", [kind, sw, sh, rng.getrandbits(40), int(rng.random() < 0.25), ox, oy] + ts +
                      [rng.randrange(3), rng.randrange(3), f2b(rng.choice([1.0, 1.0, 1.0, 0.5, 0.999, 0.0])), rng.randrange(2), rng.randrange(3), w, h]))
    # Shader::transform: a pattern with a scale / flip / rotation of its own under a translate-only draw transform (kind 3)
    for i in range(80 if q else 1000):
        w, h = rng.choice([(24, 20), (33, 9), (16, 16)])
        sw, sh = rng.choice([(2, 3), (5, 3), (7, 4), (8, 8), (3, 1), (1, 5)])
        k = i % 4
        own = [[f2b(2.0), 0, 0, f2b(3.0), f2b(1.0), f2b(2.0)], [f2b(-1.0), 0, 0, f2b(1.0), f2b(float(w)), 0],
               [0, f2b(1.0), f2b(-1.0), 0, f2b(float(h)), 0], [f2b(1.5), f2b(0.5), f2b(-0.25), f2b(0.75), f2b(3.0), f2b(1.0)]][k]
        cases.append(("pat_px", [3, sw, sh, rng.getrandbits(40), 0, rng.randint(-4, 6), rng.randint(-3, 4)] + own +
                      [rng.randrange(3), rng.choice([0, 0, 1]), f2b(1.0), rng.randrange(2), rng.randrange(3), w, h]))
    # the whole nearest-neighbour coordinate chain (seed_shader, transform, tiling, gather) through the public API:
    # which source pixel every destination pixel receives, bit-exact against Model/Nearest.v
    for i in range(700 if q else 8000):
        w, h = rng.choice([(24, 5), (33, 3), (16, 4), (9, 2), (70, 2), (8, 8), (1, 1), (rng.randint(1, 40), rng.randint(1, 6))])
        sw, sh = rng.choice([(1, 1), (2, 3), (5, 3), (7, 4), (4, 7), (8, 8), (20, 20), (3, 1), (1, 5), (13, 6), (31, 2), (rng.randint(1, 50), rng.randint(1, 9))])
        kind = rng.choice([0, 1, 1])
        k = rng.random()
        if k < 0.6:
            ox = rng.choice([0, 1, 5, -1, -3, w - 2, w, w + 5, -sw, -sw + 1, sw, 2 * sw, -2 * sw, rng.randint(-60, 60)])
            oy = rng.choice([0, 2, -1, h - 1, h, -sh, sh, -3 * sh, rng.randint(-20, 20)])
        elif k < 0.9:
            ox, oy = rng.randint(-5000, 5000), rng.randint(-5000, 5000)
        else:
            ox, oy = rng.choice([-1, 1]) * rng.randint(10**5, 4 * 10**6), rng.choice([-1, 1]) * rng.randint(10**5, 4 * 10**6)
        if kind == 0 and rng.random() < 0.8:   # keep the source rectangle at least partly on the destination
            ox = rng.randint(-sw + 1, w - 1)
            oy = rng.randint(-sh + 1, h - 1)
        cases.append(("nearest_map", [kind, sw, sh, ox, oy, rng.randrange(3), w, h]))
    # tiled destinations (wider / taller than 8191, up to three tiles): the shader is moved into each tile and back
    for i in range(3 if q else 24):
        wide = i % 3 != 2
        w, h = (rng.choice([16400, 8200, 16390]), 2) if wide else (2, rng.choice([16400, 8200]))
        sw, sh = rng.choice([(8, 2), (5, 3), (13, 2)])
        kind = i % 2
        if wide:
            ox, oy = rng.choice([w - 12, 16383 - rng.randint(0, 4), 8190, w - 3]), rng.choice([0, -1])
        else:
            ox, oy = rng.choice([0, -1]), rng.choice([h - 12, 16383 - rng.randint(0, 4), 8190])
        cases.append(("nearest_map", [kind, sw, sh, ox, oy, rng.randrange(3), w, h]))
    # kind 2: translation by (ox / 2, oy / 2); odd values put every pixel centre exactly on a source pixel boundary,
    # where the binary32 chain must stay exact (sizes that are not powers of two have an inexact reciprocal)
    for i in range(300 if q else 4000):
        w, h = rng.choice([(24, 5), (33, 3), (70, 2), (40, 4), (rng.randint(1, 80), rng.randint(1, 6))])
        sw, sh = rng.choice([(5, 3), (7, 4), (9, 5), (10, 9), (11, 3), (13, 6), (17, 2), (20, 20), (25, 3), (31, 7), (8, 8), (41, 3), (47, 2), (rng.randint(1, 64), rng.randint(1, 9))])
        ox = rng.choice([1, -1, 3, rng.randint(-60, 60), rng.randint(-60, 60), rng.randint(-2000, 2000)])
        oy = rng.choice([0, 1, -1, 2, rng.randint(-20, 20)])
        cases.append(("nearest_map", [2, sw, sh, ox, oy, rng.randrange(3), w, h]))
    return cases


def nearest_expected_half(args):
    """kind 2: source coordinate of pixel centre c is c + 1/2 - ox/2; on an exact pixel boundary either neighbour is accepted
    (the property says 'the source pixel containing the centre'; a boundary point belongs to both closed pixels)"""
    kind, sw, sh, ox, oy, spread, w, h = args
    def tile(i, n, sp):
        if sp == 0:
            return min(max(i, 0), n - 1)
        if sp == 1:
            m = i % (2 * n)
            return m if m < n else 2 * n - 1 - m
        return i % n
    def cands(c, o, n):
        num = 2 * c + 1 - o          # twice the coordinate
        if num % 2 == 0:
            k = num // 2
            return {tile(k, n, spread), tile(k - 1, n, spread)}
        return {tile(num // 2, n, spread)}
    out = []
    for r in range(h):
        ys = cands(r, oy, sh)
        for c in range(w):
            xs = cands(c, ox, sw)
            out.append({y * sw + x for y in ys for x in xs})
    return out


def nearest_expected(args):
    """the property itself: destination pixel (c, r) shows source pixel tile(c - ox), tile(r - oy)"""
    kind, sw, sh, ox, oy, spread, w, h = args
    if kind == 2:
        return nearest_expected_half(args)
    def tile(i, n, sp):
        if sp == 0:
            return min(max(i, 0), n - 1)
        if sp == 1:
            m = i % (2 * n)
            return m if m < n else 2 * n - 1 - m
        return i % n
    out = []
    for r in range(h):
        for c in range(w):
            if kind == 0:
                if ox <= c < ox + sw and oy <= r < oy + sh:
                    out.append((r - oy) * sw + (c - ox))
                else:
                    out.append(-1)
            else:
                out.append(tile(r - oy, sh, spread) * sw + tile(c - ox, sw, spread))
    return out


WHAT = {1: "nearest sampling returned a different source pixel (got r*1000+a %d, expected %d)",
        2: "a bilinear sample lies outside the range of its 2x2 source pixels (got %d, bound %d)",
        3: "the result is not a valid premultiplied colour (channel %d above alpha %d)",
        4: "a pixel outside the source rectangle of draw_pixmap changed (alpha %d, was %d)",
        5: "a constant-colour image is not reproduced (got r*1000+a %d, expected %d)",
        7: "an anti-aliased edge pixel of a Pattern fill does not lie its coverage's share of the way from the destination to the interior colour (got %d, expected %d): the pattern opacity is not applied on edge pixels as on interior ones",
        8: "an interior pixel of a constant-colour Pattern fill is not the source scaled by the opacity and blended (got %d, expected %d)",
        9: "a Pattern with its own transform drawn through a translate-only draw transform differs from the pattern built with the composed transform (got r*1000+a %d, composed %d)",
        6: "a channel differs from the reference (filter taps and weights at the mapped position, clamps, opacity, blend): got %d, reference %d"}


def oracle(suite, args, out):
    if suite == "nearest_map" and not out.startswith(("PANIC", "CRASH", "HANG")):
        o = ints(out)
        if o and o[0] == -3:
            return None
        e = nearest_expected(args)
        if max(abs(args[3]), abs(args[4])) > 2 ** 21:
            return None   # beyond the range where pixel centres plus the offset are exact in binary32: correspondence only
        if len(o) != len(e):
            return "nearest_map returned %d pixels for a %dx%d destination" % (len(o), args[6], args[7])
        for i, (a, b) in enumerate(zip(o, e)):
            if (a not in b) if isinstance(b, set) else (a != b):
                return "destination pixel (%d,%d) shows source pixel %d where the mapped position is source pixel %s" % (i % args[6], i // args[6], a, sorted(b) if isinstance(b, set) else b)
        return None
    if out.startswith(("PANIC", "CRASH", "HANG")):
        return "implementation did not return: " + out[:200]
    o = ints(out)
    if suite == "gather":
        if len(o) == 1 and not (0 <= o[0] < args[0] * args[1]):
            return "the gather index %d is outside the %dx%d source image" % (o[0], args[0], args[1])
        return None
    if len(o) >= 11 and (sum(o[1:6]) > 0 or (len(o) >= 12 and o[11] > 0)):
        return "%d wrong-nearest, %d outside-hull, %d non-premultiplied, %d outside-rect, %d constant-not-reproduced, %d off-reference (worst %.2f levels) of %d pixels; first at (%d,%d): %s" % (
            o[1], o[2], o[3], o[4], o[5], o[11] if len(o) >= 12 else 0, (o[12] if len(o) >= 13 else 0) / 100.0, o[0], o[6], o[7], WHAT.get(o[8], "?%d %d") % (o[9], o[10]))
    return None


def relation(suite, args, mo, io):
    return mo == io or (suite == "pat_px" and mo.strip() == "-9")


def nontrivial_tag(suite, args, out):
    o = out.split()
    if suite == "gather":
        return "gather"
    if suite == "nearest_map":
        return "nearest:kind%d:s%d" % (args[0], args[5] % 3) if any(v != "-1" for v in o) else None
    return "kind%d:f%d:s%d" % (args[0], args[14] % 3, args[13] % 3) if len(o) >= 11 and o[0] not in ("0", "-3") else None
