"""C19 — geometry value types never hold, return or panic on invalid values."""
import itertools
from fractions import Fraction as Fr
from .common import *
from . import c07 as _c07

ID = "C19"
PROPS_FILES = ["Props/C19"]
FRAGMENTS = []
TRUSTED = [
    "Coq 8.16.1 kernel (coqc, vm_compute); no native_compute",
    "Flocq 4.1.0 IEEE754.BinarySingleNaN (binary32/binary64) and its B2R real semantics",
    "Base/F32.v wrappers (Rust min/max, casts); Model/Rect.v, Model/IntRect.v, Model/RectRound.v written by hand from path/src/rect.rs, size.rs, floating_point.rs, src/pixmap.rs",
    "bit-exact correspondence harness (harness/src/c19.rs, extracted OCaml via ExtrOcamlBasic)",
    "strict_num FiniteF32 / NonZeroPositiveF32 / NormalizedF32 constructors as read from strict-num 0.1.1",
]
ASSUMPTIONS = [
    "usize is 64 bits",
    "Pixmap::pixel on pixmaps of more than 2^32 pixels is outside the theorem (stated hypothesis w*h <= u32::MAX)",
    "Vec/slice semantics and bytemuck::cast_slice length rule as documented",
]
RULE = ("every public constructor / derived operation of Rect, NonZeroRect, Size, IntRect and the Pixmap size logic, "
        "called on all 4-tuples over a boundary table of f32 bit patterns (quick: 13 values, thorough: 26) and of i32/u32 "
        "extremes, plus seeded random arguments; non-trivial = the call returned Some; distinct = distinct case line")

FT_Q = [0, NZERO, 1, f2b(0.5), f2b(1.0), f2b(-1.5), f2b(2.7), f2b(100.25), f2b(2147483520.0), f2b(-2147483648.0),
        f2b(-1e30), f2b(5e30), MAXF, NMAXF, INF, NAN]
FT_T = BOUNDARY_F32
IT = [0, 1, -1, 2, 7, 100, 32767, 65536, 2**31 - 1, -2**31, 2**31 - 2, -2**31 + 1, 2**30]
UT = [0, 1, 2, 7, 100, 65535, 2**29 - 1, 2**29, 2**31 - 1, 2**31, 2**32 - 1]
F32MAX = Fr(3.4028234663852886e38)


def rf(rng, table):
    r = rng.random()
    if r < 0.6:
        return rng.choice(table)
    if r < 0.8:
        return f2b(rng.uniform(-100, 100))
    if r < 0.9:
        return f2b(rng.uniform(-3e9, 3e9))
    return f2b(rng.choice([0.3, 0.7, 1.4, 2.1, -0.7, -1.2, 10.7, 16777216.0, 16777217.0, 8388607.5]))


def ri(rng):
    return rng.choice(IT) if rng.random() < 0.6 else rng.randint(-2**31, 2**31 - 1)


def ru(rng):
    return rng.choice(UT) if rng.random() < 0.6 else rng.randint(0, 2**32 - 1)


def gen_cases(rng, tier):
    ft = FT_Q if tier == "quick" else FT_T
    cases = []
    add = lambda args: cases.append(("c19", args))
    for t in itertools.product(ft, repeat=4):
        add([1] + list(t))
    sub = ft if tier != "quick" else ft
    for t in itertools.product(ft[::2] if tier == "quick" else ft[::2], repeat=4):
        add([2] + list(t)); add([3] + list(t))
    for t in itertools.product(ft, repeat=2):
        add([4] + list(t))
    # Color::from_rgba: Some exactly when every channel is in [0, 1] (NaN, infinities, -1 ulp, 1 + 1 ulp rejected)
    CT = [0, NZERO, f2b(1.0), f2b(1.0) + 1, f2b(1.0) - 1, f2b(0.5), 0x7fc00000, 0xffc00000, 0x7f800000, 0xff800000, 1, 0x80000001, f2b(-1.0), f2b(2.0), f2b(0.25)]
    for t in itertools.product(CT, repeat=4) if tier != "quick" else [tuple(rng.choice(CT) for _ in range(4)) for _ in range(4000)]:
        add([40] + list(t))
    for t in ft + [f2b(x) for x in (0.3, 0.5, 0.7, 1.5, 2.5, -0.5, -1.5, -2.5, 16777216.0, 2147483648.0, -2147483904.0, 4294967296.0)]:
        add([11, t])
    n = 6000 if tier == "quick" else 80000
    for i in range(n):
        k = rng.choice([5, 6, 7, 8, 9, 10, 9, 10])
        # mostly valid rects
        def rect():
            a, b, c, d = rf(rng, ft), rf(rng, ft), rf(rng, ft), rf(rng, ft)
            if rng.random() < 0.8 and all(is_finite_bits(x) for x in (a, b, c, d)):
                fa, fb, fc, fd = b2f(a), b2f(b), b2f(c), b2f(d)
                return [f2b(min(fa, fc)), f2b(min(fb, fd)), f2b(max(fa, fc)), f2b(max(fb, fd))]
            return [a, b, c, d]
        if k in (5, 6):
            add([k] + rect() + rect())
        elif k in (7, 8):
            add([k] + rect() + [rf(rng, ft), rf(rng, ft)])
        else:
            add([k] + rect())
    for t in itertools.product(IT[:9], [0, 1, 100, 2**31 - 1, 2**31, 2**32 - 1], repeat=2):
        add([20, t[0], t[2], t[1], t[3]])
    for t in itertools.product(IT[:10], repeat=4):
        if rng.random() < (0.3 if tier == "quick" else 1.0):
            add([21] + list(t))
    for i in range(n):
        k = rng.choice([22, 23, 24, 25, 26])
        def irect():
            if rng.random() < 0.8:
                x, y = ri(rng), ri(rng)
                w = rng.choice([1, 2, 10, 2**31 - 1 - max(x, 0), 100]); h = rng.choice([1, 3, 50, 2**31 - 1 - max(y, 0)])
                return [x, y, max(1, w), max(1, h)]
            return [ri(rng), ri(rng), ru(rng), ru(rng)]
        if k == 22:
            add([22] + irect() + irect())
        else:
            add([k] + irect() + [ri(rng), ri(rng)])
    for w, h in itertools.product(UT + [2**29 - 2, 536870911, 536870912], UT):
        add([30, w, h])
    for i in range(600 if tier == "quick" else 6000):
        w, h = rng.randint(0, 9), rng.randint(0, 9)
        ln = rng.choice([4 * w * h, 4 * w * h + 1, max(0, 4 * w * h - 1), 4 * w * h + 4, 4 * w * h + rng.randint(0, 40), 0])
        add([31, ln, w, h]); add([32, ln, w, h])
        if w and h:
            add([33, w, h, rng.choice([0, w - 1, w, w + 1, 2**32 - 1, rng.randint(0, w)]), rng.choice([0, h - 1, h, h + 1, 2**32 - 1, rng.randint(0, h)])])
            add([34, w, h, rng.randint(-3, w + 1), rng.randint(-3, h + 1), rng.randint(0, w + 3), rng.randint(0, h + 3)])
    add([31, 4, 2**29, 1]); add([32, 16, 2**30, 2**30]); add([32, 0, 2**32 - 1, 2**32 - 1])
    # Mask::from_vec: small sizes around the exact length, and sizes whose pixel count does not fit 32 bits with tiny buffers
    for i in range(200 if tier == "quick" else 2000):
        w, h = rng.randint(0, 9), rng.randint(0, 9)
        add([35, rng.choice([w * h, w * h + 1, max(0, w * h - 1), 0, w * h + rng.randint(0, 9)]), w, h])
    for w, h in [(65536, 65536), (65536, 65537), (2**32 - 1, 2**32 - 1), (2**31, 2), (2**16, 2**16 + 1), (2**32 - 1, 1), (3, 2**31)]:
        for ln in (0, 1, (w * h) % 2**32, 65536, 7):
            if ln <= 70000:
                add([35, ln, w, h])
    # NonZeroRect::from_xywh: boundary values, and positive sizes that the position absorbs (x + w == x in binary32)
    for t in itertools.product(ft[::2], repeat=4):
        add([36] + list(t))
    for i in range(200 if tier == "quick" else 2000):
        big = rng.choice([16777216.0, 1.0e8, 33554432.0, -1.0e8, 3.0e38, 8388608.0])
        tiny = rng.choice([0.5, 1.0, 0.25, 1.0e-3, 2.0, 4.0])
        x, y, w, h = rng.choice([(big, 0.0, tiny, 1.0), (0.0, big, 1.0, tiny), (big, big, tiny, tiny), (big, 1.0, tiny * 64, 1.0)])
        add([36, f2b(x), f2b(y), f2b(w), f2b(h)])
    # StrokeDash::new (the suite, model and oracle are C07's): random arrays, float extremes, and offsets that are exact
    # multiples of the period, where the normalised offset must land in [0, interval_len)
    for i in range(1500 if tier == "quick" else 20000):
        k = rng.random()
        if k < 0.4:
            cases.append(("dash_new", _c07.rand_dash(rng, rng.choice([1.0, 1.0, 1e-3, 1e4, 1e-20, 1e30]))))
        elif k < 0.7:
            n = rng.choice([2, 2, 4, 6])
            arr = [float(rng.choice([0, 1, 2, 3, 5, 8, 0.5, 0.25, 10, 1024])) for _ in range(n)]
            if sum(arr) == 0:
                arr[0] = 1.0
            sm = sum(arr)
            off = sm * rng.choice([1, -1, 2, -2, 3, 16, -16, 1024, 0.5, -0.5]) + rng.choice([0, 0, 0, arr[0], -arr[0]])
            cases.append(("dash_new", [_c07.f2b(off), n] + [_c07.f2b(a) for a in arr]))
        else:
            n = rng.choice([0, 1, 2, 2, 3, 4, 4, 5, 6, 12, 13])
            vals = [rng.choice(_c07.BOUNDARY_F32 + [_c07.f2b(1.0), _c07.f2b(2.0), _c07.f2b(0.5), 0, 0]) for _ in range(n)]
            cases.append(("dash_new", [rng.choice(_c07.BOUNDARY_F32 + [0, _c07.f2b(1.5), _c07.f2b(-1.5)]), n] + vals))
    return cases


def fin(b):
    return is_finite_bits(b)


def Q(b):
    return Fr(b2f(b))


def valid_rect_bits(o, strict=False):
    if len(o) != 4 or not all(fin(x) for x in o):
        return False
    l, t, r, b = [Q(x) for x in o]
    if strict:
        return l < r and t < b and r - l <= F32MAX and b - t <= F32MAX
    return l <= r and t <= b and r - l <= F32MAX and b - t <= F32MAX


BAND = Fr(2) ** 75   # the extent check is done in binary64: exact extents in (MAX, MAX + 2^75) are undecided


def in_band(o):
    if len(o) != 4 or not all(fin(x) for x in o):
        return False
    l, t, r, b = [Q(x) for x in o]
    return (F32MAX < r - l < F32MAX + BAND) or (F32MAX < b - t < F32MAX + BAND)


def valid_irect(o):
    if len(o) != 4:
        return False
    x, y, w, h = o
    return -2**31 <= x <= 2**31 - 1 and -2**31 <= y <= 2**31 - 1 and 1 <= w <= 2**31 - 1 and 1 <= h <= 2**31 - 1 \
        and x + w <= 2**31 - 1 and y + h <= 2**31 - 1


def oracle(suite, args, out):
    if suite == "dash_new":
            return _c07.oracle(suite, args, out)
    if out.startswith(("PANIC", "CRASH", "HANG")):
        return "panicked instead of returning None: " + out[:160]
    o = ints(out)
    k = args[0]
    a = args[1:]
    none = (o == [-1])
    if o == [-2] or o == [-3]:
        return None
    if k in (1, 3):
        doc = valid_rect_bits(a, strict=(k == 3))
        if in_band(a):
            return None
        if none == doc:
            return "%s returned %s but the documented guarantees %s" % ("from_ltrb", "None" if none else "Some", "hold" if doc else "do not hold")
        if not none and o != [x if not (x == NZERO and False) else x for x in a]:
            return "constructor changed its arguments"
        return None
    if k == 36:
        if not none and not valid_rect_bits(o, strict=True) and not in_band(o):
            return "NonZeroRect::from_xywh returned a rectangle whose width or height is not positive: %r" % [b2f(v) for v in o]
        return None
    if k == 2:
        if not none and not valid_rect_bits(o) and not in_band(o):
            return "from_xywh returned an invalid Rect"
        return None
    if k == 40:
        doc = all(fin(x) and 0 <= Q(x) <= 1 for x in a)
        if none == doc:
            return "Color::from_rgba returned %s for channels %r although %s" % ("None" if none else "Some", [b2f(x) for x in a], "all are in [0,1]" if doc else "one is outside [0,1] or not a number")
        if not none and [x & 0xffffffff for x in o] != [x & 0xffffffff for x in a]:
            return "Color::from_rgba changed a channel"
        return None
    if k == 4:
        doc = all(fin(x) and Q(x) > 0 for x in a)
        if none == doc:
            return "Size::from_wh acceptance differs from the documentation"
        return None
    if k in (5, 6, 7, 8):
        if none:
            return None
        if not valid_rect_bits(o) and not in_band(o):
            return "operation %d returned an invalid Rect %r" % (k, o)
        ra = [Q(x) for x in a[0:4]]
        c = [Q(x) for x in o]
        if k in (5, 6):
            rb = [Q(x) for x in a[4:8]]
            inside = lambda i, u: u[0] <= i[0] and u[1] <= i[1] and i[2] <= u[2] and i[3] <= u[3]
            if k == 5 and not (inside(c, ra) and inside(c, rb)):
                return "intersect is not contained in both operands"
            if k == 6 and not (inside(ra, c) or ra[0] == ra[2] or ra[1] == ra[3]):
                return "join does not contain the first operand"
            if k == 6 and not (inside(rb, c) or rb[0] == rb[2] or rb[1] == rb[3]):
                return "join does not contain the second operand"
        return None
    if k in (9, 10):
        if none:
            if k == 10:
                l, t, r, b = [Q(x) for x in a]
                import math
                fl, ft_, cr, cb = math.floor(l), math.floor(t), math.ceil(r), math.ceil(b)
                lim = 2147483520
                if -lim <= fl and -lim <= ft_ and cr <= lim and cb <= lim and cr - fl <= 2**31 - 1 and cb - ft_ <= 2**31 - 1 \
                        and fl + max(1, cr - fl) <= 2**31 - 1 and ft_ + max(1, cb - ft_) <= 2**31 - 1:
                    return "round_out returned None for a rect that has an i32 bounding rect"
            return None
        if not valid_irect(o):
            return "round/round_out returned an invalid IntRect %r" % o
        if k == 10:
            l, t, r, b = [Q(x) for x in a]
            if not (o[0] <= l and o[1] <= t and r <= o[0] + o[2] and b <= o[1] + o[3]):
                return "round_out %r does not contain the rect (%s, %s, %s, %s)" % (o, float(l), float(t), float(r), float(b))
        return None
    if k == 11:
        x = a[0]
        if not fin(x):
            return None
        import math
        lim = 2147483520
        cl = lambda v: max(-lim, min(lim, v))
        if o[0] != cl(math.floor(Q(x))) or o[1] != cl(math.ceil(Q(x))):
            return "saturate_floor/ceil wrong"
        return None
    if k == 20:
        x, y, w, h = a
        doc = 1 <= w <= 2**31 - 1 and 1 <= h <= 2**31 - 1 and x + w <= 2**31 - 1 and y + h <= 2**31 - 1
        if none == doc:
            return "IntRect::from_xywh acceptance differs from the documentation"
        return None
    if k in (21, 22, 23, 24, 25, 26):
        if none:
            return None
        if not valid_irect(o):
            return "operation %d returned an invalid IntRect %r" % (k, o)
        if k == 22:
            ra, rb = a[0:4], a[4:8]
            ins = lambda i, u: u[0] <= i[0] and u[1] <= i[1] and i[0] + i[2] <= u[0] + u[2] and i[1] + i[3] <= u[1] + u[3]
            if not (ins(o, ra) and ins(o, rb)):
                return "IntRect::intersect not contained in both"
        if k == 25 and o != [a[0] + a[4], a[1] + a[5], a[2], a[3]]:
            return "translate result is not the translated rect"
        if k == 23 and (o[0] != a[0] + a[4] or o[1] != a[1] + a[5]):
            return "inset result is not the inset rect"
        return None
    if k == 30:
        w, h = a
        doc = w >= 1 and h >= 1 and 4 * w <= 2**31 - 1
        if none == doc or (doc and o != [4 * w * h]):
            return "pixmap byte length differs from 4*w*h / documented limit"
        return None
    if k == 31:
        ln, w, h = a
        doc = w >= 1 and h >= 1 and ln == 4 * w * h
        if (o == [1]) != doc:
            return "Pixmap::from_vec acceptance differs from 'exact length'"
        return None
    if k == 35:
        ln, w, h = a
        doc = 1 <= w <= 2**32 - 1 and 1 <= h <= 2**32 - 1 and ln == w * h
        if (o == [1]) != doc:
            return "Mask::from_vec acceptance differs from 'exactly width * height bytes' (%d bytes for %dx%d: %s)" % (ln, w, h, "accepted" if o == [1] else "rejected")
        return None
    if k == 32:
        ln, w, h = a
        doc = w >= 1 and h >= 1 and 4 * w <= 2**31 - 1 and ln >= 4 * w * h
        if none == doc:
            return "PixmapRef::from_bytes acceptance differs from 'at least the needed length'"
        return None
    if k == 33:
        w, h, x, y = a
        doc = x < w and y < h
        if none == doc:
            return "pixel(%d,%d) on %dx%d returned %s" % (x, y, w, h, "None" if none else "Some")
        if doc and o != [(y * w + x) & 0xffffff]:
            return "pixel returned a different pixel than the addressed one"
        return None
    if k == 34:
        w, h, rx, ry, rw, rh = a
        x0, y0, x1, y1 = max(0, rx), max(0, ry), min(w, rx + rw), min(h, ry + rh)
        if none:
            if x0 < x1 and y0 < y1:
                return "clone_rect returned None for an overlapping rect"
            return None
        exp = [x1 - x0, y1 - y0] + [((y * w + x) & 0xffffff) for y in range(y0, y1) for x in range(x0, x1)]
        if o != exp:
            return "clone_rect did not return exactly the addressed pixels"
        return None
    return None


def nontrivial_tag(suite, args, out):
    if suite == "dash_new":
        return "dash_new:some" if len(out.split()) == 4 else None
    if out in ("-1", "-2", "-3"):
        return None
    return "fn%d:some" % args[0]


def relation(suite, args, mo, io):
    if mo == io:
        return True
    if suite == "dash_new":
        return False
    # -0/+0 produced by min/max in intersect/join: same rectangle
    if args[0] in (5, 6):
        a, b = mo.split(), io.split()
        z = {"0", str(NZERO)}
        return len(a) == len(b) and all(x == y or (x in z and y in z) for x, y in zip(a, b))
    return False
