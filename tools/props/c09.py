"""C09 — a pixel's result depends only on that pixel's own inputs."""
from .common import *
from .pxcommon import *
from . import c08

ID = "C09"
PROPS_FILES = ["Props/C09"]
ALL_FRAGMENTS = True
TRUSTED = c08.TRUSTED
ASSUMPTIONS = ["gather-based stages (patterns) rely on the sampler model of C16"]
RULE = ("metamorphic groups: one target pixel (destination, mask byte, paint, mode, pipeline, kind) placed in rows with "
        "different neighbours, span starts 0..40 and span lengths 1..40; the value written to the target must be "
        "identical across the group; non-trivial = the target pixel changed")

KNOWN_MODES = MASK_ZERO_WRITES


def f2b_(v):
    import struct
    return struct.unpack("<I", struct.pack("<f", v))[0]


def b2f_(b):
    import struct
    return struct.unpack("<f", struct.pack("<I", b))[0]


def tie_channels():
    """bit patterns of binary32 values x in (0, 1] with f32(x * 255) = k + 1/2 exactly"""
    out = []
    for k in range(0, 255):
        x = f32((k + 0.5) / 255.0)
        for d in (-1, 0, 1):
            b = f2b_(x) + d
            if f32(b2f_(b) * 255.0) == k + 0.5:
                out.append(b)
    return out


def gen_cases(rng, tier):
    cases = []
    groups = 500 if tier == "quick" else 8000
    for g in range(groups):
        mode = rng.randrange(29)
        hq = rng.random() < 0.4
        kind = rng.choice([0, 0, 1])
        has_mask = rng.random() < 0.4
        color = rand_color(rng)
        tgt = rand_premul(rng) + ((rng.choice([0, 0, 255, rng.randint(0, 255)]) if has_mask else 255),)
        extra = [rng.choice([1, 128, 254, rng.randint(1, 254)])] if kind == 1 else []
        for v in range(6):
            left = rng.randint(0, 40)
            right = rng.randint(0, 40)
            nb = lambda: rand_premul(rng) + ((rng.choice([0, 255, rng.randint(0, 255)]) if has_mask else 255),)
            row = [nb() for _ in range(left)] + [tgt] + [nb() for _ in range(right)]
            x0 = rng.randint(0, left)
            ln = rng.randint(left - x0 + 1, len(row) - x0)
            cs, args = px_case(kind, mode, hq, False, color, has_mask, x0, ln, row, extra)
            cases.append((cs, args + [-777, g, left]))   # trailing tag: group id, target index (ignored by the runners)
    # per-lane selects (Overlay, HardLight, Darken, Lighten, Difference, ... pick a formula branch or a min/max per pixel): the target
    # at every lane of a 16-wide low-precision batch, its neighbours on the other side of the fork (dark against bright)
    for g in range(128 if tier == "quick" else 1280):
        mode = [15, 20, 15, 20, 16, 17, 22, 23][(g // 16) % 8]
        lane = g % 16
        color = rand_color(rng)
        dark = rng.random() < 0.5
        a_t = rng.choice([255, 255, 200, 128])
        tv = rng.randint(0, a_t // 3) if dark else rng.randint(2 * a_t // 3, a_t)
        tgt = (tv, rng.choice([tv, a_t - tv]), tv, a_t, 255)
        def other():
            a_o = rng.choice([255, 255, 160])
            ov = rng.randint(2 * a_o // 3, a_o) if dark else rng.randint(0, a_o // 3)
            return (ov, ov, rng.choice([ov, a_o - ov]), a_o, 255)
        for v in range(4):
            x0 = rng.choice([0, 0, 3, 16])
            left = x0 + lane + 16 * rng.choice([0, 0, 1])
            right = rng.randint(2, 20)
            row = [other() if v else tgt for _ in range(left)] + [tgt] + [other() if v else tgt for _ in range(right)]
            ln = len(row) - x0 if v % 2 == 0 else left - x0 + 1 + rng.randint(0, right)
            cs, args = px_case(0, mode, False, False, color, False, x0, ln, row, [])
            cases.append((cs, args + [-777, 7 * 10**8 + g, left]))
    # an opaque colour through the high-precision pipeline with a mask: the mask makes the source translucent PER PIXEL; the first
    # pixel of the span (lane 0 of a batch) has mask 255 in some members of the group and something else in others
    for g in range(60 if tier == "quick" else 800):
        mode = rng.choice([3, 3, 3, 1, 4, rng.randrange(29)])
        color = tuple(rand_color(rng)[:3]) + (255,)
        tgt = rand_premul(rng) + (rng.choice([1, 100, 128, 200, 254]),)
        for v in range(5):
            x0 = rng.choice([0, 0, 3, 8])
            left = x0 + rng.randint(1, 9)
            right = rng.randint(0, 10)
            nb = lambda: rand_premul(rng) + (rng.choice([0, 255, 255, rng.randint(1, 254)]),)
            row = [nb() for _ in range(left)] + [tgt] + [nb() for _ in range(right)]
            row[x0] = row[x0][:4] + ((255,) if v % 2 == 0 else (rng.choice([0, 128, 254]),))
            cs, args = px_case(0, mode, True, False, color, True, x0, len(row) - x0, row, [])
            cases.append((cs, args + [-777, 8 * 10**8 + g, left]))
    # float colours whose premultiplied channel times 255 is an exact tie k + 1/2 in binary32 (8-bit colours never are):
    # the rounding of the store must not depend on whether the pixel falls in a full batch or in the tail of the span
    ties = tie_channels()
    for g in range(60 if tier == "quick" else 600):
        mode = rng.choice([1, 1, 11, 4, 13, 14, 24, 3, rng.randrange(25)])
        hq = rng.random() < 0.8
        has_mask = rng.random() < 0.3
        alpha = rng.choice([1.0, 1.0, 0.5])
        chans = []
        for _ in range(3):
            t = rng.choice(ties)
            # with alpha 0.5 the channel is doubled so that the premultiplied value is the tie again
            chans.append(f2b_(min(1.0, b2f_(t) / alpha)) if b2f_(t) / alpha <= 1.0 else t)
        color = tuple(chans) + (f2b_(alpha),)
        tgt = (0, 0, 0, 0, 255) if rng.random() < 0.7 else rand_premul(rng) + (255,)
        for v in range(6):
            left = rng.randint(0, 24)
            right = rng.randint(0, 24)
            nb = lambda: rand_premul(rng) + ((rng.choice([0, 255, rng.randint(0, 255)]) if has_mask else 255),)
            row = [nb() for _ in range(left)] + [tgt] + [nb() for _ in range(right)]
            x0 = rng.randint(0, left)
            ln = rng.randint(left - x0 + 1, len(row) - x0)
            cs, args = px_case(0, mode, hq, False, color, has_mask, x0, ln, row, [])
            cases.append((cs, args + [-777, 2 * 10**8 + g, left]))
    # mask bytes OUTSIDE the span: the target and every other pixel of the span have mask 0 (the batch is skipped as a whole);
    # what the mask holds beyond the end of the span must not matter
    for g in range(60 if tier == "quick" else 600):
        mode = rng.choice([0, 1, 5, 6, 7, 10, 13, rng.randrange(29)])
        hq = rng.random() < 0.5
        color = rand_color(rng)
        tgt = rand_premul(rng) + (0,)
        span_len = rng.randint(1, 7)
        pos = rng.randrange(span_len)
        for v in range(5):
            left = rng.choice([0, 0, 8, 16, rng.randint(0, 20)])
            right = rng.randint(1, 20)
            inside = [rand_premul(rng) + (0,) for _ in range(span_len)]
            inside[pos] = tgt
            out_mask = (lambda: 0) if v == 0 else (lambda: rng.choice([255, 255, 1, rng.randint(0, 255)]))
            row = [rand_premul(rng) + (out_mask(),) for _ in range(left)] + inside + [rand_premul(rng) + (out_mask(),) for _ in range(right)]
            cs, args = px_case(0, mode, hq, False, color, True, left, span_len, row, [])
            cases.append((cs, args + [-777, 3 * 10**8 + g, left + pos]))
    # blit_anti_h2 pairs: the target is the SECOND pixel of the pair; its own coverage is fixed, the first pixel's coverage varies
    for g in range(80 if tier == "quick" else 1000):
        mode = rng.choice([1, 3, 3, rng.randrange(29)])
        hq = rng.random() < 0.6
        color = rand_color(rng)
        if rng.random() < 0.5:
            color = tuple(color[:3]) + (255,)
        tgt = rand_premul(rng) + (255,)
        a1 = rng.choice([1, 64, 128, 200, 254, rng.randint(1, 254)])
        for v in range(5):
            left = rng.randint(1, 12)
            right = rng.randint(0, 12)
            row = [rand_premul(rng) + (255,) for _ in range(left)] + [tgt] + [rand_premul(rng) + (255,) for _ in range(right)]
            a0 = rng.choice([0, 255, 1, rng.randint(0, 255)])
            cs, args = px_case(3, mode, hq, True, color, False, left - 1, 2, row, [a0, a1])
            cases.append((cs, args + [-777, 4 * 10**8 + g, left]))
    # the same partially covered pixel through blit_v (a one-column row) and through blit_anti_h (longer rows), every colour space
    for g in range(60 if tier == "quick" else 800):
        cspace = rng.choice([0, 1, 2, 3])
        mode = rng.choice([1, 3, 3, 3, rng.randrange(29)])
        col = list(rand_color(rng))
        if rng.random() < 0.6:
            col[3] = 255
        dst = rand_premul(rng) if rng.random() < 0.5 else rng.choice([(128, 128, 128, 255), (200, 60, 90, 255), (10, 20, 30, 40)])
        fr = rng.choice([250, 500, 750, 100, 900])
        hq = int(rng.random() < 0.4)
        for wdt in (1, 2, 3, 8, 17, 40):
            cases.append(("cs_span", [cspace, mode, hq] + col + list(dst) + [fr, wdt, -777, 5 * 10**8 + g, 0]))
    # tiled, multi-row draws (pixmap wider than 8191, three rows): the target sits in the narrow last tile column;
    # its neighbours' destination and mask bytes vary, and one member of the group is an untiled pixmap
    for g in range(4 if tier == "quick" else 40):
        mode = rng.choice([3, 3, 4, 11, 12, 14, 24, rng.randrange(29)])
        has_mask = rng.random() < 0.8
        color = rand_color(rng)
        tgt = rand_premul(rng) + ((rng.choice([0, 255, 255, rng.randint(0, 255)]) if has_mask else 255),)
        nb = lambda: rand_premul(rng) + ((rng.choice([0, 255, rng.randint(0, 255)]) if has_mask else 255),)
        for v in range(4):
            if v == 3:
                left = rng.randint(0, 30)
                row = [nb() for _ in range(left)] + [tgt] + [nb() for _ in range(rng.randint(0, 30))]
                t = left
                x0, ln = 0, len(row)
            else:
                w = rng.choice([8200, 8210, 8230])
                t = rng.randint(8192, w - 1)
                row = [(0, 0, 0, 0, rng.choice([0, 255]) if has_mask else 255)] * 8150 + [nb() for _ in range(w - 8150)]
                row[t] = tgt
                x0 = rng.choice([0, 8100, 8192])
                ln = w - x0
            cs, args = px_case(6, mode, False, False, color, has_mask, x0, ln, row, [])
            cases.append((cs, args + [-777, 10**8 + g, t]))
    return cases


def oracle(suite, args, out):
    if out.startswith(("PANIC", "CRASH", "HANG")):
        return "implementation did not return: " + out[:200]
    return None


def post_oracle(cases, outs):
    groups = {}
    for i, (s, a) in enumerate(cases):
        if len(a) < 3 or a[-3] != -777:
            continue
        g, t = a[-2], a[-1]
        if s == "cs_span":
            val = outs[i].strip()
        else:
            c = decode(a[:-3])
            o = decode_out(outs[i], c["w"]) if outs[i] and outs[i][0].isdigit() else None
            val = tuple(o[t]) if o else outs[i].strip()
        groups.setdefault(g, []).append((i, val))
    bad = []
    for g, lst in groups.items():
        vals = set(v for _, v in lst)
        if len(vals) > 1 and cases[lst[0][0]][0] == "cs_span":
            # different blit primitives convert the coverage byte to a float in different ways (alpha / 255 against
            # alpha * (1 / 255)): one level of rounding is not a dependence on the neighbours
            try:
                vv = [tuple(int(t) for t in v.split()) for v in vals]
                if all(len(t) == 4 for t in vv) and max(max(t[k] for t in vv) - min(t[k] for t in vv) for k in range(4)) <= 1:
                    continue
            except ValueError:
                pass
        if len(vals) > 1:
            # one entry per member: a listed finding covers a group only if the model reproduces every member of it
            for i, _ in lst:
                bad.append((i, "target pixel written as %s depending on neighbours / span position" % sorted(vals)[:3]))
    return bad


def known_class(suite, args, out, what):
    if suite == "cs_span":
        return None
    a = args[:-3] if len(args) >= 3 and args[-3] == -777 else args
    c = decode(a)
    if c["has_mask"] and MODES[c["mode"]] in KNOWN_MODES:
        return "C10-mask-scales-source"
    return None


def relation(suite, args, mo, io):
    if suite == "cs_span":
        return mo.strip() == "-9"
    return c08.relation(suite, args, mo, io)


def nontrivial_tag(suite, args, out):
    if suite == "cs_span":
        return "cs-span:%d" % args[0]
    return c08.nontrivial_tag(suite, args[:-3] if len(args) >= 3 and args[-3] == -777 else args, out)


def search(ctx, vp, known):
    """An obligation broke (typically the px correspondence) and no metamorphic group caught it: take the pixels on which
    the implementation left the model and look for a dependence on the neighbours directly - redraw the same pixel alone,
    with all neighbours replaced by copies of itself, and with the span start moved - and compare the value written."""
    tried = 0
    for m in getattr(ctx, "mismatches", []):
        if m["suite"] != "px" or tried >= 60:
            continue
        a = m["args"][:-3] if len(m["args"]) >= 3 and m["args"][-3] == -777 else m["args"]
        c = decode(a)
        if c["kind"] not in (0, 1):
            continue
        io = decode_out(m["impl"], c["w"]) if m["impl"] and m["impl"][0].isdigit() else None
        mo = decode_out(m["model"], c["w"]) if m["model"] and m["model"][0].isdigit() else None
        if not io or not mo:
            continue
        for j in range(c["x0"], min(c["w"], c["x0"] + c["len"])):
            if io[j] == mo[j] or tried >= 60:
                continue
            tried += 1
            tgt = c["row"][j]
            variants = []
            # the pixel alone in its span
            variants.append(px_case(c["kind"], c["mode"], c["hq"], c["aa"], c["color"], c["has_mask"], j, 1, c["row"], c["extra"]))
            # every neighbour a copy of the target
            variants.append(px_case(c["kind"], c["mode"], c["hq"], c["aa"], c["color"], c["has_mask"], c["x0"], c["len"], [tgt] * c["w"], c["extra"]))
            # the span starting one pixel later / at the pixel itself
            if j > c["x0"]:
                variants.append(px_case(c["kind"], c["mode"], c["hq"], c["aa"], c["color"], c["has_mask"], c["x0"] + 1, c["len"] - 1, c["row"], c["extra"]))
                variants.append(px_case(c["kind"], c["mode"], c["hq"], c["aa"], c["color"], c["has_mask"], j, c["x0"] + c["len"] - j, c["row"], c["extra"]))
            lines = [vp.case_line(s_, a_) for s_, a_ in variants]
            outs = vp.run_lines(vp.harness_exe(m["profile"]), lines, shards=1)
            for (s_, a_), o in zip(variants, outs):
                vo = decode_out(o, c["w"]) if o and o[0].isdigit() else None
                if vo and vo[j] != io[j]:
                    what = ("pixel %d is written as %s in this row and as %s when the same pixel (same destination, mask, paint, mode) is drawn "
                            "with other neighbours / another span start" % (j, io[j], vo[j]))
                    if known_class("px", a, m["impl"], what):
                        continue
                    return {"kind": "property-group", "profile": m["profile"], "suite": "px", "args": a, "impl": m["impl"], "what": what,
                            "companion": {"suite": s_, "args": a_, "impl": o}, "found_by": "search after broken obligation"}
    return None
