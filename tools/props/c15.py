"""C15 — gradients colour each pixel by interpolating the stops at the geometric t."""
import math
from .common import *
from .geomgen import IDENT

ID = "C15"
PROPS_FILES = ["Props/C15"]
FRAGMENTS = ["gradient-stage"]
TRUSTED = [
    "Coq 8.16.1 kernel; Flocq binary32",
    "Model/Gradient.v: bit-exact GradientStop::new / Gradient::new (tied through the Debug output of the shader), ideal factor/bias and tiling functions over Q",
    "harness/src/c15.rs f64 oracle: geometric t at the pixel centre, tiling, piecewise-linear interpolation of the sanitised stops, premultiply, composite",
]
ASSUMPTIONS = [
    "the float pipeline stages (seed_shader, transform, xy_to_radius, 2pt-conical, gradient search, premul, store) are tied to the ideal functions by the oracle only (partial)",
    "non-linear colour spaces are in the oracle for opaque stops drawn with Source only (exact transfer functions, 5e-4 slack in linear light for the pipeline's polynomial pow)",
]
RULE = ("(a) Gradient::new on 2..8 stops with equal, unsorted, out-of-range, hard-stop, NaN/inf positions: sanitised list, has_uniform_stops, colors_are_opaque bit-exact; "
        "(b) linear / radial / two-point conical (focal inside, on, outside the circle) fills x 3 spread modes x lowp/highp x Source/SourceOver on 3 backgrounds x transforms: "
        "every pixel within 2/255 (hq) or 3/255 (lowp) of the reference range over a +-0.06 px box, undefined conical pixels untouched, degenerate inputs solid / None without panic")


def rand_stops(rng, n=None):
    n = n or rng.choice([2, 2, 3, 3, 4, 5, 8])
    kind = rng.random()
    if kind < 0.3:
        pos = [i / (n - 1) for i in range(n)]
    elif kind < 0.5:
        pos = sorted(rng.choice([0.0, 0.25, 0.5, 0.5, 0.75, 1.0, rng.random()]) for _ in range(n))
    elif kind < 0.65:   # hard stop at 0 or 1, repeated positions
        pos = sorted(rng.choice([0.0, 0.0, 1.0, 1.0, 0.5]) for _ in range(n))
    elif kind < 0.8:    # unsorted / out of range
        pos = [rng.choice([rng.uniform(-0.5, 1.5), rng.random(), 0.0, 1.0]) for _ in range(n)]
    else:
        pos = sorted(rng.random() for _ in range(n))
    opaque = rng.random() < 0.4
    out = [n]
    for p in pos:
        a = 1.0 if opaque else rng.choice([1.0, 0.0, 0.5, rng.random()])
        out += [f2b(p), f2b(rng.choice([0.0, 1.0, rng.random()])), f2b(rng.random()), f2b(rng.choice([0.0, 1.0, rng.random()])), f2b(a)]
    return out


def rand_ts(rng):
    k = rng.random()
    if k < 0.5:
        return list(IDENT)
    if k < 0.65:
        return [f2b(1.0), 0, 0, f2b(1.0), f2b(rng.uniform(-8, 8)), f2b(rng.uniform(-8, 8))]
    if k < 0.8:
        return [f2b(rng.choice([0.5, 2.0, -1.0, 1.5])), 0, 0, f2b(rng.choice([0.75, 1.25, -1.0])), f2b(rng.uniform(-4, 30)), f2b(rng.uniform(-4, 30))]
    a = rng.uniform(0, 6.28)
    s = rng.choice([1.0, 0.7, 1.8])
    return [f2b(s * math.cos(a)), f2b(-s * math.sin(a)), f2b(s * math.sin(a)), f2b(s * math.cos(a)), f2b(rng.uniform(0, 25)), f2b(rng.uniform(0, 25))]


def micro_interval_cases(rng, n):
    out = []
    for i in range(n):
        w, h = 33, 4
        c = rng.randint(3, 29)
        tc = (c + 0.5) / 32.0
        gaps = rng.choice([(5e-5, 1e-5, 1.2e-5), (4e-5, 0.5e-5, 2e-5), (8e-5, 2e-5, 1e-5), (3.5e-5, 1.5e-5, 1.5e-5)])
        pos = [0.0, tc - gaps[0], tc - gaps[1], tc + gaps[2], 1.0]
        cols = []
        for k in range(5):
            a = rng.choice([0.25, 1.0, 0.1, 0.6]) if k != 2 else rng.choice([1.0, 0.25])
            cols.append((rng.choice([0.0, 1.0]), rng.choice([0.0, 1.0, 0.5]), rng.choice([0.0, 1.0]), a))
        st = [5]
        for p_, cl in zip(pos, cols):
            st += [f2b(p_)] + [f2b(v) for v in cl]
        out.append(("grad_px", [0, f2b(0.0), f2b(1.0), f2b(32.0), f2b(1.0), f2b(1.0), rng.randrange(3), int(rng.random() < 0.5),
                                rng.randrange(2), rng.randrange(3), w, h] + list(IDENT) + st))
    return out


def gen_cases(rng, tier):
    cases = []
    q = tier == "quick"
    for i in range(3000 if q else 40000):
        st = rand_stops(rng)
        if rng.random() < 0.1:   # boundary bit patterns as positions
            n = st[0]
            for k in range(n):
                if rng.random() < 0.4:
                    st[1 + 5 * k] = rng.choice(BOUNDARY_F32)
        cases.append(("grad_new", st))
    for i in range(1200 if q else 16000):
        w, h = rng.choice([(24, 20), (33, 9), (16, 16)])
        kind = rng.choice([0, 0, 1, 2, 2])
        x0, y0 = rng.uniform(-4, w + 4), rng.uniform(-4, h + 4)
        rad = rng.choice([3.0, 8.0, 15.5, rng.uniform(1, 25)])
        if kind == 0:
            k = rng.random()
            if k < 0.08:    # degenerate: start == end or nearly
                x1, y1 = x0 + rng.choice([0.0, 1e-6, 2e-5]), y0
            else:
                x1, y1 = rng.uniform(-4, w + 4), rng.uniform(-4, h + 4)
        elif kind == 1:
            x1, y1 = x0, y0
        else:
            k = rng.random()
            if k < 0.3:
                # focal point exactly on the end circle: everything on a 1/4 grid so that |end - start| == radius in f32
                x0, y0, rad = round(x0 * 4) / 4, round(y0 * 4) / 4, rng.choice([3.0, 8.0, 15.5, 6.25])
                x1, y1 = rng.choice([(x0 + rad, y0), (x0 - rad, y0), (x0, y0 + rad), (x0, y0 - rad)])
            else:
                a = rng.uniform(0, 6.28)
                d = rad * rng.choice([0.0, 0.3, 0.8, 0.9, 1.1, 1.3, 2.5])   # focal inside / outside the circle, not within 2% of it
                x1, y1 = x0 + d * math.cos(a), y0 + d * math.sin(a)
                if rng.random() < 0.3:
                    x1, y1 = x0 + d, y0
        cases.append(("grad_px", [kind, f2b(round(x0, 4)), f2b(round(y0, 4)), f2b(round(x1, 4)) if abs(x1 - x0) > 1e-3 or kind != 0 else f2b(x1), f2b(round(y1, 4)),
                                  f2b(rad), rng.randrange(3), int(rng.random() < 0.5), rng.randrange(2) + 2 * rng.choice([0, 0, 0, 1, 2, 3]), rng.randrange(3) + 3 * rng.choice([0, 0, 0, 1, 2, 3]), w, h] + rand_ts(rng) + rand_stops(rng)))
    # stops a few 1e-5 apart around the t of one pixel column (intervals just above and just below 1/32768), translucent and
    # contrasting colours: the colour of that column is still an interpolation of its own interval, never an extrapolation
    cases += micro_interval_cases(rng, 40 if q else 500)
    # linear gradients a few 1e-5 .. 1e-3 units long: valid (longer than DEGENERATE_THRESHOLD = 1/32768), either drawn as they
    # are (a step at the start point for Pad) or magnified by the shader transform so that they span 8..24 pixels
    for i in range(60 if q else 800):
        w, h = 24, 20
        d = rng.choice([4.5e-5, 6e-5, 1e-4, 2e-4, 2.4e-4, 5e-4, 1e-3])
        a = rng.uniform(0, 6.28) if rng.random() < 0.5 else 0.0
        if i % 2 == 0:
            x0, y0 = rng.uniform(4, 20), rng.uniform(4, 16)
            ts = list(IDENT)
        else:
            x0, y0 = rng.uniform(0, 4) * d, rng.uniform(0, 4) * d
            sc = rng.choice([8.0, 16.0, 24.0]) / d
            ts = [f2b(sc), 0, 0, f2b(sc), f2b(rng.uniform(2, 10)), f2b(rng.uniform(2, 10))]
        x1, y1 = x0 + d * math.cos(a), y0 + d * math.sin(a)
        cases.append(("grad_px", [0, f2b(x0), f2b(y0), f2b(x1), f2b(y1), f2b(1.0), rng.randrange(3), int(rng.random() < 0.5),
                                  rng.randrange(2), rng.randrange(3), w, h] + ts + rand_stops(rng)))
    # two-point conical gradients whose focal point lies within 1/4096 (relative) of the end circle, on either side: whichever
    # formula is used, the pixels behind the focal point are undefined and must stay untouched
    for i in range(40 if q else 500):
        w, h = rng.choice([(24, 20), (33, 9), (40, 40)])
        rad = rng.choice([8.0, 15.5, 28.28, 6.25])
        eps = rng.choice([5e-5, 1e-4, 2e-4, 1.5e-4]) * rng.choice([1, 1, -1])
        d = rad / (1.0 - eps)
        a = rng.choice([0.0, math.pi / 4, math.pi / 2, rng.uniform(0, 6.28)])
        x0, y0 = rng.uniform(4, w - 4), rng.uniform(4, h - 4)
        x1, y1 = x0 + d * math.cos(a), y0 + d * math.sin(a)
        cases.append(("grad_px", [2, f2b(x0), f2b(y0), f2b(x1), f2b(y1), f2b(rad), rng.randrange(3), int(rng.random() < 0.5), rng.randrange(2), rng.randrange(3), w, h]
                      + list(IDENT) + rand_stops(rng)))
    # non-linear colour spaces (Paint::colorspace): opaque stops drawn with Source; the stops are expanded, interpolated in
    # linear light and the result compressed
    for i in range(150 if q else 2000):
        w, h = rng.choice([(24, 20), (33, 9)])
        kind = rng.choice([0, 0, 1])
        x0, y0 = rng.uniform(-2, 6), rng.uniform(-2, h)
        x1, y1 = rng.uniform(w - 8, w + 2), rng.uniform(-2, h)
        st = rand_stops(rng, rng.choice([2, 3, 3, 4, 5]))
        for k in range(st[0]):
            st[5 + 5 * k] = f2b(1.0)
            if rng.random() < 0.5:   # mid-range channel values, where the transfer curve matters most
                for j in (2, 3, 4):
                    st[j + 5 * k] = f2b(rng.choice([0.25, 0.5, 0.75, rng.uniform(0.1, 0.9)]))
        if rng.random() < 0.4 and st[0] >= 3:
            # an explicit first stop at 0 (no implicit one) with a mid-grey colour
            st[1] = f2b(0.0)
        cs = rng.choice([1, 2, 3])
        cases.append(("grad_px", [kind, f2b(round(x0, 3)), f2b(round(y0, 3)), f2b(round(x1, 3)), f2b(round(y1, 3)), f2b(rng.choice([8.0, 15.5, 20.0])),
                                  rng.randrange(3), 1 + 2 * cs, 0, rng.randrange(3), w, h] + list(IDENT) + st))
    # degenerate linear gradients (start == end up to 2e-5): the last colour under Pad, the average colour over a period
    # under Repeat / Reflect, including stop lists whose first position is above 0 or whose last is below 1
    for i in range(150 if q else 2000):
        w, h = 8, 6
        x0, y0 = rng.choice([0.0, 3.0, 2.5]), rng.choice([0.0, 1.0])
        x1 = x0 + rng.choice([0.0, 1.0e-5, 2.0e-5]) if x0 == 0.0 else x0
        n = rng.choice([2, 2, 3, 4])
        pos = sorted(rng.choice([0.0, 0.2, 0.25, 0.4, 0.5, 0.6, 0.8, 1.0, rng.random()]) for _ in range(n))
        if rng.random() < 0.5:
            pos[0] = rng.choice([0.2, 0.4, 0.5]); pos = sorted(pos)
        st = [n]
        opaque = rng.random() < 0.5
        for p_ in pos:
            st += [f2b(p_), f2b(rng.choice([0.0, 1.0, rng.random()])), f2b(rng.random()), f2b(rng.choice([0.0, 1.0, rng.random()])),
                   f2b(1.0 if opaque else rng.choice([1.0, 0.5, rng.random()]))]
        cases.append(("grad_px", [0, f2b(x0), f2b(y0), f2b(x1), f2b(y0), f2b(1.0), rng.randrange(3), int(rng.random() < 0.5),
                                  rng.randrange(2) + 2 * rng.choice([0, 0, 3]), rng.randrange(3), w, h] + list(IDENT) + st))
    return cases


def oracle(suite, args, out):
    if out.startswith(("PANIC", "CRASH", "HANG")):
        return "implementation did not return: " + out[:200]
    o = ints(out)
    if suite == "grad_new":
        if len(o) >= 3 and o[0] >= 0:
            m = o[2]
            pos = [b2f(o[3 + 5 * k]) for k in range(m)]
            if pos[0] != 0.0 or pos[-1] != 1.0 or any(pos[k] > pos[k + 1] for k in range(m - 1)):
                return "sanitised stop positions are not bracketed by 0 and 1 and monotonic: %r" % pos
        return None
    if len(o) >= 11 and o[9] == 0 and o[10] > 0:
        return "%d pixels are not valid premultiplied colours (a colour channel above alpha)" % o[10]
    if len(o) >= 10 and o[9] == 0:
        if o[8] > 0:
            return "%d pixels where the conical gradient is undefined were changed (first (%d,%d))" % (o[8], o[3], o[4])
        if o[1] > 0 and len(o) >= 12 and o[11] == 1:
            return "degenerate linear gradient: %d of %d pixels differ from the documented solid colour (last stop under Pad, average over a period under Repeat/Reflect) by more than the tolerance (worst %.2f/255; first (%d,%d) channel %d got*1000+expected %d)" % (
                o[1], o[0], o[2] / 100.0, o[3], o[4], o[5], o[6])
        if o[1] > 0:
            return "%d of %d pixels differ from the gradient colour by more than the tolerance (worst %.2f/255; first (%d,%d) channel %d got/expected %d)" % (
                o[1], o[0], o[2] / 100.0, o[3], o[4], o[5], o[6])
    return None


def relation(suite, args, mo, io):
    if mo == io:
        return True
    if suite == "grad_px":
        return mo.strip() == "-9"
    return io.strip() == "-4" and mo.strip() != ""   # invalid colour: rejected before the model is reached


def nontrivial_tag(suite, args, out):
    o = out.split()
    if suite == "grad_new":
        return "stops%s" % o[2] if len(o) > 3 else None
    if len(o) >= 12 and o[11] == "1" and o[0] != "0":
        return "degenerate-solid-judged"
    if len(o) >= 10 and o[0] not in ("0", "-3", "-4") and (args[7] >> 1) % 4 != 0:
        return "colorspace%d" % ((args[7] >> 1) % 4)
    return "kind%d" % args[0] if len(o) >= 10 and o[0] not in ("0", "-3", "-4") else None
