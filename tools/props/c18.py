"""C18 — transforms compose, invert and apply consistently across the API."""
import itertools
from fractions import Fraction as Fr
from .common import *

ID = "C18"
PROPS_FILES = ["Props/C18"]
TRUSTED = [
    "Coq 8.16.1 kernel; Flocq 4.1.0 binary32/binary64",
    "hand-written bit-exact Model/Transform.v (classification, map_point, concat incl. f64 mul_add_mul, invert incl. f64 determinant) tied by the c18 correspondence",
    "Model/TransformQ.v: the ideal affine algebra (spec)",
]
ASSUMPTIONS = [
    "float error of the general inverse is not a theorem: the oracle checks the round trip under a relative tolerance",
    "draw-with-transform == draw-pre-transformed is a metamorphic check of the implementation (the code implements exactly that reduction); stroke_path under a transform is covered in C05",
]
RULE = ("Transform::invert / concat / map_point / classification on all 6-tuples drawn from a boundary table (0, -0, 1, tiny, "
        "huge, inf, NaN, fractions) plus random well- and ill-conditioned matrices, bit-exact against the model; oracle: "
        "Some => finite and round trip within tolerance, None only for (near-)singular or non-finite matrices, "
        "concat == sequential map_point; metamorphic fill_path/Mask::fill_path pixel equality; non-trivial = invert returned Some")

VALS = [0, NZERO, f2b(1.0), f2b(-1.0), f2b(0.5), f2b(2.0), f2b(1e-30), f2b(1e20), f2b(3.7), f2b(-0.3), INF, NAN, 1, MAXF]


def rt(rng):
    k = rng.random()
    if k < 0.25:   # scale/translate
        return [rv(rng), 0, 0, rv(rng), rv(rng), rv(rng)]
    if k < 0.35:   # translate
        return [f2b(1.0), 0, 0, f2b(1.0), rv(rng), rv(rng)]
    if k < 0.45:
        return [f2b(1.0), 0, 0, f2b(1.0), 0, 0]
    if k < 0.8:
        return [f2b(rng.uniform(-3, 3)) for _ in range(4)] + [f2b(rng.uniform(-50, 50)) for _ in range(2)]
    return [rv(rng) for _ in range(6)]


def rv(rng):
    return rng.choice(VALS) if rng.random() < 0.5 else f2b(rng.uniform(-10, 10))


IDENT6 = [f2b(1.0), 0, 0, f2b(1.0), 0, 0]


def gen_cases(rng, tier):
    cases = []
    n = 4000 if tier == "quick" else 60000
    for i in range(n):
        t = rt(rng)
        cases.append(("c18", [1] + t))
        cases.append(("c18", [4] + t))
        if i % 2 == 0:
            cases.append(("c18", [2] + t + rt(rng)))
        cases.append(("c18", [3] + t + [rv(rng), rv(rng)]))
    # tiny skews (a rotation of a few thousandths of a degree, a shear of 1e-4): still a skew, for every entry point
    for i in range(300 if tier == "quick" else 4000):
        sk = lambda: rng.choice([0.0, 1e-4, -2e-4, 5e-5, 2.4e-4, 1e-6, -1e-5])
        kx, ky = sk(), sk()
        if kx == 0.0 and ky == 0.0:
            kx = 1e-4
        t = [f2b(rng.choice([1.0, 1.0, 2.0, 0.5, 3.7])), f2b(kx), f2b(ky), f2b(rng.choice([1.0, 1.0, 2.0, 0.5, -1.0])),
             f2b(rng.choice([0.0, rng.uniform(-50, 50)])), f2b(rng.choice([0.0, rng.uniform(-50, 50)]))]
        cases.append(("c18", [1] + t))
        cases.append(("c18", [4] + t))
        cases.append(("c18", [2] + t + rt(rng)))
        cases.append(("c18", [2] + rt(rng) + t))
        cases.append(("c18", [3] + t + [f2b(rng.uniform(-4000, 4000)), f2b(rng.uniform(-4000, 4000))]))
    # near-singular: rows almost parallel
    for i in range(300):
        a, b = rng.uniform(-2, 2), rng.uniform(-2, 2)
        k = rng.uniform(-2, 2)
        eps = rng.choice([0, 1e-9, 1e-7, 1e-5, 1e-3])
        cases.append(("c18", [1, f2b(a), f2b(b), f2b(k * a), f2b(k * b + eps), f2b(1.0), f2b(2.0)]))
    m = 150 if tier == "quick" else 3000
    for i in range(m):
        t = [f2b(rng.uniform(0.3, 2.5)), f2b(rng.uniform(-1, 1)), f2b(rng.uniform(-1, 1)), f2b(rng.uniform(0.3, 2.5)),
             f2b(rng.uniform(-5, 15)), f2b(rng.uniform(-5, 15))]
        if i % 3 == 0:
            t[1] = t[2] = 0
        pts = []
        for _ in range(rng.randint(3, 6)):
            pts += [f2b(rng.uniform(0, 25)), f2b(rng.uniform(0, 25))]
        cases.append(("c18", [6] + t + [i % 2] + pts))
    for i in range(m):
        kind = i % 4
        if kind == 0:
            t = [f2b(1.0), f2b(rng.uniform(-9, 9)), f2b(rng.uniform(-2, 2)), f2b(1.0), f2b(rng.uniform(0, 10)), f2b(rng.uniform(0, 10))]
        elif kind == 1:
            t = [f2b(rng.uniform(0.3, 4)), 0, 0, f2b(rng.uniform(0.3, 4)), f2b(rng.uniform(0, 10)), f2b(rng.uniform(0, 10))]
        elif kind == 2:
            t = [f2b(1.0), 0, 0, f2b(1.0), f2b(rng.uniform(0, 10)), f2b(rng.uniform(0, 10))]
        else:
            t = [f2b(rng.uniform(-2, 2)) for _ in range(4)] + [f2b(rng.uniform(10, 30)), f2b(rng.uniform(10, 30))]
        pts = [f2b(rng.uniform(2, 8)), f2b(rng.uniform(2, 8))]
        for _ in range(rng.randint(1, 2)):
            pts += [f2b(rng.uniform(0, 12)) for _ in range(6)]
        cases.append(("c18", [7] + t + [f2b(rng.choice([1.5, 3.0, 6.0])), i % 2] + pts))
    # fn 6 under axis-aligned mirrors and negative scales without skew (the bounds of the mapped path must be rebuilt from its
    # points: mapping the two corners of the old bounds gives them in the wrong order)
    for i in range(24 if tier == "quick" else 240):
        sxv, syv = [(-1.0, 1.0), (1.0, -1.0), (-1.0, -1.0), (-2.0, 0.5), (0.5, -1.5), (-0.75, -0.75)][i % 6]
        t = [f2b(sxv), 0, 0, f2b(syv), f2b(39.0 if sxv < 0 else 1.0), f2b(39.0 if syv < 0 else 1.0)]
        n = rng.randint(3, 6)
        lim = lambda sc: 36.0 / abs(sc)
        pts = []
        for _ in range(n):
            pts += [f2b(round(rng.uniform(1, lim(sxv)), 2)), f2b(round(rng.uniform(1, lim(syv)), 2))]
        cases.append(("c18", [6] + t + [i % 2] + pts))
    # fn 10: dashed strokes of curves under magnification (the dasher's curve measuring depends on the resolution scale too)
    for i in range(40 if tier == "quick" else 500):
        sc = rng.choice([8.0, 20.0, 30.0, 1.0, 0.5])
        ang = rng.choice([0.0, 0.0, rng.uniform(0, 6.28)])
        t = [f2b(sc * math.cos(ang)), f2b(-sc * math.sin(ang)), f2b(sc * math.sin(ang)), f2b(sc * math.cos(ang)), f2b(48.0 if ang else 4.0), f2b(48.0 if ang else 4.0)]
        ext = 88.0 / sc if not ang else 40.0 / sc
        P = lambda: ((rng.uniform(-1, 1) if ang else rng.uniform(0, 1)) * ext, (rng.uniform(-1, 1) if ang else rng.uniform(0, 1)) * ext)
        p0 = P()
        pts = [f2b(p0[0]), f2b(p0[1])]
        for _ in range(rng.randint(1, 2)):
            for _ in range(3):
                q = P(); pts += [f2b(q[0]), f2b(q[1])]
        width = rng.choice([1.5, 3.0, 5.0]) / sc
        cases.append(("c18", [10] + t + [f2b(width), i % 2, f2b(rng.choice([6.0, 10.0, 3.0]) / sc), f2b(rng.choice([4.0, 7.0]) / sc)] + pts))
    # pre_concat / post_concat of matrices with an exact unit diagonal (shears and translations): nothing may be dropped
    for i in range(60 if tier == "quick" else 600):
        def unit():
            k = rng.random()
            return [f2b(1.0), f2b(0.0 if k < 0.3 else rng.choice([0.5, -0.25, 2.0, rng.uniform(-2, 2)])), f2b(0.0 if 0.2 < k < 0.5 else rng.choice([0.25, -1.5, rng.uniform(-2, 2)])),
                    f2b(1.0), f2b(rng.choice([0.0, 10.0, -3.5])), f2b(rng.choice([0.0, 20.0, 7.25]))]
        cases.append(("c18", [2] + unit() + unit()))
    # fn 7 under shears and squeezes in which ONE row of the matrix is much longer than the other (y-shear, x-shear, thin
    # squeeze): the stroker's precision must follow the longer row; geometry placed so that the picture stays in 64 x 64
    for i in range(60 if tier == "quick" else 800):
        kind = i % 4
        big = rng.choice([12.0, 30.0, 40.0])
        if kind == 0:      # y' = big * x + y: x within [0.1, 1.4]
            t = [f2b(1.0), 0, f2b(big), f2b(1.0), f2b(rng.uniform(20, 30)), f2b(2.0)]
            P = lambda: (rng.uniform(0.1, 1.4), rng.uniform(0, 12))
        elif kind == 1:    # x' = x + big * y
            t = [f2b(1.0), f2b(big), 0, f2b(1.0), f2b(2.0), f2b(rng.uniform(20, 30))]
            P = lambda: (rng.uniform(0, 12), rng.uniform(0.1, 1.4))
        elif kind == 2:    # squeeze: (x, y) -> (0.02 x + y, 0.02 y) + t
            t = [f2b(0.02), f2b(1.0), 0, f2b(0.02), f2b(4.0), f2b(20.0)]
            P = lambda: (rng.uniform(0, 400), rng.uniform(0, 50))
        else:
            t = [f2b(0.02), 0, f2b(1.0), f2b(0.02), f2b(20.0), f2b(4.0)]
            P = lambda: (rng.uniform(0, 50), rng.uniform(0, 400))
        p0 = P()
        pts = [f2b(p0[0]), f2b(p0[1])]
        for _ in range(rng.randint(1, 2)):
            for _ in range(3):
                q = P(); pts += [f2b(q[0]), f2b(q[1])]
        width = rng.choice([1.5, 3.0, 6.0]) if kind < 2 else rng.choice([60.0, 150.0])
        cases.append(("c18", [7] + t + [f2b(width), i % 2] + pts))
    # fn 6 at extreme magnitudes: a tiny path scaled up / a huge path scaled down to a few pixels
    for i in range(60 if tier == "quick" else 800):
        if i % 2 == 0:
            u = rng.choice([2e-4, 1e-4, 2.4e-4, 1e-6])
            sc = rng.uniform(8, 30) / u
            t = [f2b(sc), 0, 0, f2b(sc), f2b(rng.uniform(0, 8)), f2b(rng.uniform(0, 8))]
            if i % 4 == 0:
                t = [0, f2b(sc), f2b(-sc), 0, f2b(rng.uniform(30, 38)), f2b(rng.uniform(0, 8))]
            pts = [f2b(v) for v in (0.0, 0.0, u, 0.0, u, u * rng.uniform(0.5, 1.0), 0.0, u)]
        else:
            u = rng.choice([2e38, 1e38, 3e37])
            sc = rng.uniform(8, 30) / u
            t = [f2b(sc), 0, 0, f2b(sc), f2b(rng.uniform(0, 8)), f2b(rng.uniform(0, 8))]
            pts = [f2b(v) for v in (0.0, 0.0, u, 0.0, u, u * rng.uniform(0.5, 1.0), 0.0, u)]
        cases.append(("c18", [6] + t + [(i // 2) % 2] + pts))
    # fn 8: fill_rect / draw_pixmap with a shader under whole-pixel translations, fractional translations, scales
    for i in range(200 if tier == "quick" else 3000):
        k = i % 4
        if k == 0:
            t = [f2b(1.0), 0, 0, f2b(1.0), f2b(float(rng.randint(-5, 20))), f2b(float(rng.randint(-5, 15)))]
        elif k == 1:
            t = [f2b(1.0), 0, 0, f2b(1.0), f2b(rng.uniform(-5, 20)), f2b(rng.uniform(-5, 15))]
        elif k == 2:
            t = [f2b(rng.choice([2.0, 0.5, 1.5])), 0, 0, f2b(rng.choice([1.0, 2.0])), f2b(float(rng.randint(0, 10))), f2b(float(rng.randint(0, 10)))]
        else:
            t = list(IDENT6)
        cases.append(("c18", [8] + t + [rng.randrange(2), rng.randint(-3, 20), rng.randint(-3, 15), rng.randint(1, 25), rng.randint(1, 20), int(rng.random() < 0.3)]))
    # fn 9: strokes (hairlines, thin anti-aliased, thick) with solid / gradient / pattern paints under exact similarity
    # transforms: mirrors, quarter turns, point reflection, optionally x2, whole-pixel translations
    for i in range(240 if tier == "quick" else 3000):
        sc = rng.choice([1.0, 1.0, 2.0])
        lin = rng.choice([(1, 0, 0, 1), (-1, 0, 0, 1), (1, 0, 0, -1), (-1, 0, 0, -1), (0, 1, -1, 0), (0, -1, 1, 0), (0, 1, 1, 0), (0, -1, -1, 0)])
        sx, ky, kx, sy = [v * sc for v in lin]     # the argument order of the suite: sx ky kx sy tx ty
        pts = [(float(rng.randint(3, 24)), float(rng.randint(3, 24))) for _ in range(rng.randint(2, 4))]
        if sc == 2.0:
            pts = [(x / 2, y / 2) for x, y in pts]
        # translate so that the mapped points fall inside the 64 x 64 pixmap
        mx = [sx * x + kx * y for x, y in pts]; my = [ky * x + sy * y for x, y in pts]
        tx, ty = float(8 - int(min(mx))), float(8 - int(min(my)))
        width = rng.choice([0.0, 0.0, 0.4, 0.8, 1.0, 1.5, 1.9, 3.0, 6.0]) / sc
        aa = 1 if (rng.random() < 0.7 or width * sc < 1.0) else 0
        shader = rng.randrange(4) + 4 * rng.randrange(3)
        t = [f2b(sx), f2b(kx), f2b(ky), f2b(sy), f2b(tx), f2b(ty)]
        cases.append(("c18", [9] + t + [f2b(width), aa, shader, f2b(sc)] + [f2b(v) for p in pts for v in p]))
    return cases


def F(bits):
    return Fr(b2f(bits))


def oracle(suite, args, out):
    if out.startswith(("PANIC", "CRASH", "HANG")):
        return "implementation did not return: " + out[:200]
    o = ints(out)
    k = args[0]
    if k == 1:
        t = args[1:7]
        fin = all(is_finite_bits(x) for x in t)
        if o == [-1]:
            if not fin:
                return None
            sx, kx, ky, sy = F(t[0]), F(t[1]), F(t[2]), F(t[3])
            det = sx * sy - kx * ky
            scale = max(abs(sx), abs(kx), abs(ky), abs(sy), Fr(1, 10**30))
            # None is fine for singular / nearly singular (the documented tolerance is |det| <= (1/4096)^3) or when the inverse overflows
            if abs(det) <= Fr(1, 4096) ** 3 * 2 or abs(det) < scale * scale * Fr(1, 10**6):
                return None
            inv_big = max(abs(x) for x in (sx, kx, ky, sy, F(t[4]), F(t[5]))) / abs(det)
            if inv_big > Fr(10) ** 37:
                return None
            return "invert returned None for a well-conditioned finite matrix (det %.3g)" % float(det)
        if not all(is_finite_bits(x) for x in o):
            return "invert returned Some with a non-finite entry: %r" % [b2f(x) for x in o]
        if not fin:
            return "invert returned Some for a non-finite matrix"
        # round trip on a few points, relative tolerance
        sx, kx, ky, sy, tx, ty = [F(x) for x in t]
        isx, ikx, iky, isy, itx, ity = [F(x) for x in o]
        det = sx * sy - kx * ky
        if det == 0:
            return "invert returned Some for a singular matrix"
        norm = max(abs(sx), abs(kx), abs(ky), abs(sy))
        inorm = max(abs(isx), abs(ikx), abs(iky), abs(isy))
        cond = norm * inorm
        for (x, y) in ((Fr(1), Fr(0)), (Fr(0), Fr(1)), (Fr(3), Fr(-2))):
            mx, my = x * sx + y * kx + tx, x * ky + y * sy + ty
            bx, by = mx * isx + my * ikx + itx, mx * iky + my * isy + ity
            tol = Fr(1, 10**4) * max(1, cond) * (1 + abs(mx) * inorm + abs(my) * inorm + abs(itx) + abs(ity))
            if abs(bx - x) > tol or abs(by - y) > tol:
                return "round trip through invert misses (%s,%s) by (%.3g, %.3g) (cond %.3g)" % (x, y, float(bx - x), float(by - y), float(cond))
        return None
    if k == 2:
        a, b = args[1:7], args[7:13]
        if not all(is_finite_bits(x) for x in a + b + o):
            return None
        A = [F(x) for x in a]; B = [F(x) for x in b]; C = [F(x) for x in o]
        m = lambda T, p: (p[0] * T[0] + p[1] * T[1] + T[4], p[0] * T[2] + p[1] * T[3] + T[5])
        for p in ((Fr(1), Fr(0)), (Fr(0), Fr(1)), (Fr(2), Fr(5))):
            e = m(A, m(B, p)); g = m(C, p)
            mag = 1 + sum(abs(v) for v in e) + max(abs(v) for v in A) * max(abs(v) for v in B) * 8
            if abs(e[0] - g[0]) > mag * Fr(1, 10**5) or abs(e[1] - g[1]) > mag * Fr(1, 10**5):
                return "pre_concat(a,b) maps %s to %s but a(b(p)) = %s" % (p, [float(v) for v in g], [float(v) for v in e])
        return None
    if k == 3:
        if o == [-7]:
            return "map_points disagrees with map_point"
        t = args[1:7]
        if len(o) == 2 and all(is_finite_bits(x) for x in list(t) + list(args[7:9]) + o):
            sx, kx, ky, sy, tx, ty = [F(x) for x in t]
            x, y = F(args[7]), F(args[8])
            ex, ey = x * sx + y * kx + tx, x * ky + y * sy + ty
            mag = abs(x * sx) + abs(y * kx) + abs(tx) + abs(x * ky) + abs(y * sy) + abs(ty)
            if mag < Fr(10) ** 30 and (abs(F(o[0]) - ex) > mag * Fr(1, 10**5) + Fr(1, 10**30) or abs(F(o[1]) - ey) > mag * Fr(1, 10**5) + Fr(1, 10**30)):
                return "map_point maps (%g, %g) to (%g, %g), the matrix gives (%g, %g)" % (float(x), float(y), b2f(o[0]), b2f(o[1]), float(ex), float(ey))
        return None
    if k == 7:
        # strokes thinner than a pixel in device space are drawn as coverage-modulated hairlines when anti-aliasing
        # (painter.rs treat_as_hairline): not comparable with the filled outline, and C06's subject
        sx, kx, ky, sy = [b2f(v) for v in args[1:5]]
        w = b2f(args[7])
        def fast_len(x, y):
            x, y = abs(x), abs(y)
            if x < y:
                x, y = y, x
            return x + y / 2
        if args[8] and fast_len(sx * w, ky * w) <= 1.02 and fast_len(kx * w, sy * w) <= 1.02:
            return None
        if o and o[0] > 0:
            return "stroke_path with the transform differs from filling path.stroke(stroke, resolution_scale(ts)) under it in %d bytes" % o[0]
        return None
    if k == 10:
        sx, kx, ky, sy = [b2f(v) for v in args[1:5]]
        w = b2f(args[7])
        # thinner than a pixel in device space with anti-aliasing: drawn as a hairline (see fn 7)
        if args[8] and max(abs(sx), abs(kx), abs(ky), abs(sy)) * w <= 1.1:
            return None
        if o and o[0] > 0:
            return "a dashed stroke_path with the transform differs from filling path.dash(d, rs).stroke(s, rs) under it in %d bytes" % o[0]
        return None
    if k == 6:
        if o and o[0] > 0:
            return "drawing with the transform differs from drawing the pre-transformed path in %d bytes" % o[0]
        return None
    if k == 9:
        if len(o) >= 3 and o[0] > 0:
            return "stroke_path with the transform differs from stroking the pre-transformed path with the shader moved along in %d bytes (worst %d levels)" % (o[0], o[2])
        return None
    if k == 8:
        if o and o[0] > 0:
            return "%s with a transform differs from the same geometry drawn as a path / with the offset folded into the transform in %d bytes (the shader does not follow the transform)" % (
                "draw_pixmap" if args[12] else "fill_rect", o[0])
        return None
    return None


def relation(suite, args, mo, io):
    if mo == io or mo.strip() == "-9":
        return True
    # sign of a zero produced by products with 0 matters not
    a, b = mo.split(), io.split()
    z = {"0", str(NZERO)}
    return len(a) == len(b) and all(x == y or (x in z and y in z) for x, y in zip(a, b))


def nontrivial_tag(suite, args, out):
    if args[0] == 1 and out not in ("-1",):
        return "invert:some"
    if args[0] in (6, 7, 8, 9, 10):
        return "draw%d" % args[0]
    if args[0] in (2, 3):
        return "fn%d" % args[0]
    return None
