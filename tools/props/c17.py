"""C17 — PNG export and import round-trip pixmaps and reject bad input gracefully."""
from .common import *

ID = "C17"
PROPS_FILES = ["Props/C17", "Props/FixedPoint"]
FRAGMENTS = ["fixed-point"]
TRUSTED = [
    "Coq 8.16.1 kernel (vm_compute); Flocq 4.1.0 binary64 for demultiply",
    "hand-written Model/Png.v (premultiply_u8, demultiply, colour-type expansion) tied by the exhaustive c17 correspondence",
    "the `png` crate is an abstract lossless codec (Section hypothesis codec_lossless): its losslessness on 8-bit RGBA / grey is ASSUMED in the theorem and exercised by the real-codec round trips of the harness",
]
ASSUMPTIONS = [
    "robustness of the png dependency against malformed streams is exploration (truncated / bit-flipped files), not a theorem",
    "16-bit samples are reduced by the dependency (high byte); palette images are expanded by it",
]
RULE = ("exhaustive: all 32 896 premultiplied channel pairs through demultiply and all 65 536 pairs through premultiply; "
        "random premultiplied pixmaps / masks of every size <= 17x17 through the real codec; PNGs of colour type grey / "
        "grey-alpha / RGB / RGBA at 8 and 16 bit and palette produced by the png encoder with arbitrary straight-alpha "
        "pixels (also alpha 0 with colour); truncated and bit-flipped streams; non-trivial = decode returned pixels")


def gen_cases(rng, tier):
    cases = []
    add = lambda a: cases.append(("c17", a))
    for a in range(256):
        step = 1 if tier != "quick" else 1
        for c in range(0, a + 1, step):
            add([1, c, (c * 7) % (a + 1), (c * 3) % (a + 1), a])
    for a in range(256):
        for c in range(256):
            if tier != "quick" or (c + a) % 2 == 0 or c in (229, 255, 0) or a in (0, 152, 255):
                add([2, c, 255 - c if False else (c * 5) % 256, (c + a) % 256, a])
    n = 300 if tier == "quick" else 5000
    for i in range(n):
        w, h = rng.randint(1, 17), rng.randint(1, 17)
        px = []
        for _ in range(w * h):
            a = rng.choice([0, 255, 1, 128, rng.randint(0, 255)])
            px += [rng.randint(0, a), rng.randint(0, a), rng.randint(0, a), a]
        add([3, w, h] + px)
        add([6, w, h] + [rng.randint(0, 255) for _ in range(w * h)])
    # chains: every pixel is the demultiplied value of its left neighbour taken as premultiplied bytes again (same alpha),
    # runs of equal pixels and alternations: encode_png must treat every pixel on its own (no state carried along a row)
    for i in range(120 if tier == "quick" else 2000):
        w, h = rng.randint(2, 12), rng.randint(1, 4)
        px = []
        while len(px) < 4 * w * h:
            a = rng.choice([128, 128, 200, 254, 64, 16, rng.randint(2, 254)])
            c = [rng.randint(0, max(0, a * a // 255 // 2)) for _ in range(3)]
            for _ in range(rng.randint(2, 5)):
                px += c + [a]
                if rng.random() < 0.3:
                    px += c + [a]          # a run of two equal pixels
                nc = [int(v / (a / 255.0) + 0.5) for v in c]
                if max(nc) > a:
                    break
                c = nc
        add([3, w, h] + px[:4 * w * h])
    for i in range(n):
        ct = rng.choice([0, 2, 4, 6])
        ch = {0: 1, 2: 3, 4: 2, 6: 4}[ct]
        w, h = rng.randint(1, 9), rng.randint(1, 9)
        if i % 3 == 0:
            add([7, ct, w, h] + [rng.choice([0, 65535, 255, 256, rng.randint(0, 65535)]) for _ in range(w * h * ch)])
        else:
            data = []
            for _ in range(w * h):
                s = [rng.choice([0, 255, 200, 229, rng.randint(0, 255)]) for _ in range(ch)]
                if ct in (4, 6) and rng.random() < 0.3:
                    s[-1] = rng.choice([0, 152, 1, 254])
                data += s
            add([4, ct, w, h] + data)
    # hand-built 8-bit files of every colour type, Adam7-interlaced and not (the encoder dependency writes no interlaced files)
    for i in range(160 if tier == "quick" else 2400):
        ct = rng.choice([0, 2, 4, 6])
        ch = {0: 1, 2: 3, 4: 2, 6: 4}[ct]
        w, h = rng.choice([(1, 1), (2, 2), (3, 5), (5, 3), (8, 8), (9, 9), (1, 9), (9, 1), (rng.randint(1, 12), rng.randint(1, 12))])
        data = []
        for _ in range(w * h):
            sm = [rng.choice([0, 255, 200, 229, rng.randint(0, 255)]) for _ in range(ch)]
            if ct in (4, 6) and rng.random() < 0.3:
                sm[-1] = rng.choice([0, 152, 1, 254])
            data += sm
        add([10, ct, w, h, i % 2] + data)
    for i in range(n // 3):
        w, h, np_ = rng.randint(1, 6), rng.randint(1, 6), rng.randint(1, 8)
        add([8, w, h, np_] + [rng.randint(0, 255) for _ in range(3 * np_)] + [rng.randrange(np_) for _ in range(w * h)])
    # grey / RGB files with a tRNS colour key (the decoder dependency expands the key into an alpha channel)
    for i in range(n // 3):
        ct = rng.choice([0, 2])
        ch = 1 if ct == 0 else 3
        w, h = rng.randint(1, 6), rng.randint(1, 5)
        key = [rng.choice([0, 255, 7, 200]) for _ in range(ch)]
        data = []
        for _ in range(w * h):
            data += key if rng.random() < 0.4 else [rng.choice([0, 255, 7, 200, rng.randint(0, 255)]) for _ in range(ch)]
        add([9, ct, w, h] + key + data)
    # an APNG whose first frame (fcTL before IDAT) is smaller than the canvas: must be Err or a pixmap, never a panic
    for i in range(12 if tier == "quick" else 100):
        add([5] + apng_small_first_frame(rng))
    # one flipped bit in a valid file: Err, or the pixels of the intact file (never another picture)
    intact = png_bytes()
    for i in range(400 if tier == "quick" else 6000):
        add([11, rng.randrange(len(intact)), rng.randrange(8)] + list(intact))
    # malformed streams: random bytes, and a valid PNG truncated / bit-flipped
    valid = png_bytes()
    for i in range(n):
        k = i % 4
        if k == 0:
            add([5] + [rng.randint(0, 255) for _ in range(rng.randint(0, 80))])
        elif k == 1:
            add([5] + valid[:rng.randint(0, len(valid))])
        elif k == 2:
            b = list(valid); j = rng.randrange(len(b)); b[j] ^= 1 << rng.randrange(8)
            add([5] + b)
        else:
            b = list(valid)
            for _ in range(rng.randint(1, 6)):
                b[rng.randrange(len(b))] = rng.randint(0, 255)
            add([5] + b)
    return cases


def png_bytes():
    import zlib, struct
    def chunk(t, d):
        return struct.pack(">I", len(d)) + t + d + struct.pack(">I", zlib.crc32(t + d) & 0xffffffff)
    w, h = 3, 2
    raw = b"".join(b"\x00" + bytes([10 * x + y, 20, 30, 200]) * 1 for y in range(h) for x in range(1)) 
    raw = b"".join(b"\x00" + b"".join(bytes([10 * x + y, 20, 30, 200]) for x in range(w)) for y in range(h))
    data = b"\x89PNG\r\n\x1a\n" + chunk(b"IHDR", struct.pack(">IIBBBBB", w, h, 8, 6, 0, 0, 0)) + chunk(b"IDAT", zlib.compress(raw)) + chunk(b"IEND", b"")
    return list(data)


def apng_small_first_frame(rng):
    import zlib, struct
    def chunk(t, d):
        return struct.pack(">I", len(d)) + t + d + struct.pack(">I", zlib.crc32(t + d) & 0xffffffff)
    ct = rng.choice([0, 2, 4, 6])
    ch = {0: 1, 2: 3, 4: 2, 6: 4}[ct]
    W, H = rng.randint(2, 6), rng.randint(2, 6)
    fw, fh = rng.randint(1, W - 1), rng.randint(1, H)
    raw = b"".join(b"\x00" + bytes(rng.randint(0, 255) for _ in range(fw * ch)) for _ in range(fh))
    fctl = struct.pack(">IIIIIHHBB", 0, fw, fh, 0, 0, 1, 10, 0, 0)
    data = (b"\x89PNG\r\n\x1a\n" + chunk(b"IHDR", struct.pack(">IIBBBBB", W, H, 8, ct, 0, 0, 0)) + chunk(b"acTL", struct.pack(">II", 1, 0)) +
            chunk(b"fcTL", fctl) + chunk(b"IDAT", zlib.compress(raw)) + chunk(b"IEND", b""))
    return list(data)


def pm(c, a):
    prod = c * a + 128
    return ((prod + (prod >> 8)) >> 8) & 255


def oracle(suite, args, out):
    if out.startswith(("PANIC", "CRASH", "HANG")):
        return "implementation did not return (must be Err, never a panic): " + out[:200]
    o = ints(out)
    k = args[0]
    if k == 1:
        if o == [-2]:
            return None
        r, g, b, a = args[1:5]
        back = [pm(o[0], a), pm(o[1], a), pm(o[2], a), o[3]]
        if back != [r, g, b, a]:
            return "demultiply(%r) = %r does not premultiply back (%r)" % ((r, g, b, a), o, back)
        return None
    if k == 2:
        r, g, b, a = args[1:5]
        exp = [(2 * c * a + 255) // 510 for c in (r, g, b)] + [a]
        if o != exp:
            return "premultiply(%r) = %r, round(c*a/255) = %r" % ((r, g, b, a), o, exp)
        return None
    if k == 3:
        if o != args[3:]:
            return "decode_png(encode_png(p)) != p"
        return None
    if k == 6:
        if o != args[3:]:
            return "mask decode(encode(m)) != m"
        return None
    if k in (4, 7, 10):
        if o == [-1]:
            return "decoding a valid %d-bit %sPNG of colour type %d failed" % (16 if k == 7 else 8, "interlaced " if k == 10 and args[4] else "", args[1])
        if o == [-4]:
            return "the decoded pixmap has another size than the file"
        ct = args[1]; ch = {0: 1, 2: 3, 4: 2, 6: 4}[ct]
        vals = args[4:] if k == 4 else (args[5:] if k == 10 else [v >> 8 for v in args[4:]])
        exp = []
        for i in range(0, len(vals), ch):
            s = vals[i:i + ch]
            if ct == 0: r, g, b, a = s[0], s[0], s[0], 255
            elif ct == 2: r, g, b, a = s[0], s[1], s[2], 255
            elif ct == 4: r, g, b, a = s[0], s[0], s[0], s[1]
            else: r, g, b, a = s
            exp += [(2 * c * a + 255) // 510 for c in (r, g, b)] + [a]
        if o != exp:
            j = [i for i in range(min(len(o), len(exp))) if o[i] != exp[i]]
            return "decoded pixels differ from round(c*a/255) at byte %s: got %s expected %s" % (j[:1], o[j[0] // 4 * 4:j[0] // 4 * 4 + 4] if j else o[:4], exp[j[0] // 4 * 4:j[0] // 4 * 4 + 4] if j else exp[:4])
        return None
    if k == 11:
        if o == [2]:
            return "a PNG with bit %d of byte %d flipped decodes to a different picture instead of Err" % (args[2] % 8, args[1])
        return None
    if k == 9:
        if o == [-1]:
            return "decoding a valid grey / RGB PNG with a tRNS colour key failed"
        if o == [-3]:
            return None
        ct = args[1]; ch = 1 if ct == 0 else 3
        key = args[4:4 + ch]; vals = args[4 + ch:]
        exp = []
        for i in range(0, len(vals), ch):
            s_ = vals[i:i + ch]
            if s_ == key:
                exp += [0, 0, 0, 0]
            else:
                exp += ([s_[0]] * 3 if ct == 0 else s_) + [255]
        if o != exp:
            j = [i for i in range(min(len(o), len(exp))) if o[i] != exp[i]]
            return "tRNS colour key: decoded pixels differ from the premultiplied expectation at byte %s: got %s expected %s" % (
                j[:1], o[j[0] // 4 * 4:j[0] // 4 * 4 + 4] if j else o[:4], exp[j[0] // 4 * 4:j[0] // 4 * 4 + 4] if j else exp[:4])
        return None
    if k == 8:
        if o == [-1]:
            return None
        w, h, np_ = args[1:4]
        pal = args[4:4 + 3 * np_]; idx = args[4 + 3 * np_:]
        exp = []
        for i in idx:
            exp += pal[3 * i:3 * i + 3] + [255]
        if o != exp:
            return "palette PNG decoded to wrong colours"
        return None
    return None


def relation(suite, args, mo, io):
    return mo == io or mo.strip() == "-9"


def nontrivial_tag(suite, args, out):
    if out.strip() in ("-1", "-2", "-3") or args[0] == 5:
        return None
    return "fn%d" % args[0]
