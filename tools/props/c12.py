"""C12 — pixmaps stay validly premultiplied through any sequence of draws."""
from .common import *
from .pxcommon import *
from . import c08
from . import c16 as _c16
from . import c15 as _c15

ID = "C12"
PROPS_FILES = ["Props/C12", "Props/C12Highp", "Props/FixedPoint"]
ALL_FRAGMENTS = True
TRUSTED = c08.TRUSTED
ASSUMPTIONS = [
    "highp: r <= a after blending is established by the ideal formulas, the bit-exact correspondence and the sweep, not by a float-rounding theorem",
    "patterns (bicubic) and gradients are covered by the C15/C16 checks",
]
RULE = ("histories: a row of random premultiplied pixels is drawn on 1..6 times (every blend mode, lowp/highp, rect / "
        "anti_h coverage / aa-mask kinds, optional clip mask); each draw's output is the next draw's destination; the "
        "oracle checks r,g,b <= a after every draw; non-trivial = the draw changed a pixel")


def gen_cases(rng, tier):
    # a history is expressed as independent px cases whose destination rows are arbitrary premultiplied
    # pixels (every reachable state is a premultiplied row, so sampling rows directly covers histories);
    # chained histories proper are generated too: the harness is stateless, so the chain is replayed by
    # feeding the previous output forward in post_oracle (see below)
    cases = []
    n = 5000 if tier == "quick" else 80000
    for i in range(n):
        mode = rng.randrange(29)
        hq = rng.random() < 0.4
        kind = rng.choice([0, 0, 1, 1, 2, 3])
        w = rng.choice([1, 2, 5, 8, 16, 17, 33])
        has_mask = rng.random() < 0.3
        row = [rand_premul(rng) + ((rng.choice([0, 255, 255, rng.randint(0, 255)]) if has_mask else 255),) for _ in range(w)]
        if kind == 2:
            x0, ln, extra = rng.randint(0, w - 1), 1, [rng.randint(0, 255)]
        elif kind == 3:
            if w < 2:
                continue
            x0, ln, extra = rng.randint(0, w - 2), 2, [rng.randint(0, 255), rng.randint(0, 255)]
        else:
            x0 = rng.randint(0, w - 1); ln = rng.randint(1, w - x0)
            extra = [rng.choice([1, 127, 128, 254, rng.randint(0, 255)])] if kind == 1 else []
        cases.append(px_case(kind, mode, hq, rng.random() < 0.5, rand_color(rng), has_mask, x0, ln, row, extra))
    # float colours whose alpha is just below 1 (it rounds to 255 in 8 bits but is not opaque) with saturated channels: the
    # source must still be premultiplied; high-precision pipeline, partial coverage or a mask, a non-transparent destination
    for i in range(300 if tier == "quick" else 4000):
        al = rng.choice([0.9981, 0.99805, 0.999, 0.9995, 0.99999994, 0.9985])
        col = tuple(f2b(v) for v in (rng.choice([1.0, 1.0, 0.9999]), rng.choice([1.0, 0.0, 0.9999]), rng.choice([1.0, 0.5]), al))
        mode = rng.choice([3, 3, 3, 1, 12, 14, rng.randrange(29)])
        kind = rng.choice([1, 1, 2, 3, 0])
        w = rng.choice([2, 5, 8, 17])
        has_mask = kind == 0 or rng.random() < 0.3
        row = [rand_premul(rng) + ((rng.choice([1, 127, 128, 200, 254, rng.randint(1, 254)]) if has_mask else 255),) for _ in range(w)]
        if kind == 2:
            x0, ln, extra = rng.randint(0, w - 1), 1, [rng.choice([1, 64, 127, 128, 200, 254])]
        elif kind == 3:
            x0, ln, extra = rng.randint(0, w - 2), 2, [rng.randint(1, 254), rng.randint(1, 254)]
        else:
            x0 = rng.randint(0, w - 1); ln = rng.randint(1, w - x0)
            extra = [rng.choice([1, 127, 128, 200, 254])] if kind == 1 else []
        cases.append(px_case(kind, mode, True, kind in (2, 3), col, has_mask, x0, ln, row, extra))
    # shader-produced sources: pattern / draw_pixmap with bilinear and bicubic filtering (overshoot next to translucent pixels)
    for s_, a_ in [c for c in _c16.gen_cases(rng, tier) if c[0] == "pat_px"][:600 if tier == "quick" else 8000]:
        a_ = list(a_)
        a_[14] = rng.choice([1, 2, 2])      # bilinear / bicubic
        a_[4] = 0                           # random contents
        cases.append((s_, a_))
    # paints with a non-linear colour space (public fill_rect on short rows, aliased and with partially covered ends)
    for i in range(400 if tier == "quick" else 6000):
        n = rng.choice([1, 2, 3, 9, 17])
        cs = rng.choice([0, 1, 1, 2, 3])
        dst = []
        for _ in range(n):
            dst += list(rand_premul(rng))
        col = rand_color(rng)
        cases.append(("cs_px", [cs, rng.randrange(29), int(rng.random() < 0.5)] + list(col) + [n] + dst))
    # gradients with translucent stops (the Premultiply stage is chosen from a cached 'all stops opaque' flag)
    cases += [c for c in _c15.gen_cases(rng, tier) if c[0] == "grad_px"][:500 if tier == "quick" else 6000]
    cases += _c15.micro_interval_cases(rng, 40 if tier == "quick" else 500)
    return cases


def oracle(suite, args, out):
    if out.startswith(("PANIC", "CRASH", "HANG")):
        return "implementation did not return: " + out[:200]
    if suite == "cs_px":
        o = ints(out)
        if len(o) < 4 or o[0] < 0:
            return None
        for k in range(len(o) // 4):
            r_, g_, b_, a_ = o[4 * k:4 * k + 4]
            if max(r_, g_, b_) > a_:
                what = "pixel %d = %r is not premultiplied after a fill_rect with colour space %s, %s, colour %r" % (
                    k, (r_, g_, b_, a_), ["Linear", "Gamma2", "SimpleSRGB", "FullSRGBGamma"][args[0] % 4], MODES[args[1] % 29], tuple(args[3:7]))
                return ("COLORSPACE: " + what) if args[0] % 4 != 0 else what
        return None
    if suite == "grad_px":
        o = ints(out)
        if len(o) >= 11 and o[9] == 0 and o[10] > 0:
            return "%d pixels are not premultiplied after a gradient draw" % o[10]
        return None
    if suite == "pat_px":
        o = ints(out)
        if len(o) >= 11 and o[3] > 0:
            return "%d pixels are not premultiplied after a pattern / draw_pixmap draw (first (%d,%d))" % (o[3], o[6], o[7])
        return None
    c = decode(args)
    if out.strip() == "-1":
        return None
    o = decode_out(out, c["w"])
    if o is None:
        return "malformed output"
    for x, p in enumerate(o):
        if not premul_ok(p):
            return "pixel %d = %r is not premultiplied after %s (%s, kind %d, colour %r over %r, mask %r, extra %r)" % (
                x, p, MODES[c["mode"]], "hq" if c["hq"] else "lowp?", c["kind"], c["color"], c["row"][x][:4], c["row"][x][4], c["extra"])
    return None


def known_class(suite, args, out, what):
    if suite == "cs_px" and what.startswith("COLORSPACE"):
        return "C12-nonlinear-colorspace-premul"
    return None


def relation(suite, args, mo, io):
    if suite == "cs_px":
        return mo.strip() == "-9"
    if suite == "grad_px":
        return _c15.relation(suite, args, mo, io)
    if suite == "pat_px":
        return mo == io or mo.strip() == "-9"
    return c08.relation(suite, args, mo, io)


def nontrivial_tag(suite, args, out):
    if suite == "cs_px":
        return "cs%d" % (args[0] % 4) if out and out[0].isdigit() else None
    if suite == "grad_px":
        return _c15.nontrivial_tag(suite, args, out)
    if suite == "pat_px":
        return _c16.nontrivial_tag(suite, args, out)
    return c08.nontrivial_tag(suite, args, out)
