"""C10 — a mask blocks drawing where it is 0 and is transparent to it where it is 255."""
from .common import *
from .pxcommon import *
from . import c08
from . import c03 as _c03
from .geomgen import *

ID = "C10"
PROPS_FILES = ["Props/C10"]
ALL_FRAGMENTS = True
TRUSTED = c08.TRUSTED
ASSUMPTIONS = [
    "Mask::from_pixmap luminance and Mask::fill_path coverage are covered by C03 / the mask suite, not by a theorem here",
]
RULE = ("px rows with a clip mask: every blend mode x pipeline x blit kind; (a) mask byte 0 => destination unchanged, "
        "(b) a row drawn with an all-255 mask equals the same row drawn without mask (paired cases), (c) intermediate mask "
        "values lie between those two (+-1); masks mixed within one SIMD batch; non-trivial = mask has a 0 and a non-0 byte")

KNOWN_MODES = MASK_ZERO_WRITES
# blend functions that are not affine in the source: blend(m * src, dst) is then not on the segment between dst and
# blend(src, dst)
NONAFFINE_MODES = {"Overlay", "Darken", "Lighten", "ColorDodge", "ColorBurn", "HardLight", "SoftLight", "Difference",
                   "Hue", "Saturation", "Color", "Luminosity"}


def gen_cases(rng, tier):
    cases = []
    n = 1500 if tier == "quick" else 25000
    for g in range(n):
        mode = rng.randrange(29)
        hq = rng.random() < 0.4
        kind = rng.choice([0, 0, 1, 2, 3])      # 2: blit_v (one pixel with a coverage), 3: blit_anti_h2 (a pair): the small-mask pipeline
        w = rng.choice([1, 4, 8, 16, 17, 24, 33])
        if kind == 3 and w < 2:
            w = 4
        color = rand_color(rng)
        extra = [rng.choice([1, 128, 254, rng.randint(1, 254)])] if kind == 1 else []
        x0 = rng.randint(0, w - 1); ln = rng.randint(1, w - x0)
        if kind == 2:
            ln, extra = 1, [rng.choice([1, 64, 128, 200, 254, 255])]
        elif kind == 3:
            x0 = rng.randint(0, w - 2); ln, extra = 2, [rng.choice([1, 128, 254, 255]), rng.choice([1, 100, 254, 255])]
        base = [rand_premul(rng) for _ in range(w)]
        aa = rng.random() < 0.5
        mixed = [p + (rng.choice([0, 0, 255, 255, rng.randint(1, 254)]),) for p in base]
        full = [p + (255,) for p in base]
        zero = [p + (0,) for p in base]
        tag = [-777, g]
        for nm, hm, row in (("mixed", True, mixed), ("m255", True, full), ("nomask", False, full), ("m0", True, zero)):
            s, a = px_case(kind, mode, hq, aa, color, hm, x0, ln, row, extra)
            cases.append((s, a + tag + [{"mixed": 0, "m255": 1, "nomask": 2, "m0": 3}[nm]]))
    # tiled pixmaps (wider than 8191): the sub-mask of every tile must be addressed at its own offset
    for g in range(6 if tier == "quick" else 60):
        w = rng.choice([8192, 8200, 8300, 16400])
        mode = rng.choice([3, 3, 4, 11, 12, 14, 24])
        row = []
        for x in range(w):
            near = abs(x - 8191) < 40 or abs(x - 16382) < 40 or x < 20
            p = rand_premul(rng) if near else (0, 0, 0, 0)
            row.append(p + ((0 if (x // 7) % 2 == 0 else 255) if near else rng.choice([0, 255]),))
        x0 = rng.choice([0, 8100, 8180]); ln = min(w - x0, rng.choice([w, 200, 8292 - x0 if 8292 > x0 else 50]))
        s, a = px_case(rng.choice([4, 6, 6]), mode, False, False, rand_color(rng), True, x0, max(1, ln), row)
        cases.append((s, a + [-777, 10**9 + g, 9]))
    # Mask::from_pixmap (alpha, luminance), invert, intersect_path, Pixmap::apply_mask against their documented values
    for i in range(300 if tier == "quick" else 4000):
        op = rng.randrange(6)
        w, h = rng.choice([(1, 1), (7, 3), (16, 16), (33, 5), (24, 20)])
        ops = rand_path_ops(rng, w / 2, h / 2, max(2.0, min(w, h) / 2 - 1), curves=rng.random() < 0.3) if op == 3 else []
        cases.append(("mask_ops", [op, w, h, rng.getrandbits(40)] + ops))
    # Mask::fill_path onto existing data (fill_px kind 3 of the C03 module)
    c03cases = _c03.gen_cases(rng, tier)
    cases += [c for c in c03cases if c[0] == "fill_px" and c[1][2] == 3][:30 if tier == "quick" else 400]
    # Mask::fill_path of shapes that come from outside and reach less than a pixel into the first / last column or row
    from .geomgen import poly_ops as _po, IDENT as _ID
    for i in range(48 if tier == "quick" else 480):
        w, h = rng.choice([(20, 14), (33, 9)])
        reach = rng.choice([0.2, 0.4, 0.45, 0.5, 0.55, 0.9, 0.95])
        side = i % 4
        a, b = sorted([rng.uniform(1, (h if side < 2 else w) - 1) for _ in range(2)])
        if b - a < 2:
            b = a + 2
        if side == 0:
            pts = [(-5.0, a), (reach, a), (reach, b), (-5.0, b)]
        elif side == 1:
            pts = [(w - reach, a), (w + 5.0, a), (w + 5.0, b), (w - reach, b)]
        elif side == 2:
            pts = [(a, -5.0), (b, -5.0), (b, reach), (a, reach)]
        else:
            pts = [(a, h - reach), (b, h - reach), (b, h + 5.0), (a, h + 5.0)]
        aa = (i // 4) % 2
        cases.append(("fill_px", [i % 2, aa, 1, w, h, 0, w, 125 if not aa else 750, 350] + list(_ID) + _po(pts, grid=64.0)))
    # Mask::fill_path on masks wider / taller than one tile (fill_px kind 1 of the C03 module: the coverage a tiled mask ends up with)
    cases += [c for c in c03cases if c[0] == "fill_px" and c[1][2] == 1 and max(c[1][3], c[1][4]) > 8191][:24 if tier == "quick" else 200]
    return cases


def strip(args):
    return args[:-3] if len(args) >= 3 and args[-3] == -777 else args


MASK_OPS = ["Mask::from_pixmap(Alpha)", "Mask::from_pixmap(Luminance)", "Mask::invert", "Mask::intersect_path", "Pixmap::apply_mask", "Pixmap::apply_mask with a mask of another size"]


def oracle(suite, args, out):
    if out.startswith(("PANIC", "CRASH", "HANG")):
        return "implementation did not return: " + out[:200]
    if suite == "mask_ops":
        o = ints(out)
        if len(o) >= 6 and o[1] > 0:
            return "%s: %d of %d values differ from the documented value (first (%d,%d): got %d, expected %.2f)" % (
                MASK_OPS[args[0] % 6], o[1], o[0], o[2], o[3], o[4], (o[5] - 1) / 1000.0)
        return None
    if suite == "fill_px":
        return _c03.oracle(suite, args, out)
    c = decode(strip(args))
    if out.strip() in ("-1", "-9") or not c["has_mask"]:
        return None
    o = decode_out(out, c["w"])
    if o is None:
        return "malformed output"
    for x in range(c["w"]):
        if c["row"][x][4] == 0 and tuple(o[x]) != tuple(c["row"][x][:4]):
            return "mask byte 0 at x=%d but the destination changed from %r to %r (%s)" % (x, c["row"][x][:4], o[x], MODES[c["mode"]])
    return None


def post_oracle(cases, outs):
    groups = {}
    for i, (s, a) in enumerate(cases):
        if len(a) >= 3 and a[-3] == -777:
            groups.setdefault(a[-2], {})[a[-1]] = i
    bad = []
    for g, d in groups.items():
        if not all(k in d for k in (0, 1, 2, 3)):
            continue
        c = decode(strip(cases[d[0]][1]))
        o = {k: (decode_out(outs[d[k]], c["w"]) if outs[d[k]] and outs[d[k]][0].isdigit() else None) for k in d}
        if o[1] is None or o[2] is None:
            if outs[d[1]].strip() != outs[d[2]].strip():
                bad.append((d[1], "mask 255 draw returned %r, unmasked draw %r" % (outs[d[1]][:40], outs[d[2]][:40])))
            continue
        if o[1] != o[2]:
            x = [k for k in range(c["w"]) if o[1][k] != o[2][k]][0]
            bad.append((d[1], "all-255 mask wrote %r at x=%d, the unmasked call wrote %r (%s)" % (o[1][x], x, o[2][x], MODES[c["mode"]])))
        if o[0] is not None:
            for x in range(c["w"]):
                m = c["row"][x][4]
                if 0 < m < 255:
                    lo = [min(c["row"][x][k], o[2][x][k]) - 1 for k in range(4)]
                    hi = [max(c["row"][x][k], o[2][x][k]) + 1 for k in range(4)]
                    if any(not (lo[k] <= o[0][x][k] <= hi[k]) for k in range(4)):
                        bad.append((d[0], "mask %d at x=%d: result %r is not between destination %r and unmasked result %r (%s)" % (
                            m, x, o[0][x], c["row"][x][:4], o[2][x], MODES[c["mode"]])))
                        break
    return bad


def known_class(suite, args, out, what):
    if suite != "px":
        return None
    c = decode(strip(args))
    if c["has_mask"] and MODES[c["mode"]] in KNOWN_MODES:
        return "C10-mask-scales-source"
    if c["has_mask"] and MODES[c["mode"]] in NONAFFINE_MODES and "is not between destination" in what:
        return "C10-mask-intermediate-nonaffine"
    # opaque SourceOver is reduced to Source only when there is no mask: under partial coverage the two
    # programs (lerp vs pre-scale) round differently by at most 1
    if c["has_mask"] and MODES[c["mode"]] == "SourceOver" and c["color"][3] == 255 and c["kind"] != 0 \
            and "all-255 mask wrote" in what:
        import re
        m = re.findall(r"\((\d+), (\d+), (\d+), (\d+)\)", what)
        if len(m) >= 2 and all(abs(int(a) - int(b)) <= 1 for a, b in zip(m[0], m[1])):
            return "C10-opaque-srcover-reduction-rounding"
    return None


def relation(suite, args, mo, io):
    if suite == "mask_ops":
        return mo.strip() == "-9"
    if suite == "fill_px":
        return _c03.relation(suite, args, mo, io)
    return c08.relation(suite, strip(args), mo, io)


def nontrivial_tag(suite, args, out):
    if suite == "mask_ops":
        return "mask_op%d" % (args[0] % 6) if out and out[0].isdigit() and not out.startswith("0 ") else None
    if suite == "fill_px":
        return "mask_fill_on_top"
    c = decode(strip(args))
    ms = set(p[4] for p in c["row"])
    if c["has_mask"] and 0 in ms and len(ms) > 1:
        return "mixed:%s" % MODES[c["mode"]]
    return None
