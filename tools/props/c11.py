"""C11 — partial coverage and opacity interpolate between 'not drawn' and 'fully drawn'."""
from .common import *
from .pxcommon import *
from . import c08
from . import c15 as _c15
from . import c16 as _c16
_c16_IDENT = [f2b(1.0), 0, 0, f2b(1.0), 0, 0]

ID = "C11"
PROPS_FILES = ["Props/C11", "Props/C11Highp"]
ALL_FRAGMENTS = True
TRUSTED = c08.TRUSTED
ASSUMPTIONS = [
    "shader opacity for gradients/patterns (apply_opacity, Pattern opacity) is checked by the C15/C16 suites; here solid colours",
]
RULE = ("coverage sweeps: one pixel (destination, paint, mode, pipeline) drawn through blit_anti_h with coverage "
        "0,1,2,64,127,128,200,254,255 and through the aa-mask program (blit_v); channelwise the result must lie between "
        "the destination and the full-coverage result (+-1), move monotonically (+-1), be unchanged at 0 and equal the "
        "aliased result at 255; non-trivial = full coverage differs from the destination")

COVS = [0, 1, 2, 64, 127, 128, 200, 254, 255]


def gen_cases(rng, tier):
    cases = []
    n = 700 if tier == "quick" else 12000
    for g in range(n):
        mode = rng.randrange(29)
        hq = rng.random() < 0.4
        kind = rng.choice([1, 1, 2, 3])
        color = rand_color(rng)
        w = rng.choice([1, 3, 17])
        x = rng.randint(0, w - 1)
        if kind == 3 and (w < 2 or x < 1):
            w, x = 3, rng.choice([1, 2])
        a0 = rng.choice([0, 255, rng.randint(1, 254)])   # blit_anti_h2: the target is the second pixel, its neighbour gets a0
        row = [rand_premul(rng) + (255,) for _ in range(w)]
        for cv in COVS:
            if kind == 3:
                s, a = px_case(3, mode, hq, True, color, False, x - 1, 2, row, [a0, cv])
            elif kind == 1:
                s, a = px_case(1, mode, hq, True, color, False, x, 1, row, [cv])
            else:
                s, a = px_case(2, mode, hq, True, color, False, x, 1, row, [cv])
            cases.append((s, a + [-777, g, x, cv]))
        s, a = px_case(0, mode, hq, True, color, False, x, 1, row)
        cases.append((s, a + [-777, g, x, 999]))
    # partial coverage through the public API in every colour space: thin anti-aliased strokes (hairline blitters, coverage
    # folded into the paint for sub-pixel widths) and fractional fill_rect edges, every blend mode, both pipelines
    for i in range(500 if tier == "quick" else 8000):
        cs = rng.choice([0, 0, 1, 2, 3])
        col = rand_color(rng)
        if rng.random() < 0.4:
            col = list(col[:3]) + [255]
        dst = rand_premul(rng) if rng.random() < 0.7 else rng.choice([(0, 0, 0, 0), (255, 255, 255, 255), (200, 200, 200, 255), (0, 0, 0, 255), (40, 90, 240, 255)])
        shape = rng.choice([0, 0, 1])
        width = rng.choice([0, 0, 250, 500, 800, 1000, 1500, 3000]) if shape == 0 else rng.choice([100, 250, 500, 750, 900])
        cases.append(("thin_cov", [cs, rng.randrange(29), int(rng.random() < 0.4)] + list(col) + list(dst) + [shape, width]))
    # shader opacity: a constant-colour Pattern with opacity, anti-aliased fill (pat_px kind 2): edge = interior x coverage
    for i in range(120 if tier == "quick" else 1500):
        w, h = rng.choice([(8, 8), (12, 6), (5, 9)])
        sw, sh = rng.choice([(1, 1), (4, 4), (8, 3)])
        op = rng.choice([1.0, 0.5, 0.2, 0.75, 0.05, 0.0, 0.0, round(rng.random(), 3)])   # 0: a transparent source still clears under Source
        cases.append(("pat_px", [2, sw, sh, rng.getrandbits(40), 1, 0, 0] + list(_c16_IDENT) + [rng.randrange(3), rng.randrange(3), f2b(op), rng.randrange(2) + 2 * rng.choice([0, 0, 1, 2]), rng.randrange(3), w, h]))
    # the full pattern reference of C16 (taps, weights, clamps, opacity, blend) on draws with an opacity strictly between 0 and 1:
    # the opacity must scale the CLAMPED sample (bicubic overshoot next to hard edges)
    cases += [c for c in _c16.gen_cases(rng, tier) if c[0] == "pat_px" and c[1][0] in (0, 1) and c[1][15] not in (f2b(1.0), f2b(0.0))][:200 if tier == "quick" else 3000]
    # shader opacity: gradients drawn after Shader::apply_opacity sequences (none | 1.0 | 0.5, 1.0 | 0.5), judged by the
    # C15 reference with the stop alphas scaled by the product
    cases += [c for c in _c15.gen_cases(rng, tier) if c[0] == "grad_px" and c[1][8] >= 2][:400 if tier == "quick" else 5000]
    return cases


def strip(args):
    return args[:-4] if len(args) >= 4 and args[-4] == -777 else args


def oracle(suite, args, out):
    if out.startswith(("PANIC", "CRASH", "HANG")):
        return "implementation did not return: " + out[:200]
    if suite == "grad_px":
        return _c15.oracle(suite, args, out)
    if suite == "pat_px":
        return _c16.oracle(suite, args, out)
    if suite == "thin_cov":
        o = ints(out)
        if len(o) >= 8 and o[1] > 0:
            return "THINCOV cs%d: %d partially covered pixels leave the range between 'not drawn' and 'fully drawn' (first (%d,%d) channel %d = %d, destination %d, fully drawn %d; %s, %s)" % (
                args[0], o[1], o[2], o[3], o[4], o[5], o[6], o[7], MODES[args[1] % 29], "stroke width %g" % (args[12] / 1000.0) if args[11] == 0 else "fill_rect edge")
        return None
    return None


def known_class(suite, args, out, what):
    # non-linear colour space + translucent colour: the full-coverage fast path and the general pipeline disagree
    if suite == "thin_cov" and args[0] % 4 != 0 and args[6] < 255:
        return "C11-nonlinear-colorspace-partial-coverage"
    return None


def post_oracle(cases, outs):
    groups = {}
    for i, (s, a) in enumerate(cases):
        if len(a) >= 4 and a[-4] == -777:
            groups.setdefault(a[-3], {})[a[-1]] = i
    bad = []
    for g, d in groups.items():
        i0 = d[COVS[0]]
        a0 = cases[i0][1]
        c = decode(strip(a0))
        x = a0[-2]
        dst = tuple(c["row"][x][:4])
        vals = {}
        rejected = False
        for cv, i in d.items():
            o = decode_out(outs[i], c["w"]) if outs[i] and outs[i][0].isdigit() else None
            if o is None:
                rejected = True
                break
            vals[cv] = tuple(o[x])
        if rejected:
            continue
        kind = c["kind"]
        full = vals[255]
        if vals[0] != dst:
            bad.append((d[0], "coverage 0 changed the pixel from %r to %r (%s)" % (dst, vals[0], MODES[c["mode"]])))
            continue
        if kind == 1 and vals[255] != vals[999]:
            bad.append((d[255], "coverage 255 wrote %r but the aliased draw writes %r (%s)" % (vals[255], vals[999], MODES[c["mode"]])))
            continue
        prev = None
        for cv in COVS:
            v = vals[cv]
            for k in range(4):
                lo, hi = min(dst[k], full[k]) - 1, max(dst[k], full[k]) + 1
                if not (lo <= v[k] <= hi):
                    bad.append((d[cv], "coverage %d: channel %d = %d is not between the previous value %d and the full-coverage value %d (%s, %s)" % (
                        cv, k, v[k], dst[k], full[k], MODES[c["mode"]], "hq" if c["hq"] else "lowp?")))
                    break
                if prev is not None:
                    up = full[k] >= dst[k]
                    if (up and v[k] < prev[k] - 1) or ((not up) and v[k] > prev[k] + 1):
                        bad.append((d[cv], "coverage %d: channel %d moves against the coverage (%d after %d, towards %d) (%s)" % (
                            cv, k, v[k], prev[k], full[k], MODES[c["mode"]])))
                        break
            else:
                prev = v
                continue
            break
    return bad


def relation(suite, args, mo, io):
    if suite == "thin_cov":
        return mo.strip() == "-9"
    if suite == "pat_px":
        return _c16.relation(suite, args, mo, io)
    if suite == "grad_px":
        return _c15.relation(suite, args, mo, io)
    return c08.relation(suite, strip(args), mo, io)


def nontrivial_tag(suite, args, out):
    if suite == "thin_cov":
        o = out.split()
        return "thin:cs%d" % args[0] if o and o[0].isdigit() and int(o[0]) > 0 else None
    if suite == "pat_px":
        o = out.split()
        return "pattern-opacity" if o and o[0].isdigit() and int(o[0]) > 0 else None
    if suite == "grad_px":
        return _c15.nontrivial_tag(suite, args, out)
    return c08.nontrivial_tag(suite, strip(args), out)
