"""Path generators shared by the geometry properties (C02, C03, C06, ...): builder op lists (see c14 encoding)."""
import math
from .common import f2b

GRID = 64.0


def g(v, grid=GRID):
    return f2b(round(v * grid) / grid)


def poly_ops(pts, close=True, grid=GRID):
    ops = [0, g(pts[0][0], grid), g(pts[0][1], grid)]
    for (x, y) in pts[1:]:
        ops += [1, g(x, grid), g(y, grid)]
    if close:
        ops += [4]
    return ops


def rand_polygon(rng, cx, cy, r, n=None, grid=GRID):
    n = n or rng.randint(3, 9)
    kind = rng.random()
    pts = []
    if kind < 0.35:   # star / self-intersecting
        k = rng.choice([2, 3])
        for i in range(n):
            a = 2 * math.pi * (i * k % n) / n + rng.uniform(-0.1, 0.1)
            pts.append((cx + r * math.cos(a), cy + r * math.sin(a)))
    elif kind < 0.7:  # convex-ish
        for i in range(n):
            a = 2 * math.pi * i / n
            rr = r * rng.uniform(0.5, 1.0)
            pts.append((cx + rr * math.cos(a), cy + rr * math.sin(a)))
    else:             # random
        for i in range(n):
            pts.append((cx + rng.uniform(-r, r), cy + rng.uniform(-r, r)))
    return pts


def rand_path_ops(rng, cx, cy, r, curves=False, grid=GRID):
    """1..3 contours, optionally with quad/cubic segments"""
    ops = []
    for c in range(rng.choice([1, 1, 2, 3])):
        pts = rand_polygon(rng, cx + rng.uniform(-r / 3, r / 3) * c, cy + rng.uniform(-r / 3, r / 3) * c, r * rng.uniform(0.4, 1.0), grid=grid)
        if not curves:
            ops += poly_ops(pts, close=rng.random() < 0.7, grid=grid)
        else:
            ops += [0, g(pts[0][0], grid), g(pts[0][1], grid)]
            i = 1
            while i < len(pts):
                k = rng.choice([1, 2, 3])
                if k == 2 and i + 1 < len(pts):
                    ops += [2, g(pts[i][0], grid), g(pts[i][1], grid), g(pts[i + 1][0], grid), g(pts[i + 1][1], grid)]; i += 2
                elif k == 3 and i + 2 < len(pts):
                    ops += [3] + [v for p in pts[i:i + 3] for v in (g(p[0], grid), g(p[1], grid))]; i += 3
                else:
                    ops += [1, g(pts[i][0], grid), g(pts[i][1], grid)]; i += 1
            if rng.random() < 0.7:
                ops += [4]
    return ops


IDENT = [f2b(1.0), 0, 0, f2b(1.0), 0, 0]


def rand_ts(rng):
    k = rng.random()
    if k < 0.5:
        return list(IDENT)
    if k < 0.7:
        return [f2b(1.0), 0, 0, f2b(1.0), f2b(rng.choice([0.25, -3.5, 7.0])), f2b(rng.choice([0.5, 2.75, -1.0]))]
    if k < 0.85:
        return [f2b(rng.choice([0.5, 1.5, 2.0])), 0, 0, f2b(rng.choice([0.75, 1.25])), f2b(rng.uniform(-4, 4)), f2b(rng.uniform(-4, 4))]
    a = rng.uniform(0, 6.28)
    return [f2b(math.cos(a)), f2b(-math.sin(a)), f2b(math.sin(a)), f2b(math.cos(a)), f2b(rng.uniform(5, 25)), f2b(rng.uniform(5, 25))]


def lopsided_cubic_ops(rng, w, h, grid=GRID):
    """one large cubic whose control points deviate from the chord by very different amounts (one sits on or next to
    the chord's third-point, the other far away), optionally closed by a line: the subdivision count must come from the
    larger deviation"""
    L = rng.uniform(0.6, 0.95) * w
    dev = rng.uniform(0.35, 0.9) * h * rng.choice([-1, 1])
    x0 = (w - L) / 2
    y0 = h / 2 - dev / 2 * rng.uniform(0.2, 0.9)
    a, b = (x0, y0), (x0 + L, y0 + rng.uniform(-0.1, 0.1) * h)
    third = lambda t: (a[0] + t * (b[0] - a[0]), a[1] + t * (b[1] - a[1]))
    near = rng.choice([0.0, 0.0, 1.0, -2.0])
    if rng.random() < 0.5:
        c1 = (third(1 / 3)[0], third(1 / 3)[1] + near)
        c2 = (third(2 / 3)[0] + rng.uniform(-0.1, 0.1) * L, third(2 / 3)[1] + dev * 1.5)
    else:
        c1 = (third(1 / 3)[0] + rng.uniform(-0.1, 0.1) * L, third(1 / 3)[1] + dev * 1.5)
        c2 = (third(2 / 3)[0], third(2 / 3)[1] + near)
    v = rng.random()
    if v < 0.5:
        # the deviation of the curve at t = 1/3 (or 2/3) vanishes exactly: 8a - 15b + 6c + d = 0 (or a + 6b - 15c + 8d = 0)
        # in the coordinate that bends; the other deviation is large and of either sign
        far = (third(0.5)[0] + rng.uniform(-0.2, 0.2) * L, third(0.5)[1] + dev * 1.5)
        if v < 0.25:
            c2 = far
            c1 = tuple((8 * a[k] + 6 * c2[k] + b[k]) / 15 for k in (0, 1))
        else:
            c1 = far
            c2 = tuple((a[k] + 6 * c1[k] + 8 * b[k]) / 15 for k in (0, 1))
    pts = [a, c1, c2, b]
    if rng.random() < 0.5:
        pts.reverse()
    if rng.random() < 0.4:   # swap the axes: a mostly vertical cubic
        pts = [(p[1] * w / h, p[0] * h / w) for p in pts]
    ops = [0, g(pts[0][0], grid), g(pts[0][1], grid), 3] + [v for p in pts[1:] for v in (g(p[0], grid), g(p[1], grid))]
    return ops
