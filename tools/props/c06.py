"""C06 — a hairline stroke follows the path: connected, within a pixel, clip-safe."""
import math
from .common import *
from .geomgen import *

ID = "C06"
PROPS_FILES = ["Props/C06", "Props/C06AA", "Props/FixedPoint"]
FRAGMENTS = ["fixed-point"]
TRUSTED = [
    "Coq 8.16.1 kernel; Flocq (f32 -> FDot6 / FDot16 conversions)",
    "hand-written bit-exact Model/Hairline.v (the integer DDA of hair_line_rgn with its guards) tied by bit-exact blit correspondence for polylines inside the clip (recording-blitter hook)",
    "harness/src/oracle.rs distance oracle for proximity / gaps / independence from the outside part of the path",
]
ASSUMPTIONS = [
    "curve subdivision (hair_quad / hair_cubic) and the round / square cap extension of the anti-aliased hairline are not modelled: oracle only (partial); the anti-aliased hairline of line segments is modelled bit-exactly (Model/HairlineAA.v)",
]
RULE = ("(a) aliased butt-cap hairlines of polylines inside the pixmap: the list of 1-pixel blits bit-exact against the Coq DDA; "
        "(b) stroke_path with width 0 / sub-pixel width, 3 caps, AA on/off, lines/quads/cubics, paths on x=0,y=0,x=W,y=H, "
        "extents to +-1e6, pixmaps 1x1..3x3, transforms: touched pixels within reach of the path, no gaps, no dependence "
        "on the part outside; non-trivial = at least one pixel touched")


def gen_cases(rng, tier):
    cases = []
    # the scalar line clipper, bit-exact against Model/LineClip.v: end points inside, on the edges, a denormal beyond
    # them, far outside, nearly vertical / horizontal
    for i in range(4000 if tier == "quick" else 60000):
        w, h = rng.choice([(3, 9), (10, 10), (33, 40), (8191, 3)])
        def c(n):
            k = rng.random()
            if k < 0.25:
                return rng.choice([0.0, float(n), -0.0, 1e-38, -1e-38, -1e-45, n + 1e-3, n - 1e-3, 0.5, n - 0.5])
            if k < 0.6:
                return rng.uniform(-2, n + 2)
            if k < 0.8:
                return rng.uniform(-3 * n, 4 * n)
            return rng.choice([-32767.0, 32767.0, 1e4, -1e4, 6355.5, 14546.5])
        x0, y0, x1, y1 = c(w), c(h), c(w), c(h)
        if rng.random() < 0.2:
            x1 = x0 + rng.choice([0.0, 1e-38, -1e-38, 1e-5, 2e-4, 3e-4])
        if rng.random() < 0.1:
            y1 = y0 + rng.choice([0.0, 1e-38, 1e-5, 3e-4])
        clip = rng.choice([(0.0, 0.0, float(w), float(h)), (-1.0, -1.0, w + 1.0, h + 1.0), (-32767.0, -32767.0, 32767.0, 32767.0)])
        cases.append(("line_clip", [f2b(x0), f2b(y0), f2b(x1), f2b(y1)] + [f2b(v) for v in clip]))
    n = 2000 if tier == "quick" else 30000
    for i in range(n):
        w, h = rng.choice([(10, 10), (16, 9), (33, 40)])
        k = rng.randint(2, 6)
        grid = rng.choice([64.0, 2.0, 1.0, 4096.0])
        pts = []
        outside = rng.random() < 0.5    # half of the polylines leave the pixmap: the scalar clipper is part of the model
        for _ in range(k):
            if outside and rng.random() < 0.5:
                x = rng.choice([-1e-38, -0.5, w + 0.5, rng.uniform(-3 * w, 4 * w), rng.choice([-40000.0, 40000.0, 1e6])])
                y = rng.choice([-1e-38, -0.5, h + 0.5, rng.uniform(-3 * h, 4 * h), rng.choice([-40000.0, 40000.0, 1e6])])
            else:
                x = rng.choice([0, w, rng.uniform(0, w)]); y = rng.choice([0, h, rng.uniform(0, h)])
            pts.append((x, y))
        ops = poly_ops(pts, close=rng.random() < 0.3, grid=grid)
        cases.append(("hair_spans", [w, h] + ops))
        if i % 2 == 0:
            cases.append(("hair_aa", [w, h] + ops))
    m = 500 if tier == "quick" else 8000
    for i in range(m):
        w, h = rng.choice([(12, 12), (24, 17), (1, 1), (2, 2), (2, 8), (3, 3), (40, 40)])
        cap = rng.choice([0, 1, 2])
        aa = rng.random() < 0.5
        width = 0 if (not aa or rng.random() < 0.5) else rng.choice([300, 500, 900])
        kind = rng.random()
        if kind < 0.12:    # an axis-aligned line lying exactly on a border, continuing outside by various amounts
            e0, e1 = rng.choice([0, 0.25, 0.5, 3, 100, 40000, 1e6]), rng.choice([0, 0.25, 0.5, 3, 100, 40000, 1e6])
            if rng.random() < 0.5:
                x = rng.choice([0, 0, w, rng.randint(0, w)]); pts = [(x, -e0), (x, h + e1)]
            else:
                y = rng.choice([0, 0, h, rng.randint(0, h)]); pts = [(-e0, y), (w + e1, y)]
            if rng.random() < 0.5:
                pts.reverse()
            ops = poly_ops(pts, close=False, grid=4.0)
        elif kind < 0.35:    # lines crossing / on the borders, far extents
            far = rng.choice([1, 50, 1e3, 1e6])
            pts = [(rng.choice([0, w, -far, w + far, rng.uniform(-3, w + 3)]), rng.choice([0, h, -far, h + far, rng.uniform(-3, h + 3)])) for _ in range(rng.randint(2, 4))]
            ops = poly_ops(pts, close=rng.random() < 0.2, grid=16.0)
        else:
            ops = rand_path_ops(rng, w / 2 + rng.uniform(-w, w) * 0.4, h / 2 + rng.uniform(-h, h) * 0.4, max(w, h) * rng.uniform(0.3, 1.2), curves=rng.random() < 0.5)
        cases.append(("hair_px", [cap, int(aa), width, w, h, 1 if w <= 40 else 0] + (rand_ts(rng) if rng.random() < 0.3 else list(IDENT)) + ops))
    # dots: contours all of whose points coincide (M p L p, M p Q p p, M p C p p p), alone or before / after another contour,
    # with round and square caps: half a pixel of cap on both sides of the point
    for i in range(120 if tier == "quick" else 1500):
        w, h = rng.choice([(12, 12), (24, 17)])
        px_, py_ = rng.uniform(2, w - 2), rng.uniform(2, h - 2)
        if rng.random() < 0.5:
            px_, py_ = math.floor(px_) + rng.choice([0.0, 0.25, 0.5, 0.75, 0.9]), math.floor(py_) + rng.choice([0.0, 0.25, 0.5, 0.75, 0.9])
        a, b = f2b(px_), f2b(py_)
        dot = [0, a, b] + [[1, a, b], [2, a, b, a, b], [3, a, b, a, b, a, b]][i % 3]
        k = rng.random()
        other = poly_ops([(rng.uniform(1, w - 1), rng.uniform(1, h - 1)) for _ in range(2)], close=False, grid=16.0)
        ops = dot if k < 0.6 else (dot + other if k < 0.8 else other + dot)
        aa = i % 2
        cases.append(("hair_px", [rng.choice([1, 2]), aa, 0 if (not aa or rng.random() < 0.5) else rng.choice([300, 900]), w, h, 0] + list(IDENT) + ops))
    # curves entering / leaving the pixmap: all control points but the last (or the first) on one side outside
    for i in range(80 if tier == "quick" else 1200):
        w, h = rng.choice([(100, 100), (60, 40), (24, 24)])
        n = rng.choice([3, 4, 4])
        side = rng.randrange(4)
        def outside():
            d = rng.uniform(0.5, 3.0)
            if side == 0: return (-d * w, rng.uniform(0.1, 0.9) * h)
            if side == 1: return (w + d * w, rng.uniform(0.1, 0.9) * h)
            if side == 2: return (rng.uniform(0.1, 0.9) * w, -d * h)
            return (rng.uniform(0.1, 0.9) * w, h + d * h)
        inside = lambda: (rng.uniform(0.15, 0.85) * w, rng.uniform(0.15, 0.85) * h)
        outs = sorted([outside() for _ in range(n - 1)], key=lambda p: -(abs(p[0] - w / 2) + abs(p[1] - h / 2)))
        if rng.random() < 0.5:
            pts = outs + [inside()]                       # entering
        else:
            pts = [inside() for _ in range(n - 1)] + [outside()]   # leaving
        if rng.random() < 0.3:
            pts.reverse()
        ops = [0, f2b(round(pts[0][0], 2)), f2b(round(pts[0][1], 2)), n - 1] + [f2b(round(v, 2)) for p in pts[1:] for v in p]
        cases.append(("hair_px", [rng.randrange(3), i % 2, 0, w, h, 1 if w <= 40 else 0] + list(IDENT) + ops))
    # segments whose deltas are exactly / almost 512 px (the longest segment the anti-aliased hairline draws in one piece;
    # FDot6 32768 does not fit the 16-bit fast division), drawn directly, produced by the pre-clip of a longer line
    # through the corners of a 510 x 510 pixmap, and as halves of 1024-px lines
    for i in range(8 if tier == "quick" else 96):
        kind = i % 4
        d = 512 + rng.choice([0, 0, 0, -1 / 64.0, 1 / 64.0])
        sx, sy = rng.choice([(1, 1), (1, 1), (1, -1), (-1, 1), (-1, -1)])
        if kind == 0:
            w = h = 512
            pts = [(0, 0), (512, 512)] if sx * sy > 0 else [(512, 0), (0, 512)]
        elif kind == 1:
            w = h = 510
            far = rng.choice([1, 40, 1e3, 1e6])
            pts = [(-far, -far), (510 + far, 510 + far)] if sx * sy > 0 else [(510 + far, -far), (-far, 510 + far)]
        elif kind == 2:
            w = h = rng.choice([560, 560, 1200])
            x0, y0 = (rng.randint(2, 40), rng.randint(2, 40)) if w == 560 else (rng.choice([300, 600, 650]), rng.randint(2, 600))
            ax, ay = (x0 if sx > 0 else x0 + d), (y0 if sy > 0 else y0 + d)
            pts = [(ax, ay), (ax + sx * d, ay + sy * d * rng.choice([1, 1, 0.75]))]
        else:
            w, h = 1100, 1100
            pts = [(30, 40), (30 + 1024, 40 + 1024)] if sx * sy > 0 else [(30 + 1024, 40), (30, 40 + 1024)]
        if rng.random() < 0.5:
            pts.reverse()
        cases.append(("hair_px", [rng.randrange(3), 1 if i % 8 < 6 else 0, 0, w, h, 0] + list(IDENT) + poly_ops(pts, close=False, grid=64.0)))
    # the same, every direction and the three lengths around 512, anti-aliased, in the middle of a 1200 x 1200 pixmap (room on
    # every side: a slope with the wrong sign walks off to the other side of the start point)
    for (sx, sy) in [(1, 1), (1, -1), (-1, 1), (-1, -1)]:
        for d in ([512.0, 512.0 - 1 / 64.0, 512.0 + 1 / 64.0] if tier != "quick" else [512.0]):
            ax, ay = (300.0 if sx > 0 else 900.0), (320.0 if sy > 0 else 880.0)
            for dy in ([d, 0.75 * d] if tier != "quick" else [d]):
                pts = [(ax, ay), (ax + sx * d, ay + sy * dy)]
                cases.append(("hair_px", [0, 1, 0, 1200, 1200, 0] + list(IDENT) + poly_ops(pts, close=False, grid=64.0)))
    # tiled pixmaps (wider than 8191): hairlines running in the narrow band just past the tile seam, crossing it, and ending on it
    for i in range(6 if tier == "quick" else 60):
        w, h = 8200, 40
        k = i % 3
        if k == 0:
            x0 = 8191 + rng.choice([-0.3, 0.2, 0.6, 1.2])
            pts = [(x0, 5), (x0 + rng.uniform(0.1, 0.6), 35)]
        elif k == 1:
            xs = 8191 + rng.choice([0.3, 0.8, 1.3])
            pts = [(8000.4, 5), (xs, 10), (xs, 35)]
        else:
            pts = [(8150 + rng.uniform(0, 20), rng.uniform(3, 36)), (8199, rng.uniform(3, 36)), (8185, rng.uniform(3, 36))]
        cases.append(("hair_px", [rng.randrange(3), i % 2, 0, w, h, 0] + list(IDENT) + poly_ops(pts, close=False, grid=16.0)))
    # large cubics with lopsided control polygons (the subdivision count must follow the larger deviation)
    for i in range(24 if tier == "quick" else 400):
        w, h = rng.choice([(200, 120), (160, 160), (120, 200)])
        cases.append(("hair_px", [rng.randrange(3), i % 2, 0, w, h, 0] + list(IDENT) + lopsided_cubic_ops(rng, w, h)))
    return cases


def oracle(suite, args, out):
    if out.startswith(("PANIC", "CRASH", "HANG")):
        return "implementation did not return: " + out[:200]
    if suite == "line_clip":
        o = ints(out)
        if len(o) == 4:
            l, t, r, b = [b2f(v) for v in args[4:8]]
            x0, y0, x1, y1 = [b2f(v) for v in o]
            for (x, y) in ((x0, y0), (x1, y1)):
                if x < l or x > r or y < t or y > b:
                    return "line_clipper::intersect returned the point (%r, %r) outside the clip %r" % (x, y, (l, t, r, b))
        return None
    if suite == "hair_aa":
        if "-77" in out.split():
            return "the anti-aliased hairline emitted a blit_h / blit_rect"
        o = ints(out)
        w, h = args[0], args[1]
        if o and o[0] >= 0 and len(o) % 3 == 0:
            for x, y, a in zip(o[0::3], o[1::3], o[2::3]):
                if not (0 <= x < w and 0 <= y < h):
                    return "anti-aliased hairline coverage at (%d,%d) outside the %dx%d pixmap" % (x, y, w, h)
        return None
    if suite == "hair_spans":
        if "-77" in out.split():
            return "hairline emitted a blit other than a 1-pixel blit_h"
        o = ints(out)
        w, h = args[0], args[1]
        if o and o[0] >= 0:
            for x, y in zip(o[0::2], o[1::2]):
                if not (0 <= x < w and 0 <= y < h):
                    return "blit at (%d,%d) outside the %dx%d pixmap" % (x, y, w, h)
        return None
    o = ints(out)
    if len(o) >= 7:
        if o[1] > 0:
            return "%d touched pixels are farther than about one pixel from the path (first near (%d,%d))" % (o[1], o[3], o[4])
        if o[2] > 0:
            return "%d path points inside the pixmap have no touched pixel nearby: gap (first near (%d,%d))" % (o[2], o[3], o[4])
        if o[6] > 0:
            return "%d pixels inside the pixmap depend on how the path continues outside it" % o[6]
        if len(o) >= 9 and o[8] > 0:
            return "%d anti-aliased pixels inside the pixmap change coverage by 96 or more depending on how the path continues outside it" % o[8]
        if len(o) >= 8 and o[7] > 0:
            return "EDGEFOLD: %d anti-aliased hairline pixels in the first rows/columns are far from the path" % o[7]
    return None


def known_class(suite, args, out, what):
    if suite == "hair_px" and what.startswith("EDGEFOLD"):
        return "C06-aa-hairline-top-left-fold"
    return None


def relation(suite, args, mo, io):
    if mo.strip() == "-2" and io.startswith("PANIC"):
        return True
    return mo == io or (suite != "line_clip" and mo.strip() == "-9")


def nontrivial_tag(suite, args, out):
    o = out.split()
    if suite == "line_clip":
        return "clipped" if len(o) == 4 else None
    if suite == "hair_aa":
        return "aa-contribs" if len(o) >= 3 and o[0].lstrip("-").isdigit() and int(o[0]) >= 0 else None
    if suite == "hair_spans":
        return "blits" if len(o) >= 2 and o[0].lstrip("-").isdigit() and int(o[0]) >= 0 else None
    return "px" if len(o) >= 3 and o[0].isdigit() and int(o[0]) > 0 else None
