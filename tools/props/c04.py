"""C04 — drawing never changes bytes outside the shape's footprint."""
from .common import *
from .pxcommon import *
from . import c08
from . import c02 as _c02
from .geomgen import *

ID = "C04"
PROPS_FILES = ["Props/C04"]
ALL_FRAGMENTS = True
TRUSTED = c08.TRUSTED + ["hook verif_hooks::blit drives RasterPipelineBlitter with explicit spans"]
ASSUMPTIONS = [
    "span producers (scan converters, hairlines) are covered by C02/C03/C06: here the pipeline loop and the blitter",
]
RULE = ("px rows: spans at every start 0..40 / length 1..40 inside rows of width up to 48, all blend modes, both pipelines, "
        "all blit kinds, with and without mask, random destination bytes (also non-premultiplied garbage); oracle: every "
        "pixel outside [x0, x0+len) is bit-identical, and rejected draws change nothing; non-trivial = span shorter than the row")


def gen_cases(rng, tier):
    cases = []
    n = 5000 if tier == "quick" else 80000
    for i in range(n):
        mode = rng.randrange(29)
        hq = rng.random() < 0.4
        kind = rng.choice([0, 0, 0, 1, 2, 3])
        w = rng.randint(1, 48)
        has_mask = rng.random() < 0.3
        garbage = rng.random() < 0.3
        def dpx():
            if garbage:
                return tuple(rng.randint(0, 255) for _ in range(4))
            return rand_premul(rng)
        row = [dpx() + ((rng.choice([0, 255, rng.randint(0, 255)]) if has_mask else 255),) for _ in range(w)]
        if kind == 2:
            x0, ln, extra = rng.randint(0, w - 1), 1, [rng.randint(1, 255)]
        elif kind == 3:
            if w < 2:
                continue
            x0, ln, extra = rng.randint(0, w - 2), 2, [rng.randint(1, 255), rng.randint(1, 255)]
        else:
            x0 = rng.randint(0, w - 1); ln = rng.randint(1, w - x0)
            extra = [rng.randint(0, 255)] if kind == 1 else []
        cases.append(px_case(kind, mode, hq, rng.random() < 0.5, rand_color(rng), has_mask, x0, ln, row, extra))
    # public fill_rect with a clip mask whose size differs from the pixmap's: documented as skipped
    for i in range(300 if tier == "quick" else 3000):
        w = rng.randint(1, 20)
        mw, mh = rng.choice([(w, 1), (w + 1, 1), (w, 2), (max(1, w - 1), 1), (w + 3, 4), (w, 3)])
        row = [rand_premul(rng) + (255,) for _ in range(w)]
        x0 = rng.randint(0, w - 1); ln = rng.randint(1, w - x0)
        cases.append(px_case(5, rng.randrange(29), rng.random() < 0.3, False, rand_color(rng), True, x0, ln, row, [mw, mh]))
    # whole draws: thin strokes of curves whose control points straddle the right / bottom border; a write past
    # the end of a row lands in the first pixels of the following row, far from the path
    for i in range(400 if tier == "quick" else 6000):
        w, h = rng.choice([(12, 12), (24, 17), (40, 40), (9, 30)])
        aa = rng.random() < 0.5
        width = 0 if (not aa or rng.random() < 0.5) else rng.choice([300, 900])
        def P(inside):
            if inside:
                return (rng.uniform(2, w - 2), rng.uniform(2, h - 2))
            return (rng.choice([w - 1, w + rng.uniform(-1, 6), rng.uniform(0, w)]), rng.choice([h - 1, h + rng.uniform(-1, 6), rng.uniform(0, h)]))
        p0 = P(True)
        ops = [0, f2b(p0[0]), f2b(p0[1])]
        for _ in range(rng.randint(1, 3)):
            k = rng.choice([1, 2, 3, 3])
            pts = [P(rng.random() < 0.7) for _ in range(k - 1)] + [P(rng.random() < 0.4)]
            ops += [k] + [f2b(round(c * 16) / 16) for p in pts for c in p]
        cases.append(("hair_px", [rng.choice([0, 1, 2]), int(aa), width, w, h, 0] + list(IDENT) + ops))
    # whole fills (the C02 generator: multi-contour paths with open sub-paths, retraced edges, shapes leaving through the
    # borders, tile seams): a pixel farther than the band from the outline and outside the shape must keep its bytes
    # thick strokes: the footprint is the bounding box grown by width/2 x max(1, miter limit, sqrt 2 for square caps) + 1
    for i in range(300 if tier == "quick" else 4000):
        w, h = rng.choice([(64, 64), (100, 100), (140, 140)])
        width = rng.choice([2.0, 6.0, 12.0, 20.0, 40.0])
        miter = rng.choice([1.0, 1.05, 1.2, 1.4, 1.42, 2.0, 4.0, 10.0])
        join, cap = rng.randrange(4), rng.randrange(3)
        m = width * max(1.0, miter if join < 2 else 1.0) / 2 + 4
        if i % 3 == 0:
            # exact right angles, not axis-aligned: on a diagonal grid
            cx, cy = w / 2, h / 2
            L = rng.choice([10.0, 20.0, 30.0])
            pts = [(cx - L, cy - L * 0), (cx, cy + L), (cx + L, cy)] if rng.random() < 0.5 else [(cx - L, cy), (cx, cy - L), (cx + L, cy), (cx, cy + L)]
            pts = [(x, y - L / 2) for x, y in pts]
        else:
            pts = [(rng.uniform(m, w - m), rng.uniform(m, h - m)) for _ in range(rng.randint(2, 5))] if m * 2 < min(w, h) - 4 else [(w / 2 - 5, h / 2), (w / 2 + 5, h / 2)]
        from .geomgen import poly_ops as _po
        cases.append(("stroke_fp", [int(width * 1000), int(miter * 1000), join, cap, i % 2, w, h] + _po(pts, close=rng.random() < 0.3, grid=16.0)))
    # cubics with a point beyond +-2^22 (the clipper falls back to the chord): nothing may be painted right of / below the path
    for i in range(30 if tier == "quick" else 300):
        w, h = 100, 100
        far = rng.choice([-5e6, -1e7, -4.3e6])
        x0 = rng.choice([50.0, 30.0, 70.0])
        ya, yb, yc, yd = sorted(rng.uniform(5, 95) for _ in range(4))
        if i % 2 == 0:
            ops = [0, f2b(x0), f2b(ya), 3, f2b(far), f2b(yb), f2b(far), f2b(yc), f2b(x0), f2b(yd), 4]
        else:
            ops = [0, f2b(ya), f2b(x0), 3, f2b(yb), f2b(far), f2b(yc), f2b(far), f2b(yd), f2b(x0), 4]
        cases.append(("fill_px", [i % 2, 0, 0, w, h, 0, w, 750, 0] + list(IDENT) + ops))
    # zero-length sub-paths (dots) with round / square caps, alone and next to other contours, under scaled draw calls: the dot is
    # width x scale across, whatever the resolution scale the stroker is given
    for i in range(60 if tier == "quick" else 600):
        w, h = 120, 120
        scx = rng.choice([1, 2, 2, 3])       # index into [1, 2, 4, 0.5]
        scv = [1.0, 2.0, 4.0, 0.5][scx]
        lim = 100.0 / scv
        p = (round(rng.uniform(0.3, 0.7) * lim, 1), round(rng.uniform(0.3, 0.7) * lim, 1))
        ops = [0, f2b(p[0]), f2b(p[1])] + ([1, f2b(p[0]), f2b(p[1])] if i % 2 == 0 else [4])
        if i % 3 == 0:
            q = (round(rng.uniform(0.2, 0.8) * lim, 1), round(rng.uniform(0.2, 0.8) * lim, 1))
            ops += [0, f2b(q[0]), f2b(q[1]), 1, f2b(q[0] + 5.0 / scv), f2b(q[1])]
        width = rng.choice([3.0, 6.0, 10.0]) / scv * rng.choice([1.0, 2.0])
        cases.append(("stroke_fp", [int(width * 1000), 4000, rng.randrange(4), rng.choice([1, 2]), (i % 2) + 2 * scx, w, h] + ops))
    # fills whose right (bottom) bound ends a fraction past the pixmap: between width + 0.45 and width + 0.55 the conservative
    # rounding decides whether the edges are clipped; a wrong decision writes past the end of the row
    for i in range(48 if tier == "quick" else 480):
        w, h = rng.choice([(20, 12), (33, 9), (24, 24)])
        fr = rng.choice([0.45, 0.47, 0.49, 0.5, 0.51, 0.52, 0.523, 0.53, 0.55, 0.25, 0.75])
        x0 = rng.uniform(3, w - 6)
        y0, y1 = rng.uniform(1, h / 2 - 1), rng.uniform(h / 2, h - 2)
        if i % 4 == 3:   # the same at the bottom
            pts = [(x0, y0), (w - 3.0, y0), (w - 3.0, h + fr), (x0, h + fr)]
        else:
            pts = [(x0, y0), (w + fr, y0 + rng.choice([0.0, 0.7])), (w + fr, y1), (x0, y1)]
        cases.append(("fill_px", [i % 2, 0, 0, w, h, 0, w, 125, 0] + list(IDENT) + [0] + [v for q_ in pts[:1] for v in (f2b(q_[0]), f2b(q_[1]))]
                      + [v for q_ in pts[1:] for v in (1, f2b(q_[0]), f2b(q_[1]))] + [4]))
    allfills = [c for c in _c02.gen_cases(rng, tier) if c[0] == "fill_px"]
    fills = [c for c in allfills if c[1][3] <= 200]
    cases += fills[:450 if tier == "quick" else 6000]
    # tiled pixmaps (wider than 8191, several rows): a span written with the wrong row stride lands outside the shape
    cases += [c for c in allfills if c[1][3] > 8000 and c[1][4] <= 40][:12 if tier == "quick" else 80]
    # pixmaps tiled in both directions (8200 x 8200): what is drawn in one tile must not reappear in another
    cases += [c for c in allfills if c[1][3] > 8000 and c[1][4] > 8000][:4 if tier == "quick" else 16]
    # a mask of another size makes the call a no-op, on tiled pixmaps as well (mask_ops op 6: fill_path, fill_rect with a transform,
    # thick and hairline strokes with a mask 9 columns / rows short)
    for w_, h_, sd in [(8200, 4, 0), (8200, 4, 2), (4, 8200, 1), (4, 8200, 3), (40, 30, 0), (40, 30, 3), (8200, 8200, 0)][:7 if tier != "quick" else 6]:
        cases.append(("mask_ops", [6, w_, h_, sd]))
    # anti-aliased hairlines whose deltas are exactly / almost 512 px, on pixmaps with room on every side (C06's generator)
    from . import c06 as _c06
    cases += [c for c in _c06.gen_cases(rng, tier) if c[0] == "hair_px" and c[1][3] >= 510 and c[1][3] < 2000][:16 if tier == "quick" else 120]
    return cases


def oracle(suite, args, out):
    if out.startswith(("PANIC", "CRASH", "HANG")):
        return "implementation did not return: " + out[:200]
    if suite == "fill_px":
        o = ints(out)
        # (a painted pixel inside the bounding box but outside the shape is C02's / C03's subject, not a footprint violation)
        if len(o) >= 11 and o[8] > 0:
            return "a fill changed %d pixels outside the bounding box of the shape (first (%d,%d)): bytes outside the footprint" % (o[8], o[9], o[10])
        return None
    if suite == "mask_ops":
        o = ints(out)
        if len(o) >= 6 and o[1] > 0:
            return "draw calls with a mask of another size changed %d of %d pixels of a %dx%d pixmap (documented: nothing happens)" % (o[1], o[0], args[1], args[2])
        return None
    if suite == "stroke_fp":
        o = ints(out)
        if len(o) >= 4 and o[1] > 0:
            return "a stroke changed %d pixels outside the bounding box of the path grown by the stroke outset and one pixel (first (%d,%d)): bytes outside the footprint" % (o[1], o[2], o[3])
        return None
    if suite == "hair_px":
        o = ints(out)
        if len(o) >= 10 and o[9] > 0:
            return "a thin stroke changed %d pixels outside the bounding box of the path grown by the stroke outset and one pixel: bytes outside the footprint" % o[9]
        return None
    c = decode(args)
    if out.strip() == "-1":
        return None
    o = decode_out(out, c["w"])
    if o is None:
        return "malformed output"
    if c["kind"] == 5 and (c["extra"][0], c["extra"][1]) != (c["w"], 1):
        if any(tuple(o[x]) != tuple(c["row"][x][:4]) for x in range(c["w"])):
            return "a draw with a %dx%d mask on a %dx1 pixmap (documented as skipped) changed pixels" % (c["extra"][0], c["extra"][1], c["w"])
    for x in range(c["w"]):
        if not (c["x0"] <= x < c["x0"] + c["len"]) and tuple(o[x]) != tuple(c["row"][x][:4]):
            return "pixel %d outside the span [%d,%d) changed from %r to %r (%s, kind %d)" % (
                x, c["x0"], c["x0"] + c["len"], c["row"][x][:4], o[x], MODES[c["mode"]], c["kind"])
    return None


def relation(suite, args, mo, io):
    if suite == "mask_ops":
        return mo.strip() == "-9"
    if suite == "stroke_fp":
        return mo.strip() == "-9"
    if suite == "hair_px":
        return mo.strip() == "-9"
    if suite == "fill_px":
        return _c02.relation(suite, args, mo, io)
    return c08.relation(suite, args, mo, io)


def nontrivial_tag(suite, args, out):
    if suite == "mask_ops":
        return "mismatched-mask" if out.split()[:1] and out.split()[0].isdigit() and int(out.split()[0]) > 0 else None
    if suite == "stroke_fp":
        o = out.split()
        return "stroke-fp" if len(o) >= 4 and o[0].isdigit() and int(o[0]) > 0 else None
    if suite == "fill_px":
        o = out.split()
        return "fill" if len(o) >= 3 and o[0].isdigit() and int(o[0]) > 0 else None
    if suite == "hair_px":
        o = out.split()
        return "stroke" if len(o) >= 3 and o[0].isdigit() and int(o[0]) > 0 else None
    c = decode(args)
    if out.strip() in ("-1", "-9") or c["len"] >= c["w"]:
        return None
    return "kind%d:%s" % (c["kind"], MODES[c["mode"]])
