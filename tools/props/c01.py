"""C01 — every drawing and path operation returns: no panic, no abort, no hang."""
from .common import *

ID = "C01"
PROPS_FILES = ["Props/C01"]
PROFILES_QUICK = ["debug", "release"]
TRUSTED = [
    "Coq 8.16.1 kernel; the models and correspondences of C02, C03, C06, C07, C08, C16, C19 (their panic-freedom / in-bounds theorems are re-stated here)",
    "harness/src/c01.rs: API call sequences derived from a seed, each on its own thread with a 60 s watchdog, catch_unwind; checked (overflow + debug assertions) and release builds",
]
ASSUMPTIONS = [
    "the float geometry code (stroker, edge clipper numerics, anti-aliased hairlines, conic / cubic subdivision) is searched, not proved (partial)",
    "a hang is reported after 60 s without an answer; time bounded by the input size is not otherwise measured",
]
RULE = ("random sequences of fill_path / fill_rect / stroke_path (dashes, hairlines, huge widths) / draw_pixmap / apply_mask / Mask::fill_path / intersect_path / "
        "Path::stroke / dash / transform / compute_tight_bounds with coordinates inside, on the borders, on the half-pixel grid, sub-pixel, at +-8191..65536, 1e6..1e9, "
        "1e30..3e38 and 1e-38, all blend modes and shaders, masks, pixmaps 1x1 .. 8200x3 (tiled); targeted families for border-aligned AA hairlines and far-control-point "
        "cubics; a case fails when the call panics, aborts the process or does not return")


def gen_cases(rng, tier):
    n = 6000 if tier == "quick" else 120000
    base = rng.getrandbits(40)
    cases = [("api_fuzz", [base + i, i % 8]) for i in range(n)]
    # the draw tiler, bit-exact against Model/Tiler.v
    for i in range(300 if tier == "quick" else 3000):
        w = rng.choice([1, 100, 8190, 8191, 8192, 8193, 16381, 16382, 16383, 24573, 24574, 40000, rng.randint(1, 70000)])
        h = rng.choice([1, 7, 8191, 8192, 16382, 16383, rng.randint(1, 70000)])
        cases.append(("tiles", [w, h]))
    # draw calls with a mask that matches the pixmap in one dimension only (documented: nothing happens; in particular no
    # read past the mask's rows): mask_ops op 6, masks 9 columns or 9 rows short, non-tiled and tiled targets
    for w_, h_ in [(40, 30), (17, 45), (200, 12), (8200, 4)]:
        for sd in range(4):
            cases.append(("mask_ops", [6, w_, h_, sd]))
    # pixmaps with a dimension of 32768 and more: rectangles, rect paths and strokes reaching past coordinate 32767
    for i in range(12 if tier == "quick" else 120):
        wide = i % 2 == 0
        big = rng.choice([32768, 33000, 40000, 65536])
        w, h = (big, rng.choice([1, 2, 3])) if wide else (rng.choice([1, 2, 3]), big)
        if wide:
            l_, r_ = rng.choice([0, 32760, big - 40]), big - rng.choice([0, 1, 5])
            t_, b_ = 0, h
        else:
            t_, b_ = rng.choice([0, 32760, big - 40]), big - rng.choice([0, 1, 5])
            l_, r_ = 0, w
        cases.append(("big_draw", [w, h, (i // 2) % 2, (i // 4) % 3, l_, t_, r_, b_]))
    return cases


def oracle(suite, args, out):
    if suite == "big_draw":
        if out.startswith(("PANIC", "CRASH", "HANG")):
            return "implementation did not return: " + out[:200]
        o = ints(out)
        if len(o) == 2 and args[3] in (0, 1) and (o[0] != 255 or o[1] != 255):
            return "a rectangle reaching past coordinate 32767 on a %dx%d pixmap is not drawn at its ends (alpha %d, %d)" % (args[0], args[1], o[0], o[1])
        return None
    if suite == "tiles" and not out.startswith(("PANIC", "CRASH", "HANG")):
        o = ints(out)
        if o == [-1]:
            return None if (args[0] <= 8191 and args[1] <= 8191) else "no tiling for a %dx%d target" % (args[0], args[1])
        w, h = args
        area = 0
        for k in range(0, len(o), 4):
            x, y, tw, th = o[k:k + 4]
            if not (1 <= tw <= 8191 and 1 <= th <= 8191 and 0 <= x and 0 <= y and x + tw <= w and y + th <= h):
                return "tile (%d,%d,%d,%d) of a %dx%d target is empty, too large or outside" % (x, y, tw, th, w, h)
            area += tw * th
        if area != w * h:
            return "the tiles of a %dx%d target cover %d pixels" % (w, h, area)
        return None
    if out.startswith("PANIC"):
        return "the call sequence panicked: " + out[6:220]
    if out.startswith("CRASH"):
        return "the process aborted: " + out[:200]
    if out.startswith("HANG") or out.strip() == "-99":
        return "the call sequence did not return within the watchdog time"
    return None


def relation(suite, args, mo, io):
    # C01 is about returning at all: only the tile lists are compared with the model here (the corpus also replays fills of
    # cubics that need CubicEdge's pin, found by tools/dev/find_pin_cubics.py; their spans are C02's subject)
    return mo == io if suite == "tiles" else True


def nontrivial_tag(suite, args, out):
    o = out.split()
    if suite == "tiles":
        return "tiled" if len(o) >= 8 else None
    if suite == "big_draw":
        return "big" if len(o) == 2 else None
    return "family%d" % args[1] if len(o) == 1 and o[0].isdigit() and int(o[0]) > 0 else None
