"""C03 — anti-aliased fill alpha approximates exact area coverage."""
from .common import *
from .geomgen import *

ID = "C03"
PROPS_FILES = ["Props/C03"]
TRUSTED = [
    "Coq 8.16.1 kernel",
    "hand-written bit-exact Model/AlphaRuns.v, Model/SuperBlit.v on top of Model/Edge.v + Model/Walk.v (shift 2), tied by (a) AlphaRuns scripts through the hook, (b) bit-exact blit_anti_h correspondence of scan::path_aa::fill_path on polygons",
    "harness/src/oracle.rs: independent exact classifier; area = 16x16 exact sub-samples per pixel",
]
ASSUMPTIONS = [
    "the quadrature error of 4 sub-scanlines x 1/4-px horizontal steps against true area is the property's tolerance, not a theorem",
    "curves, clipped paths and the aa-rect fast path are judged by the area oracle only (partial)",
]
RULE = ("(a) AlphaRuns scripts shaped like the real caller (4 sub-scanlines of sorted disjoint supersampled spans, touching / "
        "1-px / full-width spans, offset_x reuse) and random ones: runs/alpha arrays bit-exact, and the model's dense view "
        "must equal the per-pixel specification; (b) polygons inside the clip: every blit_anti_h (runs + alpha) bit-exact; "
        "(c) public fill_path(aa) / Mask::fill_path(aa) / fill_rect(aa): alpha within 0.35 (polylines) / 0.5 (curves) of the "
        "exact area near the outline and exactly 0/255 farther than 0.75 / 1.25 px; non-trivial = at least one partial alpha")


def caller_script(rng, width):
    """what SuperBlitter feeds AlphaRuns for one destination row"""
    ops = []
    for sub in range(4):
        maxv = 64 - ((sub + 1) >> 2)
        # sorted disjoint spans in supersampled coordinates [0, 4*width)
        xs = sorted(rng.sample(range(0, 4 * width + 1), min(2 * rng.randint(1, 3), 4 * width)))
        first = True
        off_reset = True
        for a, b in zip(xs[0::2], xs[1::2]):
            if b <= a:
                continue
            start, stop = a, b
            fb, fe = start & 3, stop & 3
            n = (stop >> 2) - (start >> 2) - 1
            if n < 0:
                fb, n, fe = fe - fb, 0, 0
            elif fb == 0:
                n += 1
            else:
                fb = 4 - fb
            ops += [1, start >> 2, (fb << 4) & 255, n, (fe << 4) & 255, maxv] if not off_reset else [3, start >> 2, (fb << 4) & 255, n, (fe << 4) & 255, maxv]
            off_reset = False
    return ops


def gen_cases(rng, tier):
    cases = []
    n = 1500 if tier == "quick" else 25000
    for i in range(n):
        width = rng.choice([1, 2, 3, 5, 8, 16, 31])
        ops = []
        for row in range(rng.randint(1, 2)):
            ops += caller_script(rng, width) + [2]
        cases.append(("aruns", [width] + ops))
    m = 1200 if tier == "quick" else 20000
    for i in range(m):
        w = rng.choice([16, 24, 40])
        ops = rand_path_ops(rng, w / 2, w / 2, w / 2 - 2, curves=False, grid=rng.choice([64.0, 4.0, 1.0, 4096.0]))
        cases.append(("aa_spans", [i % 2, w, w] + ops))
    # the same with quadratic and cubic segments (Model/CurveFill.v: chopping at the y extrema, curve edges as line lists)
    for i in range(800 if tier == "quick" else 12000):
        w = rng.choice([16, 24, 40, 100])
        ops = rand_path_ops(rng, w / 2, w / 2, w / 2 - 2, curves=True, grid=rng.choice([64.0, 4.0, 1.0, 4096.0]))
        cases.append(("aa_spans", [i % 2, w, w] + ops))
    k = 300 if tier == "quick" else 5000
    for i in range(k):
        w, h = rng.choice([(24, 24), (40, 30), (17, 45)])
        cx, cy, r = w / 2, h / 2, min(w, h) / 2 - 2
        if rng.random() < 0.5:
            cx += rng.choice([-1, 1]) * rng.uniform(0.3, 1.2) * w / 2
            cy += rng.choice([-1, 1]) * rng.uniform(0.3, 1.2) * h / 2
            r = r * rng.uniform(0.8, 2.5)
        curves = rng.random() < 0.35
        ops = rand_path_ops(rng, cx, cy, r, curves=curves)
        band, tol = (1250, 500) if curves else (750, 350)
        cases.append(("fill_px", [i % 2, 1, rng.choice([0, 0, 1]), w, h, 0, w, band, tol] + rand_ts(rng) + ops))
    for i in range(100 if tier == "quick" else 1500):
        w = h = 24
        l, t = rng.uniform(0, 12), rng.uniform(0, 12)
        r, b = l + rng.uniform(0.1, 11), t + rng.uniform(0.1, 11)
        cases.append(("fill_px", [0, 1, 2, w, h, 0, w, 750, 350] + list(IDENT) + [5, g(l, 256.0), g(t, 256.0), g(r, 256.0), g(b, 256.0)]))
    # Mask::fill_path onto a mask that already holds data (kind 3): drawn on top, never replaced
    for i in range(40 if tier == "quick" else 500):
        w, h = rng.choice([(24, 24), (40, 30)])
        ops = rand_path_ops(rng, w / 2, h / 2, min(w, h) / 2 - 2, curves=rng.random() < 0.3)
        cases.append(("fill_px", [i % 2, 1, 3, w, h, 0, w, 750, 350] + list(IDENT) + ops))
    for i in range(4 if tier == "quick" else 24):
        ops = rand_path_ops(rng, 8191 + rng.uniform(-6, 6), 10, 9, curves=False)
        # kind 0: Pixmap::fill_path, kind 1: Mask::fill_path (both are tiled above 8191)
        cases.append(("fill_px", [i % 2, 1, (i // 2) % 2, 8230, 20, 8160, 8225, 750, 350] + list(IDENT) + ops))
    # shapes that end a fraction of a pixel to two pixels past the tile seam: the next tile holds only their last column(s)
    for i in range(6 if tier == "quick" else 48):
        over = rng.choice([0.3, 0.45, 0.6, 0.9, 1.3, 1.8])
        x1 = 8191 + over
        x0 = 8191 - rng.uniform(3, 12)
        y0, y1 = rng.uniform(2, 5), rng.uniform(12, 17)
        pts = [(x0, y0), (x1, y0 + rng.uniform(0, 2)), (x1, y1), (x0, y1 - rng.uniform(0, 2))]
        cases.append(("fill_px", [i % 2, 1, (i // 2) % 2, 8230, 20, 8160, 8225, 750, 350] + list(IDENT) + poly_ops(pts, grid=64.0)))
    # wide shapes that start far inside the first tile and end beyond the seam (the path's bounds are much wider than one
    # tile's worth of supersampled columns is not: each tile must be filled with ITS OWN clip), Pixmap and Mask
    for i in range(6 if tier == "quick" else 48):
        x0 = rng.choice([100.0, 4000.5, 7000.25, 8100.0])
        x1 = 8191 + rng.uniform(4, 30)
        y0, y1 = rng.uniform(2, 5), rng.uniform(12, 17)
        pts = [(x0, y0), (x1, y0 + rng.uniform(0, 3)), (x1 - rng.uniform(0, 6), y1), (x0, y1 - rng.uniform(0, 2))]
        cases.append(("fill_px", [i % 2, 1, (i // 2) % 2, 8230, 20, 8160, 8229, 750, 350] + list(IDENT) + poly_ops(pts, grid=64.0)))
    # a width that is an exact multiple of the tile size (8191) with more than one tile row: shapes straddling the horizontal seam
    for i in range(2 if tier == "quick" else 8):
        pts = [(rng.uniform(8, 20), 8184.0 + rng.uniform(0, 3)), (rng.uniform(35, 50), 8186.0), (rng.uniform(35, 50), 8199.0 + rng.uniform(0, 3)), (rng.uniform(8, 20), 8197.0)]
        cases.append(("fill_px", [i % 2, 1, i % 2, 8191, 8211, 0, 60, 750, 350] + list(IDENT) + poly_ops(pts, grid=64.0)))
    # cubic segments (cubic_to, not the quads of circles) crossing the TOP border and, on tiled targets, the top seam of a tile
    for i in range(24 if tier == "quick" else 300):
        w, h = rng.choice([(100, 80), (60, 60)])
        x0, x3 = rng.uniform(5, 25), rng.uniform(w - 30, w - 5)
        ytop = -rng.uniform(10, 60)
        ops = [0, f2b(x0), f2b(h * 0.8), 3, f2b(x0 + rng.uniform(-10, 30)), f2b(ytop), f2b(x3 + rng.uniform(-30, 10)), f2b(ytop * rng.uniform(0.3, 1.0)), f2b(x3), f2b(h * rng.uniform(0.5, 0.9)), 4]
        if i % 3 == 0:   # the cubic dips out through the top and comes back: two crossings
            ops = [0, f2b(x0), f2b(h * 0.3), 3, f2b(x0 + 10), f2b(ytop), f2b(x3 - 10), f2b(ytop), f2b(x3), f2b(h * 0.35), 1, f2b(x3), f2b(h * 0.9), 1, f2b(x0), f2b(h * 0.9), 4]
        cases.append(("fill_px", [i % 2, 1, (i // 2) % 2, w, h, 0, w, 1250, 500] + list(IDENT) + ops))
    # three tiles in a row / in a column (16400 px): shapes in the second tile, across the second seam (16382) and in the third
    for i in range(6 if tier == "quick" else 36):
        xa = [16300.0, 16370.5, 16386.25][i % 3] + rng.uniform(0, 3)
        xb = xa + rng.uniform(6, 12)
        y0, y1 = rng.uniform(1, 4), rng.uniform(7, 11)
        pts = [(xa, y0), (xb, y0 + rng.uniform(0, 1)), (xb, y1), (xa + rng.uniform(0, 2), y1)]
        if (i // 3) % 2 == 0:
            cases.append(("fill_px", [i % 2, 1, (i // 6) % 2, 16400, 12, 16290, 16399, 750, 350] + list(IDENT) + poly_ops(pts, grid=64.0)))
        else:   # the same transposed: a 12 x 16400 pixmap, the picture moved to the last rows by the transform
            cases.append(("fill_px", [i % 2, 1, (i // 6) % 2, 12, 16400, 0, 12, 750, 350] + [0, f2b(1.0), f2b(1.0), 0, 0, 0] + poly_ops(pts, grid=64.0)))
    return cases


def oracle(suite, args, out):
    if suite == "aruns":
        return None
    if out.startswith(("PANIC", "CRASH", "HANG")):
        return "implementation did not return: " + out[:200]
    if suite == "fill_px":
        o = ints(out)
        if len(o) >= 7 and o[2] > 0:
            return "%d pixels violate the coverage bound; first: pixel (%d,%d) alpha %d, exact coverage*255 = %.1f" % (
                o[2], o[3], o[4], o[5], o[6] / 1000.0)
        if len(o) >= 8 and o[7] > 0:
            return "COMPLEX: %d pixels crossed by three or more outline segments exceed the coverage tolerance" % o[7]
    if suite == "aa_spans" and "-77" in out.split():
        return "unexpected blitter call from the AA filler"
    return None


def known_class(suite, args, out, what):
    if suite == "fill_px" and what.startswith("COMPLEX"):
        return "C03-many-edges-per-pixel"
    return None


def alpha_map(out):
    """the blit_anti_h calls of an aa_spans output as {(x, y): alpha} over the pixels with non-zero alpha"""
    try:
        t = [int(x) for x in out.split()]
    except ValueError:
        return None
    i, px = 0, {}
    while i < len(t):
        if i + 3 > len(t):
            return None
        x, y, n = t[i:i + 3]
        if n < 0 or i + 3 + 2 * n + 1 > len(t):
            return None
        runs = t[i + 3:i + 3 + n + 1]
        al = t[i + 3 + n + 1:i + 3 + 2 * n + 1]
        i += 3 + 2 * n + 1
        j = 0
        while j < n:
            r = runs[j]
            if r <= 0:
                break
            if al[j]:
                for k in range(r):
                    if (x + j + k, y) in px:
                        return None
                    px[(x + j + k, y)] = al[j]
            j += r
    return px


def relation(suite, args, mo, io):
    if mo == io or mo.strip() == "-9":
        return True
    if mo.strip() == "-1" and io.startswith("PANIC"):
        return True
    if suite == "aa_spans":
        from .c02 import has_curve_ops
        if has_curve_ops(args[3:]):
            # curve edges: the model walks the flattened line lists (see C02), touching supersampled spans may be split
            # or joined, which changes how a row is cut into runs but not the alpha of any pixel
            a, b = alpha_map(mo), alpha_map(io)
            return a is not None and a == b
    if suite == "aruns":
        # the model appends: -5 dense(view of runs) -5 dense(spec); the first three segments must match the implementation
        m = mo.split("-5")
        if len(m) != 5:
            return False
        head = "-5".join(m[:3]).split()
        if head != io.split():
            return False
        return m[3].split() == m[4].split()    # runs refine the dense specification
    return False


def nontrivial_tag(suite, args, out):
    if suite == "aruns":
        return "script" if not out.startswith("PANIC") else None
    if suite == "aa_spans":
        return "aa" if len(out.split()) > 3 else None
    o = out.split()
    return "px" if len(o) >= 3 and o[0].isdigit() and int(o[1]) > 0 else None
