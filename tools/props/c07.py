"""C07 — dashing cuts the path at the arc lengths given by the dash pattern."""
from .common import *
from .geomgen import *

ID = "C07"
PROPS_FILES = ["Props/C07"]
TRUSTED = [
    "Coq 8.16.1 kernel; Flocq binary32 (bit-exact StrokeDash::new, polyline measuring, push_segment)",
    "Model/Dash.v: the interval bookkeeping is ONE generic Gallina definition, proved in its Z instance and run in its binary32 instance against Path::dash (bit-exact on polylines)",
    "harness/src/c07.rs f64 arc-length oracle (emitted points on the source, on-length, coverage of 'on' samples, the million-dash limit)",
]
ASSUMPTIONS = [
    "curve measuring (compute_quad_segs / compute_cubic_segs, chop_*_at) is not modelled: oracle only (partial)",
    "the theorems are about exact arithmetic (Z instance of the generic loop); binary32 rounding of the running distance is tied by correspondence and the oracle tolerance only",
]
RULE = ("(a) StrokeDash::new on boundary values / 2..12 entries incl. zeros, NaN, inf, odd lengths: acceptance and (offset, interval_len, first_len, "
        "first_index) bit-exact; (b) Path::dash on multi-contour open/closed polylines with zero-length segments and contours: output path bit-exact; "
        "(c) all paths incl. curves: f64 oracle; non-trivial = at least one piece emitted")


def rand_dash(rng, scale=1.0):
    n = rng.choice([2, 2, 2, 4, 4, 6, 8, 12])
    arr = []
    for _ in range(n):
        k = rng.random()
        if k < 0.15:
            arr.append(0.0)
        elif k < 0.5:
            arr.append(rng.choice([0.25, 0.5, 1, 2, 3, 5, 8]) * scale)
        else:
            arr.append(round(rng.uniform(0.05, 10.0) * scale, 3))
    if sum(arr) == 0:
        arr[0] = 1.0
    s = sum(arr)
    k = rng.random()
    if k < 0.3:
        off = 0.0
    elif k < 0.6:
        off = rng.uniform(-2 * s, 2 * s)
    elif k < 0.75:
        off = rng.choice([s, -s, 2 * s, arr[0], -arr[0], arr[0] + arr[1], s * 1e3, -s * 1e3])
    elif k < 0.9:
        off = rng.uniform(-1e6, 1e6)
    else:
        off = rng.choice([1e9, -1e9, 1e20, -1e20, 3e38, -3e38]) * rng.uniform(0.5, 1.0)
    return [f2b(off), n] + [f2b(a) for a in arr]


def gen_cases(rng, tier):
    cases = []
    q = tier == "quick"
    # (a) StrokeDash::new
    for i in range(3000 if q else 40000):
        k = rng.random()
        if k < 0.5:
            cases.append(("dash_new", rand_dash(rng, rng.choice([1.0, 1.0, 1e-3, 1e4, 1e-20, 1e30]))))
        else:
            n = rng.choice([0, 1, 2, 2, 3, 4, 4, 5, 6, 12, 13])
            vals = [rng.choice(BOUNDARY_F32 + [f2b(1.0), f2b(2.0), f2b(0.5), 0, 0]) for _ in range(n)]
            cases.append(("dash_new", [rng.choice(BOUNDARY_F32 + [0, f2b(1.5), f2b(-1.5)]), n] + vals))
    # (b) polylines, bit-exact
    for i in range(1500 if q else 20000):
        d = rand_dash(rng, rng.choice([1.0, 1.0, 3.0, 0.3]))
        ops = []
        for c in range(rng.choice([1, 1, 2, 3])):
            npts = rng.randint(1, 6)
            pts = [(rng.uniform(0, 40), rng.uniform(0, 40))]
            if rng.random() < 0.12:          # a zero-length contour (M p L p), possibly closed, before / between the others
                ops += poly_ops([pts[0], pts[0]], close=rng.random() < 0.5, grid=rng.choice([64.0, 4.0, 1.0]))
                continue
            for _ in range(npts - 1):
                if rng.random() < 0.15:
                    pts.append(pts[-1])   # zero-length segment
                elif rng.random() < 0.3:
                    pts.append((pts[-1][0] + rng.choice([-8, 4, 16, 0]), pts[-1][1] + rng.choice([0, 0, 8, -4])))
                else:
                    pts.append((rng.uniform(0, 40), rng.uniform(0, 40)))
            closed = rng.random() < 0.5
            if closed and len(pts) >= 3 and rng.random() < 0.3:
                pts.append(pts[0])        # the contour returns to its start point before close(): no closing edge is added
            ops += poly_ops(pts, close=closed, grid=rng.choice([64.0, 4.0, 1.0]))
        cases.append(("dash", d + [f2b(rng.choice([1.0, 0.5, 4.0]))] + ops))
    # exact coincidences: axis-aligned polylines of integer length with integer dash arrays, so that interval boundaries land
    # exactly on segment ends, on the contour end and on the start point of closed contours (both suites: bit-exact and oracle)
    for i in range(400 if q else 5000):
        n = rng.choice([2, 2, 4])
        arr = [float(rng.choice([1, 2, 5, 10, 15, 20, 0 if rng.random() < 0.2 else 5])) for _ in range(n)]
        if sum(arr) == 0:
            arr[0] = 5.0
        off = float(rng.choice([0, 0, 5, 10, 13, -5, sum(arr), arr[0]]))
        x, y = float(rng.randint(0, 20)), float(rng.randint(0, 20))
        pts = [(x, y)]
        for _ in range(rng.randint(1, 4)):
            step = rng.choice([5, 10, 20, 30, 40])
            if rng.random() < 0.5:
                x += rng.choice([-1, 1]) * step
            else:
                y += rng.choice([-1, 1]) * step
            pts.append((x, y))
        closed = rng.random() < 0.5
        shape = rng.random()
        if shape < 0.3:           # a w x h rectangle, optionally returning to the start explicitly
            w_, h_ = rng.choice([20, 30, 40]), rng.choice([10, 30])
            pts = [(x, y), (x + w_, y), (x + w_, y + h_), (x, y + h_)]
            closed = True
            if rng.random() < 0.5:
                pts.append((x, y))
        ops = poly_ops(pts, close=closed, grid=1.0)
        d = [f2b(off), n] + [f2b(a) for a in arr]
        cases.append(("dash" if i % 2 == 0 else "dash_geo", d + [f2b(1.0)] + ops))
    # dashes near / over the million-dash limit (returns before looping)
    for i in range(40 if q else 400):
        length = rng.choice([1e3, 1e4, 1e5])
        per = length / rng.choice([1.01e6, 1.2e6, 5e6, 1e3, 300])
        arr = [per / 2, per / 2]
        cases.append(("dash", [0, 2] + [f2b(a) for a in arr] + [f2b(1.0)] + poly_ops([(0, 0), (length, 0)], close=False, grid=1.0)))
    # (c) oracle on all paths
    for i in range(3 if q else 20):   # the million-dash budget is per path, not per contour
        length = rng.choice([1e3, 1e4])
        per = length / rng.choice([0.55e6, 0.7e6, 0.4e6])
        k = rng.choice([2, 3])
        ops = []
        for c in range(k):
            ops += poly_ops([(0, c), (length, c)], close=False, grid=1.0)
        cases.append(("dash_geo", [0, 2, f2b(per / 2), f2b(per / 2), f2b(1.0)] + ops))
    for i in range(6 if q else 60):
        length = rng.choice([1e3, 1e4, 1e5])
        per = length / rng.choice([0.9e6, 0.97e6, 1.03e6, 1.2e6])
        cases.append(("dash_geo", [0, 2, f2b(per / 2), f2b(per / 2), f2b(1.0)] + poly_ops([(0, 0), (length, 0)], close=False, grid=1.0)))
    for i in range(1500 if q else 20000):
        d = rand_dash(rng, rng.choice([1.0, 1.0, 3.0, 0.3]))
        if b2f(d[0]) > 1e8 or b2f(d[0]) < -1e8:
            d[0] = f2b(rng.uniform(-50, 50))
        ops = rand_path_ops(rng, 30, 30, rng.uniform(5, 30), curves=rng.random() < 0.6, grid=16.0)
        if rng.random() < 0.15:   # a zero-length contour first
            zp = (rng.uniform(0, 40), rng.uniform(0, 40))
            ops = poly_ops([zp, zp], close=rng.random() < 0.5, grid=16.0) + ops
        cases.append(("dash_geo", d + [f2b(rng.choice([1.0, 1.0, 0.5, 4.0, 16.0, 64.0]))] + ops))
    return cases


def oracle(suite, args, out):
    if out.startswith(("PANIC", "CRASH", "HANG")):
        return "implementation did not return: " + out[:200]
    o = ints(out)
    if suite == "dash_new":
        n = args[1]
        vals = [b2f(v) for v in args[2:2 + n]]
        off = b2f(args[0])
        fin = lambda v: v == v and abs(v) != float("inf")
        s = 0.0
        for v in vals:   # f32 running sum
            s = b2f(f2b(s + v)) if fin(s + v) and abs(s + v) < 3.5e38 else (s + v)
        documented = (n >= 2 and n % 2 == 0 and all(fin(v) and v >= 0 for v in vals) and fin(off) and fin(s) and s > 0
                      and abs(s) <= 3.4028234663852886e38)
        accepted = o[0] != -1
        if accepted != documented:
            # the running f32 sum above may differ from the implementation's only at overflow: recheck loosely
            if all(fin(v) and v >= 0 for v in vals) and n >= 2 and n % 2 == 0 and fin(off) and sum(vals) > 3.0e38:
                return None
            return "StrokeDash::new %s an array the documentation says it %s: n=%d vals=%r off=%r" % (
                "accepted" if accepted else "rejected", "rejects" if accepted else "accepts", n, vals, off)
        if accepted and len(o) == 4:
            offn, il, fl, fi = b2f(o[0]), b2f(o[1]), b2f(o[2]), o[3]
            if not (0 <= offn < il) or not (0 <= fi < n) or not (0 <= fl <= vals[fi]):
                return "StrokeDash::new internal state out of range: offset %r interval_len %r first_len %r first_index %d" % (offn, il, fl, fi)
        return None
    if suite == "dash_geo":
        if not o or o[0] < 0 or o[0] == 1:
            return None
        if o[0] == 2:
            return "Path::dash returned None although %g of 'on' length is expected and fewer than a million dashes are needed" % (o[4] / 1e6)
        if o[0] == 3:
            return "Path::dash returned a result although more than a million dashes are needed"
        st, pieces, exp_pieces, off_path, len_err, tol, uncovered, samples, fx, fy = o[:10]
        if off_path > 0:
            return "%d emitted points do not lie on the source path (first (%.3f,%.3f))" % (off_path, fx / 1000, fy / 1000)
        if len_err > tol:
            return "total emitted length differs from the expected 'on' length by %.4f (tolerance %.4f)" % (len_err / 1e6, tol / 1e6)
        if uncovered > 0:
            return "%d of %d source points inside 'on' intervals are not covered by an emitted piece (first (%.3f,%.3f))" % (uncovered, samples, fx / 1000, fy / 1000)
        if len(o) >= 12 and o[10] >= 0 and o[10] != o[11]:
            return "%d pieces (move_to's) emitted where the exact dasher emits %d (zero-length dots included)" % (o[11], o[10])
        if pieces > exp_pieces:
            return "%d pieces emitted, at most %d expected" % (pieces, exp_pieces)
    return None


def relation(suite, args, mo, io):
    if mo == io:
        return True
    if suite == "dash_geo":
        return mo.strip() == "-9"
    if mo.strip() == "-2" and io.startswith("PANIC"):
        return True
    return False


def nontrivial_tag(suite, args, out):
    o = out.split()
    if suite == "dash_new":
        return "accepted" if len(o) == 4 else None
    if suite == "dash":
        return "pieces" if len(o) > 4 and o[0].isdigit() and int(o[0]) >= 2 else None
    return "geo" if len(o) >= 8 and o[0] == "0" and int(o[1]) > 0 else None
