"""C14 — every Path value satisfies the documented structural guarantees."""
import itertools
from .common import *

ID = "C14"
PROPS_FILES = ["Props/C14"]
FRAGMENTS = ["stroker-fields"]
TRUSTED = [
    "Coq 8.16.1 kernel (coqc, vm_compute); no native_compute",
    "Flocq 4.1.0 IEEE754.BinarySingleNaN as the definition of binary32/binary64 arithmetic",
    "Base/F32.v wrappers for Rust f32::min/max, comparisons and casts",
    "hand-written models Model/PathBuilder.v, Model/Rect.v, Model/Conic.v tied to path/src/path_builder.rs, rect.rs, path_geometry.rs by the bit-exact op-sequence correspondence (tools/props/c14.py, harness/src/c14.rs)",
    "extraction (ExtrOcamlBasic only) + ocaml/model_run.ml + harness/src/bin/impl_run.rs + comparison in tools/vp.py",
]
ASSUMPTIONS = [
    "Vec is modelled as a list (capacity unobservable)",
    "Path::stroke / Path::dash outputs are covered through the builder theorem only in so far as those producers use the modelled builder methods (checked by the C05/C07 correspondences)",
]
RULE = ("builder call sequences: exhaustive over all sequences up to length L (L=4 quick, 5 thorough) over a 12-op alphabet (incl. finish+Path::clear rebuild) "
        "with fixed small arguments, plus seeded random sequences (length 1..60) with arguments from a boundary pool "
        "(finite, huge, subnormal, +-0, inf, NaN), nested push_path; Path::transform of built paths under identity/translate/scale/general/non-finite matrices with fractional coordinates; a case is non-trivial when finish returns a path; "
        "distinct = distinct case line")

POOL_FINITE = [0, f2b(1.0), f2b(-1.0), f2b(2.5), f2b(100.0), NZERO, f2b(1e-3), f2b(37.25), f2b(-512.0)]
POOL_EDGE = [f2b(1e30), f2b(-1e30), MAXF, NMAXF, 1, f2b(1e19), f2b(3e38)]
POOL_BAD = [INF, NINF, NAN]

A = f2b(1.0); B = f2b(2.0); C = f2b(3.0); Z = 0

ALPHABET = [
    [0, A, A], [0, B, Z], [1, B, B], [1, Z, C], [2, A, B, C, A], [3, A, Z, B, C, C, Z], [4],
    [5, Z, Z, B, C], [6, Z, Z, B, B], [7, A, A, A], [9], [10],
]
SUBPATHS = [[0, Z, Z, 1, A, A], [5, Z, Z, A, A], [0, A, B, 1, B, A, 4, 1, C, C]]


def rand_f(rng, bad):
    r = rng.random()
    if r < 0.75:
        return rng.choice(POOL_FINITE)
    if r < 0.9:
        return rng.choice(POOL_EDGE)
    if bad and r < 0.96:
        return rng.choice(POOL_BAD)
    return f2b(rng.uniform(-1000, 1000))


def rand_ops(rng, n, bad, depth=0):
    out = []
    for _ in range(n):
        k = rng.choice([0, 0, 1, 1, 1, 2, 3, 4, 4, 5, 6, 7, 8, 9, 10, 11] if depth == 0 else [0, 1, 1, 2, 3, 4, 5])
        if k == 0 or k == 1:
            out += [k, rand_f(rng, bad), rand_f(rng, bad)]
        elif k == 2:
            out += [2] + [rand_f(rng, bad) for _ in range(4)]
        elif k == 3:
            out += [3] + [rand_f(rng, bad) for _ in range(6)]
        elif k == 4 or k == 9 or k == 10 or k == 11:
            if k != 4 and rng.random() < 0.6:
                k = 4
            out += [k]
        elif k == 5 or k == 6:
            l, t = rand_f(rng, bad), rand_f(rng, bad)
            if rng.random() < 0.8:
                w, h = abs(b2f(rng.choice(POOL_FINITE))), abs(b2f(rng.choice(POOL_FINITE)))
                lf, tf = b2f(l), b2f(t)
                try:
                    out += [k, l, t, f2b(lf + w), f2b(tf + h)]
                except (OverflowError, ValueError):
                    out += [k, l, t, l, t]
            else:
                out += [k, l, t, rand_f(rng, bad), rand_f(rng, bad)]
        elif k == 7:
            out += [7, rand_f(rng, bad), rand_f(rng, bad), rand_f(rng, bad)]
        elif k == 8:
            sub = rand_ops(rng, rng.randint(1, 5), bad, depth + 1)
            out += [8, len(sub)] + sub
    return out


def rand_ops_frac(rng, n):
    out = []
    fr = lambda: f2b(rng.choice([0.1, 0.2, 0.7, 1.1, 0.9, 2.5, -0.3, 17.35, 100.0, 0.0]))
    for _ in range(n):
        k = rng.choice([0, 1, 1, 1, 2, 3, 4])
        out += [k] + [fr() for _ in range({0: 2, 1: 2, 2: 4, 3: 6, 4: 0}[k])]
    return out


def gen_cases(rng, tier):
    cases = []
    L = 4 if tier == "quick" else 5
    alpha = ALPHABET + [[8, len(s)] + s for s in SUBPATHS[:2 if tier == "quick" else 3]]
    for n in range(1, L + 1):
        if n == L and tier == "quick":
            # the full last level is 13^4 = 28561 cases; keep it
            pass
        for seq in itertools.product(range(len(alpha)), repeat=n):
            args = []
            for i in seq:
                args += alpha[i]
            cases.append(("c14_builder", args))
    # the same sequences on a builder obtained from PathBuilder::default()
    for n in range(1, 4):
        for seq in itertools.product(range(len(alpha)), repeat=n):
            args = [11]
            for i in seq:
                args += alpha[i]
            cases.append(("c14_builder", args))
    nrand = 4000 if tier == "quick" else 60000
    for i in range(nrand):
        bad = (i % 4 == 0)
        cases.append(("c14_builder", rand_ops(rng, rng.randint(1, 60 if i % 10 == 0 else 12), bad)))
    # Path::transform: identity, translate, scale+translate, general; fractional and boundary entries
    ntr = 3000 if tier == "quick" else 40000
    for i in range(ntr):
        kind = i % 5
        fr = lambda: f2b(rng.choice([0.1, 0.3, 0.7, 1.1, -2.3, 0.2, 1e-3, 123.456, 3.3333333]))
        if kind == 0:
            t = [A, Z, Z, A, fr(), fr()]
        elif kind == 1:
            t = [fr(), Z, Z, fr(), fr(), fr()]
        elif kind == 2:
            t = [fr(), fr(), fr(), fr(), fr(), fr()]
        elif kind == 3:
            t = [rand_f(rng, True) for _ in range(6)]
        else:
            t = [A, Z, Z, A, rng.choice([Z, NZERO]), Z]
        ops = rand_ops_frac(rng, rng.randint(2, 8))
        cases.append(("c14_transform", t + ops))
    # Rect::from_points directly: lengths 0..9, boundary values (NaN / inf in every position)
    for n in range(0, 10):
        for _ in range(60 if tier == "quick" else 600):
            pts = []
            for _ in range(2 * n):
                pts.append(rand_f(rng, True))
            cases.append(("from_points", pts))
        for pos in range(2 * n):
            for badv in POOL_BAD + [MAXF, NMAXF]:
                pts = [rng.choice(POOL_FINITE) for _ in range(2 * n)]
                pts[pos] = badv
                cases.append(("from_points", pts))
    # structure and compute_tight_bounds of built paths and of the outputs of stroke / dash (public API, f64 reference)
    from .geomgen import rand_path_ops
    for i in range(1500 if tier == "quick" else 20000):
        ops = rand_path_ops(rng, 50, 50, rng.uniform(5, 60), curves=rng.random() < 0.8, grid=rng.choice([16.0, 1.0, 256.0]))
        cases.append(("tight_bounds", [rng.choice([0, 0, 0, 1, 2])] + ops))
    # coordinates with full 24-bit mantissas (a grid of 2^-20 and decimal values such as 0.8 or 50.3): a bound recomputed as
    # (max - min) + min does not give max back
    for i in range(400 if tier == "quick" else 5000):
        ops = rand_path_ops(rng, rng.choice([0.0, 50.0, 13.37]), rng.choice([0.0, 50.0, -7.1]), rng.uniform(5, 60), curves=rng.random() < 0.5,
                            grid=rng.choice([1048576.0, 10.0, 3.0, 1000.0]))
        cases.append(("tight_bounds", [0] + ops))
    # the constructors that bypass the builder ops: from_rect (stores the Rect as bounds without recomputing) and from_oval,
    # on rectangles with full-mantissa edges
    for i in range(400 if tier == "quick" else 5000):
        gr = rng.choice([10.0, 10.0, 3.0, 1000.0, 1048576.0, 1.0])
        x0, y0 = round(rng.uniform(-50, 200) * gr) / gr, round(rng.uniform(-50, 200) * gr) / gr
        x1, y1 = x0 + round(rng.uniform(0.5, 250) * gr) / gr, y0 + round(rng.uniform(0.5, 250) * gr) / gr
        cases.append(("tight_bounds", [3 + (i % 4 == 3), f2b(x0), f2b(y0), f2b(x1), f2b(y1)]))
    # curves of huge but finite magnitude (1e19 .. 3e30): the extrema must still be found
    for i in range(60 if tier == "quick" else 600):
        sc = rng.choice([1e19, 1e20, 1e25, 3e30, 1e15])
        P = lambda: (rng.uniform(-4, 4) * sc, rng.uniform(-1, 1) * sc)
        p0, p1, p2, p3 = P(), P(), P(), P()
        ops = [0, f2b(p0[0]), f2b(p0[1]), 3, f2b(p1[0]), f2b(p1[1]), f2b(p2[0]), f2b(p2[1]), f2b(p3[0]), f2b(p3[1])]
        if i % 3 == 0:
            ops += [2, f2b(P()[0]), f2b(P()[1]), f2b(P()[0]), f2b(P()[1])]
        cases.append(("tight_bounds", [0] + ops))
    return cases


def oracle(suite, args, out):
    if out.startswith("PANIC") or out.startswith("CRASH") or out.startswith("HANG"):
        return "implementation did not return: " + out[:200]
    o = ints(out)
    if suite == "tight_bounds":
        if len(o) >= 5 and o[0] == 0:
            what = ["the path", "the stroked path", "the dashed path", "PathBuilder::from_rect", "PathBuilder::from_oval"][args[0] % 5]
            if o[1] != 0:
                return "%s breaks a structural guarantee (%s)" % (what, {1: "fewer than two verbs", 2: "does not start with Move", 3: "two consecutive Moves",
                        4: "two consecutive Closes", 5: "a non-Move verb follows Close", 6: "point count does not match the verbs", 7: "non-finite point",
                        8: "bounds() is not the bounding box of the points", 9: "segments() does not replay the verbs"}.get(o[1], str(o[1])))
            if o[2] == 1:
                return "compute_tight_bounds of %s is not within bounds()" % what
            if o[2] == 2:
                return "compute_tight_bounds of %s is %.3f where the true extent of the curves is %.3f" % (what, o[3] / 1000.0, o[4] / 1000.0)
            if o[2] == 3:
                return "compute_tight_bounds of %s returned None" % what
        return None
    if suite == "from_points":
        if o == [-1]:
            # None is required exactly when there is no point, a non-finite coordinate, or an overflowing extent
            n = len(args) // 2
            if n == 0:
                return None
            if any(not is_finite_bits(b) for b in args[:2 * n]):
                return None
            xs = [b2f(b) for b in args[0:2 * n:2]]; ys = [b2f(b) for b in args[1:2 * n:2]]
            if max(xs) - min(xs) < 3.4028234663852886e38 and max(ys) - min(ys) < 3.4028234663852886e38:
                return "from_points returned None for finite points with representable extent"
            return None
        n = len(args) // 2
        pts = args[:2 * n]
        return check_bounds(pts, o)
    if o in ([-1], [-2], [-3]):
        return None
    nv = o[0]
    verbs = o[1:1 + nv]
    npnt = o[1 + nv]
    pts = o[2 + nv:2 + nv + 2 * npnt]
    bounds = o[2 + nv + 2 * npnt:]
    if nv < 2:
        return "fewer than two verbs"
    if verbs[0] != 0:
        return "does not start with Move"
    for a, b in zip(verbs, verbs[1:]):
        if a == 0 and b == 0:
            return "two consecutive Moves"
        if a == 4 and b == 4:
            return "two consecutive Closes"
        if a == 4 and b != 0:
            return "a non-Move verb follows Close"
    need = sum({0: 1, 1: 1, 2: 2, 3: 3, 4: 0}[v] for v in verbs)
    if need != npnt:
        return "point count %d does not match verbs (%d)" % (npnt, need)
    return check_bounds(pts, bounds)


def check_bounds(pts, bounds):
    if any(not is_finite_bits(b) for b in pts):
        return "a point is not finite"
    if len(bounds) != 4:
        return "malformed bounds"
    xs = [b2f(b) for b in pts[0::2]]; ys = [b2f(b) for b in pts[1::2]]
    l, t, r, b = [b2f(x) for x in bounds]
    if (l, t, r, b) != (min(xs), min(ys), max(xs), max(ys)):
        return "bounds %r are not the bounding box %r" % ((l, t, r, b), (min(xs), min(ys), max(xs), max(ys)))
    return None


def canon(out):
    # -0.0 and +0.0 in the bounds are the same rectangle; f32::min/max may return either
    return out


def relation(suite, args, mo, io):
    if mo == io:
        return True
    if suite == "tight_bounds":
        return mo.strip() == "-9"
    # the sign of a zero bound is unspecified by f32::min/max: compare bounds up to -0 == +0
    a, b = mo.split(), io.split()
    if len(a) != len(b) or len(a) < 4 or a[:-4] != b[:-4]:
        return False
    z = {"0", str(NZERO)}
    return all(x == y or (x in z and y in z) for x, y in zip(a[-4:], b[-4:]))


def nontrivial_tag(suite, args, out):
    if out in ("-1", "-2", "-3"):
        return None
    if suite == "from_points":
        return "from_points:some:%d" % (len(args) // 2)
    if suite == "tight_bounds":
        return "tight:%d" % (args[0] % 3) if out.startswith("0 ") else None
    o = ints(out) if out and out[0].isdigit() else None
    if not o:
        return None
    return "%s:verbs=%d" % (suite, min(o[0], 20))


def shrink_case(suite, args):
    # drop one integer-aligned op at a time is encoding-specific; use simple chunk removal candidates
    cands = []
    if suite == "c14_builder":
        ops = split_ops(args)
        for i in range(len(ops)):
            c = [x for j, o in enumerate(ops) if j != i for x in o]
            cands.append(c)
    return cands


def split_ops(args):
    ar = {0: 3, 1: 3, 2: 5, 3: 7, 4: 1, 5: 5, 6: 5, 7: 4, 9: 1}
    out = []
    i = 0
    while i < len(args):
        k = args[i]
        if k == 8 and i + 1 < len(args):
            n = args[i + 1]
            out.append(args[i:i + 2 + n]); i += 2 + n
        elif k in ar:
            out.append(args[i:i + ar[k]]); i += ar[k]
        else:
            out.append(args[i:]); break
    return out
