"""C05 — a stroked outline is the path's offset region: nothing missing, nothing far away."""
import math
from .common import *
from .geomgen import *

ID = "C05"
PROPS_FILES = ["Props/C05"]
TRUSTED = [
    "Coq 8.16.1 kernel",
    "Model/StrokeJoin.v: ideal (real-number) geometry of the miter / bevel / square-cap constructions of path/src/stroker.rs",
    "harness/src/c05.rs oracle: exact winding of the stroked outline (i128), f64 distance to the source path",
]
ASSUMPTIONS = [
    "the stroker itself (float offsetting, curve subdivision, inner/outer builder bookkeeping) is not modelled: the theorems are about the join / cap constructions in exact arithmetic, the implementation is tied to the property by the oracle only (partial)",
    "curved pieces are judged for coverage only where they turn gently relative to the stroke width",
]
RULE = ("Path::stroke on polylines and curves (zero-length segments and contours, repeated points, 180-degree reversals, nearly collinear joins, cusps) x widths 0.05..300 "
        "x 3 caps x 4 joins x miter limits 0.5..20 x resolution scales: (lower) every point of the shrunk offset rectangle of each straight piece is inside the outline "
        "(exact winding), zero-length contours with round/square caps are dots; (upper) every outline vertex and edge midpoint is within width/2 * max(1, limit | sqrt 2) of the path")


def rand_stroke_path(rng):
    k = rng.random()
    ops = []
    sc = rng.choice([10, 40, 40, 150])
    def P():
        return (round(rng.uniform(-sc, sc), 2), round(rng.uniform(-sc, sc), 2))
    for c in range(rng.choice([1, 1, 1, 2, 3])):
        kk = rng.random()
        p0 = P()
        ops += [0, f2b(p0[0]), f2b(p0[1])]
        if kk < 0.12:      # zero-length contour
            if rng.random() < 0.5:
                ops += [1, f2b(p0[0]), f2b(p0[1])]
            else:
                ops += [4]
            continue
        last = p0
        for s in range(rng.randint(1, 5)):
            t = rng.random()
            if t < 0.5:
                q = P()
                if rng.random() < 0.12:
                    q = last                                   # repeated point
                elif rng.random() < 0.1 and s > 0:
                    q = (2 * last[0] - q[0], last[1])          # whatever direction
                ops += [1, f2b(q[0]), f2b(q[1])]
                last = q
            elif t < 0.58:  # exact reversal
                q = P()
                ops += [1, f2b(q[0]), f2b(q[1]), 1, f2b(last[0]), f2b(last[1])]
            elif t < 0.66:  # nearly collinear / nearly reversing
                q = P()
                d = (q[0] - last[0], q[1] - last[1])
                e = rng.choice([1e-3, 1e-2, 0.1])
                sgn = rng.choice([1, -1])
                q2 = (q[0] + sgn * d[0] - e * d[1], q[1] + sgn * d[1] + e * d[0])
                q2 = (round(q2[0], 3), round(q2[1], 3))
                ops += [1, f2b(q[0]), f2b(q[1]), 1, f2b(q2[0]), f2b(q2[1])]
                last = q2
            elif t < 0.72:  # axis-aligned right angle
                q = (last[0] + rng.choice([-20, 15, 30]), last[1])
                q2 = (q[0], q[1] + rng.choice([-20, 15, 30]))
                ops += [1, f2b(q[0]), f2b(q[1]), 1, f2b(q2[0]), f2b(q2[1])]
                last = q2
            elif t < 0.87:
                a, b = P(), P()
                dk = rng.random()
                if dk < 0.08:
                    a = last                                   # control point on the start point
                elif dk < 0.16:
                    a = b                                      # control point on the end point
                elif dk < 0.22:                                # collinear, control point beyond the end point
                    a = (b[0] + 0.5 * (b[0] - last[0]), b[1] + 0.5 * (b[1] - last[1]))
                ops += [2, f2b(a[0]), f2b(a[1]), f2b(b[0]), f2b(b[1])]
                last = b
            else:
                a, b, c2 = P(), P(), P()
                dk = rng.random()
                if dk < 0.07:
                    a = last                                   # P0 == P1
                elif dk < 0.14:
                    b = c2                                     # P2 == P3
                elif dk < 0.19:
                    a, b = last, c2                            # a straight cubic
                elif dk < 0.24:
                    b = a                                      # P1 == P2
                elif dk < 0.28:                                # collinear with control points outside the end points
                    d = (c2[0] - last[0], c2[1] - last[1])
                    a = (last[0] - 0.3 * d[0], last[1] - 0.3 * d[1])
                    b = (c2[0] + 0.4 * d[0], c2[1] + 0.4 * d[1])
                ops += [3, f2b(a[0]), f2b(a[1]), f2b(b[0]), f2b(b[1]), f2b(c2[0]), f2b(c2[1])]
                last = c2
        if rng.random() < 0.35:
            ops += [4]
    return ops


def gen_cases(rng, tier):
    cases = []
    q = tier == "quick"
    for i in range(2500 if q else 30000):
        width = rng.choice([0.05, 0.5, 1.0, 2.0, 5.0, 10.0, 20.0, 20.0, 60.0, 300.0])
        miter = rng.choice([0.5, 1.0, 1.05, 1.2, 1.41, 1.5, 2.0, 4.0, 4.0, 10.0, 20.0])
        res = rng.choice([1.0, 1.0, 1.0, 0.25, 4.0])
        cases.append(("stroke_geo", [f2b(width), f2b(miter), rng.randrange(3), rng.randrange(4), f2b(res)] + rand_stroke_path(rng)))
    # a straight line and a gently curved cubic (quarter-circle-like, radius >= the stroke width) in both orders, all caps: the
    # caps at a curved end and the offset curves next to them
    for i in range(120 if q else 1500):
        R = rng.choice([60.0, 100.0, 150.0])
        width = R * rng.choice([0.3, 0.6, 0.9, 1.0])
        k = 0.5523 * R
        a0 = rng.choice([0.0, math.pi / 2, rng.uniform(0, 6.283)])
        rot = lambda x, y: (round(200 + x * math.cos(a0) - y * math.sin(a0), 2), round(200 + x * math.sin(a0) + y * math.cos(a0), 2))
        l0, p0, c1, c2, p3 = rot(-R * rng.uniform(0.8, 1.6), 0), rot(0, 0), rot(k, 0), rot(R, R - k), rot(R, R)
        if i % 2 == 0:     # line then cubic
            ops = [0, f2b(l0[0]), f2b(l0[1]), 1, f2b(p0[0]), f2b(p0[1]), 3, f2b(c1[0]), f2b(c1[1]), f2b(c2[0]), f2b(c2[1]), f2b(p3[0]), f2b(p3[1])]
        else:              # cubic then line (the same geometry traversed backwards)
            ops = [0, f2b(p3[0]), f2b(p3[1]), 3, f2b(c2[0]), f2b(c2[1]), f2b(c1[0]), f2b(c1[1]), f2b(p0[0]), f2b(p0[1]), 1, f2b(l0[0]), f2b(l0[1])]
        if i % 6 >= 4:     # a separate contour with a line before the curve-only contour
            ops = [0, f2b(20.0), f2b(20.0), 1, f2b(60.0), f2b(20.0)] + [0, f2b(p0[0]), f2b(p0[1]), 3, f2b(c1[0]), f2b(c1[1]), f2b(c2[0]), f2b(c2[1]), f2b(p3[0]), f2b(p3[1])]
        cases.append(("stroke_geo", [f2b(width), f2b(4.0), i % 3, rng.randrange(4), f2b(1.0)] + ops))
    # tiny geometry stroked at a large resolution scale (what a magnifying draw call does): segments a few hundredths of a unit
    # long are not "too short to matter" there
    for i in range(60 if q else 600):
        S = rng.choice([64.0, 256.0, 512.0])
        n = rng.randint(3, 8)
        x, ops = 1.0, [0, f2b(1.0), f2b(1.0)]
        for j in range(n):
            x += rng.uniform(6, 10) / S
            ops += [1, f2b(x), f2b(1.0 + (5.0 / S if j % 2 == 0 else 0.0))]
        cases.append(("stroke_geo", [f2b(rng.choice([5.0, 7.0]) / S), f2b(4.0), rng.randrange(3), rng.choice([2, 3]), f2b(S)] + ops))
    # cubics and quads with all control points on one line, at arbitrary positions along it (overshooting the end point, turning
    # back once or twice): the stroke must reach the farthest point the curve reaches, in both directions of travel
    for i in range(120 if q else 1500):
        width = rng.choice([4.0, 10.0, 20.0])
        ang = rng.choice([0.0, math.pi / 2, rng.uniform(0, 6.283)])
        o = (round(rng.uniform(-20, 20), 1), round(rng.uniform(-20, 20), 1))
        k = rng.random()
        if k < 0.4:
            pos = [0.0, rng.uniform(5, 40), rng.uniform(150, 300), rng.uniform(60, 120)]       # runs out beyond the end, turns back once
        elif k < 0.6:
            pos = [0.0, rng.uniform(-200, -80), rng.uniform(20, 60), rng.uniform(80, 140)]     # backs out behind the start first
        elif k < 0.8:
            pos = [0.0, rng.uniform(150, 300), rng.uniform(-200, -100), rng.uniform(40, 100)]  # two turning points
        else:
            pos = sorted(rng.uniform(0, 200) for _ in range(4))
        if rng.random() < 0.5:
            pos = pos[::-1]
        pts = [(o[0] + d * math.cos(ang), o[1] + d * math.sin(ang)) for d in pos]
        if ang in (0.0, math.pi / 2):
            pts = [(round(x, 2), round(y, 2)) for x, y in pts]
        ops = [0, f2b(pts[0][0]), f2b(pts[0][1])]
        if i % 5 == 4:
            ops += [2, f2b(pts[2][0]), f2b(pts[2][1]), f2b(pts[3][0]), f2b(pts[3][1])]
        else:
            ops += [3] + [f2b(v) for pt_ in pts[1:] for v in pt_]
        cases.append(("stroke_geo", [f2b(width), f2b(4.0), rng.randrange(3), rng.randrange(4), f2b(1.0)] + ops))
    # gentle curves with a degenerate control point at one end, followed / preceded by a line or ending in a cap:
    # the end normal of the curve decides the cap and the join
    for i in range(300 if q else 4000):
        width = rng.choice([4.0, 10.0, 20.0, 40.0])
        L = rng.uniform(6, 12) * width
        a0 = rng.uniform(0, 6.283)
        turn = rng.uniform(0.3, 1.2) * rng.choice([-1, 1])
        def pol(o, ang, d):
            return (round(o[0] + d * math.cos(ang), 2), round(o[1] + d * math.sin(ang), 2))
        p0 = (round(rng.uniform(-50, 50), 2), round(rng.uniform(-50, 50), 2))
        p1 = pol(p0, a0, L / 2)
        p3 = pol(p1, a0 + turn, L / 2)
        ops = [0, f2b(p0[0]), f2b(p0[1])]
        kind = rng.randrange(6)
        pre = rng.random() < 0.4
        if pre:
            pm = pol(p0, a0 + math.pi + rng.uniform(-0.8, 0.8), L / 2)
            ops = [0, f2b(pm[0]), f2b(pm[1]), 1, f2b(p0[0]), f2b(p0[1])]
        if kind == 0:
            ops += [3, f2b(p1[0]), f2b(p1[1]), f2b(p3[0]), f2b(p3[1]), f2b(p3[0]), f2b(p3[1])]      # P2 == P3
        elif kind == 1:
            ops += [3, f2b(p0[0]), f2b(p0[1]), f2b(p1[0]), f2b(p1[1]), f2b(p3[0]), f2b(p3[1])]      # P0 == P1
        elif kind == 2:
            ops += [3, f2b(p1[0]), f2b(p1[1]), f2b(p1[0]), f2b(p1[1]), f2b(p3[0]), f2b(p3[1])]      # P1 == P2
        elif kind == 3:
            ops += [2, f2b(p1[0]), f2b(p1[1]), f2b(p3[0]), f2b(p3[1])]
        elif kind == 4:
            ops += [3, f2b(p0[0]), f2b(p0[1]), f2b(p3[0]), f2b(p3[1]), f2b(p3[0]), f2b(p3[1])]      # a straight cubic
        else:
            pa, pb_ = pol(p0, a0, L / 3), pol(p3, a0 + turn + math.pi, L / 3)
            ops += [3, f2b(pa[0]), f2b(pa[1]), f2b(pb_[0]), f2b(pb_[1]), f2b(p3[0]), f2b(p3[1])]
        if rng.random() < 0.5:
            pn = pol(p3, a0 + turn + rng.uniform(-1.0, 1.0), L / 2)
            ops += [1, f2b(pn[0]), f2b(pn[1])]
        if rng.random() < 0.15:
            ops += [4]
        cases.append(("stroke_geo", [f2b(width), f2b(rng.choice([1.0, 2.0, 4.0, 10.0])), rng.randrange(3), rng.randrange(4), f2b(1.0)] + ops))
    # long waves of strongly curved quads in ONE path (state carried from segment to segment inside a stroke), and cubics whose
    # end tangents are exactly parallel or anti-parallel (U, arch and half-stadium shapes)
    for i in range(40 if q else 500):
        width = rng.choice([12.0, 24.0, 30.0])
        if i % 2 == 0:
            n = rng.choice([12, 20, 40])
            amp = rng.choice([30.0, 60.0])
            step = rng.choice([60.0, 80.0])
            ops = [0, f2b(0.0), f2b(100.0)]
            for k in range(n):
                x0 = k * step
                ops += [2, f2b(x0 + step / 2), f2b(100.0 + (amp if k % 2 == 0 else -amp) * 2), f2b(x0 + step), f2b(100.0)]
            cap = rng.randrange(3)
            cases.append(("stroke_geo", [f2b(width), f2b(4.0), cap, 2, f2b(1.0)] + ops))
        else:
            s_ = rng.choice([200.0, 120.0, 64.0])
            hgt = rng.choice([200.0, 150.0, 80.0])
            x0, y0 = rng.choice([100.0, 37.5, 0.0]), rng.choice([300.0, 10.25])
            shape = rng.randrange(3)
            if shape == 0:    # U: both end tangents vertical
                ops = [0, f2b(x0), f2b(y0), 3, f2b(x0), f2b(y0 - hgt), f2b(x0 + s_), f2b(y0 - hgt), f2b(x0 + s_), f2b(y0)]
            elif shape == 1:  # arch on its side: both end tangents horizontal
                ops = [0, f2b(x0), f2b(y0), 3, f2b(x0 + hgt), f2b(y0), f2b(x0 + hgt), f2b(y0 + s_), f2b(x0), f2b(y0 + s_)]
            else:             # parallel (not anti-parallel) end tangents: an S between two vertical tangents
                ops = [0, f2b(x0), f2b(y0), 3, f2b(x0), f2b(y0 - hgt), f2b(x0 + s_), f2b(y0 + hgt), f2b(x0 + s_), f2b(y0)]
            cases.append(("stroke_geo", [f2b(rng.choice([4.0, 12.0, 30.0])), f2b(4.0), rng.randrange(3), rng.randrange(4), f2b(1.0)] + ops))
    return cases


def oracle(suite, args, out):
    if out.startswith(("PANIC", "CRASH", "HANG")):
        return "implementation did not return: " + out[:200]
    o = ints(out)
    if len(o) >= 11 and o[0] == 0:
        joins = ["Miter", "MiterClip", "Round", "Bevel"]
        if o[4] > 0:
            s = "%d outline points are farther from the path than the %s join / cap style allows (worst excess %.3f; first (%.3f,%.3f))" % (
                o[4], joins[args[3] % 4], o[5] / 1000.0, o[6] / 1000.0, o[7] / 1000.0)
            return ("MITERCLIP: " + s) if args[3] % 4 == 1 else s
        if o[2] > 0:
            where = {1: "a straight piece", 4: "an end point with a round cap", 5: "the square cap box beyond an end point", 6: "a vertex with a round join", 7: "the straight stretch traced by a curve whose control points are collinear", 8: "the body of a curve segment (on the curve or half way to its offset curves)"}.get(o[8], "the path")
            return "%d of %d points within half the stroke width of %s are not covered (first (%.3f,%.3f))" % (o[2], o[1], where, o[6] / 1000.0, o[7] / 1000.0)
        if o[10] > 0:
            return "%d of %d zero-length contours did not get their round / square dot" % (o[10], o[9])
    return None


def known_class(suite, args, out, what):
    if what.startswith("MITERCLIP"):
        # the corners of the clipped miter lie on the two offset lines beyond the vertex: at most r*sqrt(1 + m^2) from it
        o = ints(out)
        r = b2f(args[0]) / 2.0
        m = max(b2f(args[1]), 1.0)
        tol = (o[11] if len(o) > 11 else 0) / 1000.0
        if o[5] / 1000.0 <= r * (math.sqrt(1 + m * m) - m) + tol:
            return "C05-miterclip-corners"
    return None


def relation(suite, args, mo, io):
    return mo == io or mo.strip() == "-9"


def nontrivial_tag(suite, args, out):
    o = out.split()
    return "join%d:cap%d" % (args[3] % 4, args[2] % 3) if len(o) >= 11 and o[0] == "0" and o[1] != "0" else None
