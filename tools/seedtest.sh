#!/bin/bash
# usage: tools/seedtest.sh <patch.diff> C14 [C19 ...]   -- apply a seeded change to /repo, run the quick checks, undo it
set -u
patch=$1; shift
cd /repo && git status --short | grep -v '^??' && { echo "repo dirty"; exit 2; }
git -C /repo apply "$patch" || { echo "patch does not apply"; exit 2; }
for p in "$@"; do
  (cd /verif && VERIF_EVID=/verif/.build/seed-evidence python3 tools/vp.py check $p --tier quick 2>&1 | grep -E "VIOLATION|KNOWN-FINDING|^check |BROKEN" | head -8; echo "rc=${PIPESTATUS[0]}")
done
git -C /repo checkout -- .
git -C /repo status --short | grep -v '^??'
