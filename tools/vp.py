#!/usr/bin/env python3
"""Verification driver for /verif (tiny-skia, machine-checked proof in Coq).

  tools/vp.py setup                       build everything from files on disk (offline)
  tools/vp.py check Cxx [--tier quick|thorough]
  tools/vp.py replay <replay.json>

One check run = translate (regenerate Gen/*.v from /repo) -> prove (make the property's
theorem files, audit axioms) -> build implementation from /repo's working tree (hooks on) ->
correspond (same cases through extracted model and implementation) -> decide -> evidence.
Exit 0: property held on everything explored.  Exit 1: a line
`VIOLATION property=<id> replay=<path>` (suffix ` no-failing-input-found` when an obligation
broke but no concrete failing input was found).
"""
import sys, os, json, time, subprocess, hashlib, random, importlib, re, shutil, argparse

ROOT = os.path.dirname(os.path.dirname(os.path.abspath(__file__)))
COQ = os.path.join(ROOT, "coq")
BUILD = os.path.join(ROOT, ".build")
REPO = os.environ.get("VERIF_REPO", "/repo")
CARGO_TARGET = os.path.join(BUILD, "cargo")
OCAML_DIR = os.path.join(BUILD, "ocaml")
EVID = os.environ.get("VERIF_EVID", os.path.join(ROOT, "evidence"))
REPLAY = os.path.join(EVID, "replay")
GUARD = "tiny_skia_verif"
NCPU = 16

sys.path.insert(0, os.path.join(ROOT, "tools"))

ENV = dict(os.environ)
ENV.update({"CARGO_NET_OFFLINE": "true", "CARGO_TARGET_DIR": CARGO_TARGET})

ALLOWED_AXIOMS = {
    # declared by Coq's standard library (Reals / classical logic), reached through Flocq's B2R
    "ClassicalDedekindReals.sig_forall_dec",
    "ClassicalDedekindReals.sig_not_dec",
    "FunctionalExtensionality.functional_extensionality_dep",
    "Classical_Prop.classic",
    "Eqdep.Eq_rect_eq.eq_rect_eq",
}
FORBIDDEN_RE = re.compile(
    r"\b(Admitted|admit|Axiom|Axioms|Parameter|Parameters|Conjecture|Conjectures|Hypothesis|Hypotheses|Variable|Variables|"
    r"Unset\s+Guard|bypass_check|Unset\s+Positivity|Unset\s+Universe|type-in-type|impredicative-set|"
    r"Admit\s+Obligations|native_compute)\b")


def log(*a):
    print(*a, file=sys.stderr, flush=True)


def run(cmd, cwd=None, timeout=3600, env=None, input=None):
    t0 = time.time()
    try:
        p = subprocess.run(cmd, cwd=cwd, env=env or ENV, stdout=subprocess.PIPE, stderr=subprocess.STDOUT,
                           timeout=timeout, input=input)
        return p.returncode, p.stdout.decode("utf-8", "replace"), time.time() - t0
    except subprocess.TimeoutExpired as e:
        out = (e.stdout or b"").decode("utf-8", "replace")
        return 124, out + "\nTIMEOUT", time.time() - t0


# --------------------------------------------------------------------------------------------
# translate
# --------------------------------------------------------------------------------------------
def translate():
    """Regenerate coq/theories/Gen/*.v from /repo.  Returns list of (fragment, ok, message)."""
    import translate as tr
    return tr.run(REPO, os.path.join(COQ, "theories", "Gen"))


# --------------------------------------------------------------------------------------------
# Coq
# --------------------------------------------------------------------------------------------
def coq_files():
    fs = []
    for d, _, names in os.walk(os.path.join(COQ, "theories")):
        for n in sorted(names):
            if n.endswith(".v") and not n.endswith("_audit.v") and "Extract" not in d:
                fs.append(os.path.relpath(os.path.join(d, n), COQ))
    return sorted(fs)


def coq_project():
    lines = ["-Q theories TS",
             "-arg -w -arg -notation-overridden,-deprecated-hint-without-locality,-deprecated-instance-without-locality"]
    lines += coq_files()
    txt = "\n".join(lines) + "\n"
    p = os.path.join(COQ, "_CoqProject")
    old = open(p).read() if os.path.exists(p) else None
    if old != txt or not os.path.exists(os.path.join(COQ, "Makefile")):
        open(p, "w").write(txt)
        rc, out, _ = run(["coq_makefile", "-f", "_CoqProject", "-o", "Makefile"], cwd=COQ)
        if rc != 0:
            raise RuntimeError("coq_makefile failed: " + out)


def coq_make(targets, timeout=3000):
    coq_project()
    cmd = ["make", "-k", "-j%d" % NCPU] + targets
    return run(cmd, cwd=COQ, timeout=timeout)


def grep_forbidden():
    hits = []
    for f in coq_files() + ["theories/Extract/Extract.v"]:
        p = os.path.join(COQ, f)
        if not os.path.exists(p):
            continue
        src = open(p).read()
        src_nc = strip_coq_comments(src)
        stack = []   # open Sections / Modules
        for i, line in enumerate(src_nc.split("\n"), 1):
            m = re.match(r"\s*(Section|Module)\s+(?:Type\s+)?(\w+)", line)
            if m and ":=" not in line:
                stack.append((m.group(1), m.group(2)))
            m = re.match(r"\s*End\s+(\w+)\s*\.", line)
            if m and stack and stack[-1][1] == m.group(1):
                stack.pop()
            mm = FORBIDDEN_RE.search(line)
            if mm:
                in_section = any(k == "Section" for k, _ in stack)
                if in_section and mm.group(1) in ("Hypothesis", "Hypotheses", "Variable", "Variables"):
                    continue   # section-local: discharged (generalised) when the section closes
                hits.append("%s:%d: %s" % (f, i, line.strip()))
    return hits


def strip_coq_comments(s):
    out = []
    depth = 0
    i = 0
    n = len(s)
    while i < n:
        if s.startswith("(*", i):
            depth += 1
            i += 2
        elif s.startswith("*)", i) and depth > 0:
            depth -= 1
            i += 2
        else:
            if depth == 0:
                out.append(s[i])
            elif s[i] == "\n":
                out.append("\n")
            i += 1
    return "".join(out)


def theorems_of(props_file):
    src = strip_coq_comments(open(os.path.join(COQ, "theories", props_file + ".v")).read())
    return re.findall(r"^\s*(?:Theorem|Example)\s+(\w+)", src, re.M)


def sources_digest():
    h = hashlib.sha256()
    for f in coq_files():
        h.update(f.encode())
        h.update(open(os.path.join(COQ, f), "rb").read())
    return h.hexdigest()


def audit(props_file):
    """Print Assumptions for every theorem of Props/<file>.v (cached on the digest of all Coq sources:
    the audit of reals-based theorems walks large Flocq proof terms).  Returns (ok, {thm: [axioms]}, msg)."""
    cache = os.path.join(BUILD, "audit", props_file.replace("/", "_") + ".cache.json")
    dig = sources_digest()
    if os.path.exists(cache):
        try:
            c = json.load(open(cache))
            if c.get("digest") == dig:
                return c["ok"], c["res"], c["msg"]
        except Exception:
            pass
    ok, res, msg = audit_uncached(props_file)
    os.makedirs(os.path.dirname(cache), exist_ok=True)
    json.dump({"digest": dig, "ok": ok, "res": res, "msg": msg}, open(cache, "w"))
    return ok, res, msg


def audit_uncached(props_file):
    thms = theorems_of(props_file)
    mod = props_file.replace("/", ".")
    name = props_file.replace("/", "_") + "_audit"
    os.makedirs(os.path.join(BUILD, "audit"), exist_ok=True)
    path = os.path.join(BUILD, "audit", name + ".v")
    with open(path, "w") as f:
        f.write("From TS Require Import %s.\n" % mod)
        for t in thms:
            f.write('Goal True. idtac "@@THM %s". exact I. Qed.\nPrint Assumptions %s.\n' % (t, t))
    rc, out, _ = run(["coqc", "-Q", os.path.join(COQ, "theories"), "TS", path], cwd=os.path.join(BUILD, "audit"),
                     timeout=900)
    if rc != 0:
        return False, {}, "audit compile failed:\n" + out[-3000:]
    res = {}
    cur = None
    for line in out.split("\n"):
        m = re.match(r"@@THM (\w+)", line)
        if m:
            cur = m.group(1)
            res[cur] = []
            continue
        if cur is None:
            continue
        m = re.match(r"^([A-Za-z_][\w\.']*)\s*$", line) or re.match(r"^([A-Za-z_][\w\.']*)\s*:", line)
        if m and not line.startswith(" ") and m.group(1) not in ("Axioms", "Closed"):
            res[cur].append(m.group(1))
    bad = []
    for t, axs in res.items():
        for a in axs:
            if a not in ALLOWED_AXIOMS:
                bad.append("%s depends on %s" % (t, a))
    missing = [t for t in thms if t not in res]
    if missing:
        bad.append("no Print Assumptions output for " + ",".join(missing))
    return (not bad), res, "\n".join(bad)


# --------------------------------------------------------------------------------------------
# model_run (extraction) and harness builds
# --------------------------------------------------------------------------------------------
def newest_mtime(paths):
    m = 0
    for p in paths:
        if os.path.isdir(p):
            for d, _, ns in os.walk(p):
                for n in ns:
                    m = max(m, os.path.getmtime(os.path.join(d, n)))
        elif os.path.exists(p):
            m = max(m, os.path.getmtime(p))
    return m


def build_model_run():
    """coqc Extract.v (needs the Model .vo files) and ocamlopt the driver.  Returns (ok, msg)."""
    os.makedirs(OCAML_DIR, exist_ok=True)
    exe = os.path.join(OCAML_DIR, "model_run")
    srcs = [os.path.join(COQ, "theories", d) for d in ("Base", "Gen", "Model", "Extract")] + [os.path.join(ROOT, "ocaml")]
    src_v = []
    for d in srcs:
        for dd, _, ns in os.walk(d):
            for n in ns:
                if n.endswith(".v") or n.endswith(".ml"):
                    src_v.append(os.path.join(dd, n))
    if os.path.exists(exe) and os.path.getmtime(exe) >= newest_mtime(src_v):
        return True, "cached"
    # make sure all Model .vo are up to date
    targets = [f[:-2] + ".vo" for f in coq_files() if f.startswith("theories/Model/") or f.startswith("theories/Gen/")
               or f.startswith("theories/Base/")]
    rc, out, _ = coq_make(targets)
    if rc != 0:
        return False, "model does not compile:\n" + out[-3000:]
    rc, out, _ = run(["coqc", "-Q", os.path.join(COQ, "theories"), "TS",
                      os.path.join(COQ, "theories", "Extract", "Extract.v")], cwd=OCAML_DIR, timeout=900)
    if rc != 0:
        return False, "extraction failed:\n" + out[-3000:]
    for n in os.listdir(os.path.join(ROOT, "ocaml")):
        if n.endswith(".ml"):
            shutil.copy(os.path.join(ROOT, "ocaml", n), os.path.join(OCAML_DIR, n))
    rc, out, _ = run(["ocamlfind", "ocamlopt", "-O3", "-w", "-a", "-package", "unix", "model.mli", "model.ml",
                      "suites.ml", "model_run.ml", "-o", "model_run"], cwd=OCAML_DIR, timeout=900)
    if rc != 0:
        return False, "ocamlopt failed:\n" + out[-3000:]
    return True, "built"


# build configurations of the harness (C13): name -> (extra RUSTFLAGS, target-dir suffix, cargo features or None)
CONFIGS = {
    "scalar": ("", "-scalar", ""),                 # no `simd` feature: scalar fallback
    "sse2": ("", "", None),                        # the default build
    "sse41": ("-C target-feature=+sse4.1", "-sse41", None),
    "avx": ("-C target-feature=+avx", "-avx", None),
    "avx2fma": ("-C target-feature=+avx2,+fma", "-avx2fma", None),
}


def harness_exe(profile="debug", feat=""):
    if profile.startswith("cfg-"):
        return os.path.join(CARGO_TARGET + CONFIGS[profile[4:]][1], "release", "impl_run")
    return os.path.join(CARGO_TARGET + feat, profile, "impl_run")


def build_config(name):
    """release build of the harness for one SIMD configuration; returns (ok, msg)"""
    flags, feat, feats = CONFIGS[name]
    return build_harness("release", rustflags_extra=flags, feat=feat, cargo_features=feats)


def build_harness(profile="debug", rustflags_extra="", feat="", cargo_features=None):
    """Build the Rust harness against /repo's current working tree, hooks on."""
    if profile.startswith("cfg-"):
        return build_config(profile[4:])
    hdir = os.path.join(ROOT, "harness")
    lock = os.path.join(hdir, "Cargo.lock")
    if not os.path.exists(lock) or open(lock).read() == "":
        shutil.copy(os.path.join(REPO, "Cargo.lock"), lock)
    env = dict(ENV)
    env["CARGO_TARGET_DIR"] = CARGO_TARGET + feat
    env["RUSTFLAGS"] = ("--cfg %s %s" % (GUARD, rustflags_extra)).strip()
    cmd = ["cargo", "build", "--offline", "--bins"]
    if profile == "release":
        cmd.append("--release")
    if cargo_features is not None:
        cmd += ["--no-default-features", "--features", cargo_features]
    rc, out, dt = run(cmd, cwd=hdir, env=env, timeout=1800)
    return rc == 0, out[-4000:]


# --------------------------------------------------------------------------------------------
# running cases
# --------------------------------------------------------------------------------------------
def run_lines(exe, lines, shards=NCPU, timeout=1800, min_per_shard=64):
    """Feed `lines` to `exe` (line protocol) in parallel shards; returns list of output lines."""
    if not lines:
        return []
    n = len(lines)
    shards = max(1, min(shards, (n + min_per_shard - 1) // min_per_shard))
    per = (n + shards - 1) // shards
    procs = []
    for i in range(shards):
        chunk = lines[i::shards]   # round-robin: heavy suites are spread over all shards
        if not chunk:
            continue
        p = subprocess.Popen([exe], stdin=subprocess.PIPE, stdout=subprocess.PIPE, stderr=subprocess.PIPE, env=ENV)
        procs.append((p, chunk))
    import threading
    results = [None] * len(procs)

    def work(k):
        p, chunk = procs[k]
        try:
            out, err = p.communicate(("\n".join(chunk) + "\n").encode(), timeout=timeout)
            o = out.decode("utf-8", "replace").split("\n")
            if o and o[-1] == "":
                o.pop()
            restarts = 0
            while len(o) < len(chunk) and restarts < 50:
                # the process died (abort / stack overflow) on line len(o): mark that line, restart on the rest
                o.append("CRASH rc=%s %s" % (p.returncode, err.decode("utf-8", "replace")[-200:].replace("\n", " ")))
                rest = chunk[len(o):]
                if not rest:
                    break
                restarts += 1
                p2 = subprocess.Popen([exe], stdin=subprocess.PIPE, stdout=subprocess.PIPE, stderr=subprocess.PIPE, env=ENV)
                out2, err = p2.communicate(("\n".join(rest) + "\n").encode(), timeout=timeout)
                p = p2
                o2 = out2.decode("utf-8", "replace").split("\n")
                if o2 and o2[-1] == "":
                    o2.pop()
                o += o2
            if len(o) < len(chunk):
                o += ["CRASH (too many restarts)"] * (len(chunk) - len(o))
            results[k] = o
        except subprocess.TimeoutExpired:
            p.kill()
            results[k] = ["HANG"] * len(chunk)

    ths = [threading.Thread(target=work, args=(k,)) for k in range(len(procs))]
    for t in ths:
        t.start()
    for t in ths:
        t.join()
    out = [None] * n
    for k, r in enumerate(results):
        out[k::len(results)] = r
    return out


def case_line(suite, args):
    return suite + " " + " ".join(str(a) for a in args)


# --------------------------------------------------------------------------------------------
# known findings
# --------------------------------------------------------------------------------------------
def load_known():
    p = os.path.join(ROOT, "known_findings.json")
    if not os.path.exists(p):
        return []
    return json.load(open(p))["findings"]


# --------------------------------------------------------------------------------------------
# check
# --------------------------------------------------------------------------------------------
class Ctx:
    def __init__(self, pid, tier, seed):
        self.pid, self.tier, self.seed = pid, tier, seed
        self.rng = random.Random(seed * 1000003 + int(pid[1:]))
        self.obligations = []   # (name, ok, detail)
        self.violations = []    # dict(kind, what, case...)
        self.known_hits = {}    # finding id -> count
        self.evaluations = 0
        self.nontrivial = set()
        self.samples = []
        self.hist = {}
        self.notes = []

    def oblige(self, name, ok, detail=""):
        self.obligations.append((name, bool(ok), detail))
        if not ok:
            log("OBLIGATION BROKEN: %s\n%s" % (name, detail[-1500:]))

    def tag(self, t):
        self.hist[t] = self.hist.get(t, 0) + 1


def write_replay(pid, payload):
    os.makedirs(REPLAY, exist_ok=True)
    h = hashlib.sha1(json.dumps(payload, sort_keys=True).encode()).hexdigest()[:12]
    p = os.path.join(REPLAY, "%s-%s.json" % (pid, h))
    json.dump(payload, open(p, "w"), indent=1)
    return p


def check(pid, tier):
    t0 = time.time()
    seed = int(os.environ.get("VERIF_SEED", "1"))
    mod = importlib.import_module("props." + pid.lower())
    ctx = Ctx(pid, tier, seed)
    known = [k for k in load_known() if k["property"] == pid and k["status"] == "known"]
    ctx.mod, ctx.known = mod, known

    # 1. translate
    try:
        for frag, ok, msg in translate():
            if frag in getattr(mod, "FRAGMENTS", []) or getattr(mod, "ALL_FRAGMENTS", False):
                ctx.oblige("translate:" + frag, ok, msg)
    except Exception as e:  # translator crash = every fragment broken
        import traceback
        ctx.oblige("translate:*", False, traceback.format_exc())

    # 2. prove
    hits = grep_forbidden()
    ctx.oblige("audit:no-axiom-no-admit", not hits, "\n".join(hits))
    thm_count = 0
    for pf in mod.PROPS_FILES:
        rc, out, dt = coq_make(["theories/%s.vo" % pf])
        thms = theorems_of(pf)
        if rc != 0:
            # which file failed?
            m = re.findall(r'File "\./(theories/[\w/]+\.v)", line (\d+)', out)
            where = ", ".join("%s:%s" % x for x in m[:3])
            for t in thms:
                ctx.oblige("theorem:%s" % t, False, "make %s failed at %s\n%s" % (pf, where, out[-2500:]))
            continue
        ok, res, msg = audit(pf)
        for t in thms:
            axs = res.get(t)
            good = axs is not None and all(a in ALLOWED_AXIOMS for a in axs)
            ctx.oblige("theorem:%s" % t, good, msg if not good else ("axioms: " + (",".join(axs) if axs else "none")))
            thm_count += 1
        ctx.axioms = getattr(ctx, "axioms", {})
        ctx.axioms.update(res)

    # 3/4. build model and implementation
    okm, msgm = build_model_run()
    profiles = getattr(mod, "PROFILES_" + tier.upper(), ["debug"] if tier == "quick" else ["debug", "release"])
    okh = True
    msgh = ""
    for prof in profiles:
        o, m = build_harness(prof)
        okh = okh and o
        msgh += m if not o else ""
    if not okh:
        ctx.oblige("build:implementation", False, msgh)
    if not okm:
        ctx.oblige("build:model", False, msgm)

    # 5. correspond + property oracle
    cases = []
    corpus_dir = os.path.join(ROOT, "corpus", pid)
    if os.path.isdir(corpus_dir):
        for n in sorted(os.listdir(corpus_dir)):
            if n.endswith(".case"):
                for line in open(os.path.join(corpus_dir, n)):
                    line = line.strip()
                    if line and not line.startswith("#"):
                        toks = line.split()
                        cases.append((toks[0], [int(x) for x in toks[1:]]))
    ncorpus = len(cases)
    cases += mod.gen_cases(ctx.rng, tier)
    lines = [case_line(s, a) for s, a in cases]
    suites = sorted(set(s for s, _ in cases))
    model_out = run_lines(os.path.join(OCAML_DIR, "model_run"), lines) if okm else None
    mismatch = {}   # suite -> first mismatching case index list
    ctx.mismatches = []   # the disagreeing cases themselves, for the property's own search for a failing input
    for prof in profiles:
        if not okh:
            break
        impl_out = run_lines(harness_exe(prof), lines)
        if hasattr(mod, "post_oracle"):
            # oracles that relate several cases (metamorphic groups)
            for i, what in mod.post_oracle(cases, impl_out):
                s_, a_ = cases[i]
                kid = match_known(mod, known, s_, a_, impl_out[i], what)
                # a listed finding only covers behaviour the (faithful) model reproduces
                if kid and model_out is not None and not agree(mod, s_, a_, model_out[i], impl_out[i]):
                    kid = None
                if kid:
                    ctx.known_hits[kid] = ctx.known_hits.get(kid, 0) + 1
                else:
                    ctx.violations.append({"kind": "property-group", "profile": prof, "suite": s_, "args": a_,
                                           "impl": impl_out[i], "what": what})
        for i, (s, a) in enumerate(cases):
            io = impl_out[i]
            ctx.evaluations += 1
            # property oracle on the implementation's own output
            v = mod.oracle(s, a, io)
            if v:
                kid = match_known(mod, known, s, a, io, v)
                if kid and model_out is not None and not agree(mod, s, a, model_out[i], io):
                    kid = None
                if kid:
                    ctx.known_hits[kid] = ctx.known_hits.get(kid, 0) + 1
                else:
                    ctx.violations.append({"kind": "property", "profile": prof, "suite": s, "args": a,
                                           "impl": io, "what": v})
            if model_out is not None:
                mo = model_out[i]
                rel = getattr(mod, "relation", None)
                same = rel(s, a, mo, io) if rel else (mo == io)
                if not same:
                    mismatch.setdefault(s, []).append((i, prof))
                    if len(ctx.mismatches) < 300:
                        ctx.mismatches.append({"suite": s, "args": a, "model": mo, "impl": io, "profile": prof})
            if prof == profiles[0]:
                t = mod.nontrivial_tag(s, a, io)
                if t:
                    ctx.tag(t)
                    ctx.nontrivial.add(hashlib.sha1(lines[i].encode()).hexdigest())
                if len(ctx.samples) < 5 and (i % max(1, len(cases) // 5) == 0):
                    ctx.samples.append({"case": lines[i][:400], "impl": io[:400]})
    for s in suites:
        if model_out is None:
            ctx.oblige("correspondence:" + s, False, "model not built")
        elif not okh:
            ctx.oblige("correspondence:" + s, False, "implementation not built")
        elif s in mismatch:
            i, prof = mismatch[s][0]
            ctx.oblige("correspondence:" + s, False,
                       "%d disagreements; first (%s): %s\n model: %s\n impl : %s" % (
                           len(mismatch[s]), prof, lines[i][:600], model_out[i][:600], "(see replay)"))
        else:
            ctx.oblige("correspondence:" + s, True, "")

    # extra property-specific obligations (multi-config builds etc.)
    if hasattr(mod, "extra"):
        mod.extra(ctx, sys.modules[__name__])

    # 6. decide
    broken = [(n, d) for n, ok, d in ctx.obligations if not ok]
    rc = 0
    for k in known:
        print("KNOWN-FINDING: property=%s %s [%s; seen %d times this run]" % (
            pid, k["what"], k["id"], ctx.known_hits.get(k["id"], 0)))
    if ctx.violations:
        v = ctx.violations[0]
        v = shrink(mod, v, profiles[0]) if hasattr(mod, "shrink_case") else v
        payload = {"property": pid, "kind": "failing-input", "violation": v, "count": len(ctx.violations),
                   "broken_obligations": [n for n, _ in broken], "seed": seed, "tier": tier,
                   "others": [{"suite": o["suite"], "args": o["args"], "impl": o.get("impl"), "what": o["what"], "profile": o.get("profile")}
                              for o in ctx.violations[1:40] if "suite" in o and "args" in o],
                   "replay_cmd": "tools/vp.py replay <this file>"}
        p = write_replay(pid, payload)
        print("VIOLATION property=%s replay=%s" % (pid, p))
        rc = 1
    elif broken:
        # an obligation broke and the oracle found no failing input on everything explored: widen the search
        extra_v = None
        if okh and hasattr(mod, "search"):
            extra_v = mod.search(ctx, sys.modules[__name__], known)
        first_mis = None
        for s in mismatch:
            i, prof = mismatch[s][0]
            first_mis = {"suite": s, "args": cases[i][1], "profile": prof, "model": model_out[i]}
            break
        payload = {"property": pid, "kind": "failing-input" if extra_v else "broken-obligation",
                   "broken_obligations": [{"name": n, "detail": d[-3000:]} for n, d in broken],
                   "first_disagreement": first_mis, "violation": extra_v, "seed": seed, "tier": tier}
        p = write_replay(pid, payload)
        if extra_v:
            print("VIOLATION property=%s replay=%s" % (pid, p))
        else:
            print("VIOLATION property=%s replay=%s no-failing-input-found" % (pid, p))
        rc = 1

    # 7. evidence
    nob = len(ctx.obligations)
    ndis = sum(1 for _, ok, _ in ctx.obligations if ok)
    ev = {
        "property_id": pid, "tier": tier, "seed": seed, "level": "proof",
        "coverage": {
            "obligations": nob, "discharged": ndis,
            "checker_cmd": "cd coq && make -k -j16 " + " ".join("theories/%s.vo" % f for f in mod.PROPS_FILES)
                           + " && coqc <Print Assumptions audit>  (tools/vp.py check %s)" % pid,
            "trusted_base": mod.TRUSTED,
            "obligation_list": [{"name": n, "ok": ok, "detail": (d if not ok else d[:200])[-800:]} for n, ok, d in ctx.obligations],
            "theorems": thm_count,
            "axioms_per_theorem": getattr(ctx, "axioms", {}),
            "evaluations": ctx.evaluations,
            "distinct_nontrivial": len(ctx.nontrivial),
            "rule": mod.RULE,
            "samples": ctx.samples or [{"note": "no cases"}],
            "corpus_cases": ncorpus,
            "case_histogram": dict(sorted(ctx.hist.items(), key=lambda kv: -kv[1])[:40]),
            "profiles": profiles,
            "known_finding_hits": ctx.known_hits,
            "notes": ctx.notes,
        },
        "assumptions": mod.ASSUMPTIONS,
        "wall_s": round(time.time() - t0, 2),
        "violations": len(ctx.violations) + (1 if (broken and not ctx.violations) else 0),
    }
    os.makedirs(EVID, exist_ok=True)
    json.dump(ev, open(os.path.join(EVID, pid + ".json"), "w"), indent=1)
    log("check %s tier=%s: obligations %d/%d, evaluations %d, violations %d, %.1fs" % (
        pid, tier, ndis, nob, ctx.evaluations, len(ctx.violations), time.time() - t0))
    return rc


def agree(mod, s, a, mo, io):
    rel = getattr(mod, "relation", None)
    return rel(s, a, mo, io) if rel else (mo == io)


def match_known(mod, known, s, a, io, what):
    if not known or not hasattr(mod, "known_class"):
        return None
    kid = mod.known_class(s, a, io, what)
    if kid and any(k["id"] == kid for k in known):
        return kid
    return None


def shrink(mod, v, prof):
    """Greedy shrink of a failing case using the property oracle on the implementation."""
    try:
        best = v["args"]
        s = v["suite"]
        for _ in range(200):
            cands = mod.shrink_case(s, best)
            if not cands:
                break
            lines = [case_line(s, c) for c in cands]
            outs = run_lines(harness_exe(prof), lines, shards=4)
            nxt = None
            for c, o in zip(cands, outs):
                if mod.oracle(s, c, o):
                    nxt = (c, o)
                    break
            if nxt is None:
                break
            best = nxt[0]
            v = dict(v, args=best, impl=nxt[1], what=mod.oracle(s, best, nxt[1]), shrunk=True)
        return v
    except Exception as e:
        v["shrink_error"] = str(e)
        return v


def replay(path):
    d = json.load(open(path))
    v = d.get("violation") or d.get("first_disagreement")
    if not v:
        print(json.dumps(d, indent=1))
        return 0
    pid = d["property"]
    mod = importlib.import_module("props." + pid.lower())
    build_model_run()
    build_harness(v.get("profile", "debug"))
    line = case_line(v["suite"], v["args"])
    io = run_lines(harness_exe(v.get("profile", "debug")), [line])[0]
    mo = run_lines(os.path.join(OCAML_DIR, "model_run"), [line])[0]
    print("case :", line)
    print("impl :", io)
    print("model:", mo)
    print("oracle:", mod.oracle(v["suite"], v["args"], io))
    if v.get("companion"):
        # a violation that relates two cases (found by the property's search after an obligation broke)
        c = v["companion"]
        line2 = case_line(c["suite"], c["args"])
        print("companion case :", line2)
        print("companion impl :", run_lines(harness_exe(v.get("profile", "debug")), [line2])[0])
        print("what:", v.get("what"))
    return 0


def setup():
    os.makedirs(BUILD, exist_ok=True)
    try:
        translate()
    except Exception as e:
        log("translate failed:", e)
    coq_project()
    rc, out, dt = run(["make", "-k", "-j%d" % NCPU], cwd=COQ, timeout=3000)
    log("coq make rc=%d %.0fs" % (rc, dt))
    if rc != 0:
        log(out[-3000:])
    ok, msg = build_model_run()
    log("model_run:", ok, msg[-500:])
    ok2, msg2 = build_harness("debug")
    log("harness debug:", ok2, "" if ok2 else msg2)
    ok3, msg3 = build_harness("release")
    log("harness release:", ok3, "" if ok3 else msg3)
    # the per-configuration builds of the quick tier of C13 (in parallel; each is a separate target dir)
    import concurrent.futures
    with concurrent.futures.ThreadPoolExecutor(max_workers=3) as ex:
        for name, r in zip(("scalar", "avx2fma"), ex.map(build_config, ("scalar", "avx2fma"))):
            log("harness config", name, r[0], "" if r[0] else r[1][-800:])
    # warm the Print Assumptions cache of every property (in parallel)
    import concurrent.futures
    props = []
    for n in sorted(os.listdir(os.path.join(ROOT, "tools", "props"))):
        m = re.match(r"(c\d+)\.py$", n)
        if m:
            try:
                props += importlib.import_module("props." + m.group(1)).PROPS_FILES
            except Exception as e:
                log("cannot import", n, e)
    if rc == 0:
        with concurrent.futures.ThreadPoolExecutor(max_workers=NCPU) as ex:
            for pf, r in zip(props, ex.map(audit, props)):
                log("audit", pf, r[0], r[2][:200])
    return 0 if (rc == 0 and ok and ok2 and ok3) else 1


def main():
    ap = argparse.ArgumentParser()
    ap.add_argument("cmd")
    ap.add_argument("arg", nargs="?")
    ap.add_argument("--tier", default=os.environ.get("VERIF_TIER", "quick"))
    a = ap.parse_args()
    if a.cmd == "setup":
        sys.exit(setup())
    if a.cmd == "check":
        sys.exit(check(a.arg, a.tier))
    if a.cmd == "replay":
        sys.exit(replay(a.arg))
    ap.error("unknown command")


if __name__ == "__main__":
    main()
