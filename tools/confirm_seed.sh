#!/bin/bash
# usage: tools/confirm_seed.sh /tmp/seed/C14-1   -> confirms in a scratch worktree: suite passes with patch,
# demo fails with patch, demo passes without.  Writes <dir>/confirm.txt
d=$1; id=$(basename $d); wt=/tmp/cwt-$id
export CARGO_NET_OFFLINE=true
git -C /repo worktree add --detach $wt HEAD >/dev/null 2>&1 || { echo "worktree failed"; exit 2; }
cd $wt
{
echo "HEAD=$(git rev-parse --short HEAD)"
cp $d/demo.rs tests/seed_demo.rs
echo "== demo without patch"; cargo test --offline --test seed_demo 2>&1 | grep -E "^test result|error(\[|:)" | head -3
git apply $d/patch.diff && echo "patch applied"
echo "== demo with patch"; cargo test --offline --test seed_demo 2>&1 | grep -E "^test result|error(\[|:)" | head -3
rm tests/seed_demo.rs
echo "== suite with patch"; cargo test --workspace --offline 2>&1 | grep -E "^test result|error(\[|:)" | head -6
} > $d/confirm.txt 2>&1
cd /; git -C /repo worktree remove --force $wt
cat $d/confirm.txt
