#!/usr/bin/env python3
import json,struct,sys
def b2f(b): return struct.unpack('<f',struct.pack('<I',b&0xffffffff))[0]
r=json.load(open(sys.argv[1]))
for o in [r['violation']]+r.get('others',[])[:int(sys.argv[2]) if len(sys.argv)>2 else 12]:
    a=o['args']; n=a[1]
    print(o['suite'], o['what'][:220], '| impl', (o.get('impl') or '')[:100])
    rest=a[2+n:]
    print('   off',b2f(a[0]),'arr',[b2f(x) for x in a[2:2+n]], 'res', b2f(rest[0]) if rest else None)
    ops=rest[1:]; out=[]; i=0
    while i<len(ops):
        k=ops[i]; m={0:2,1:2,2:4,3:6,4:0}.get(k,0)
        out.append((k,[round(b2f(x),4) for x in ops[i+1:i+1+m]])); i+=1+m
    print('   ',out)
