#!/bin/bash
# usage: show.sh file.v LINE  -> compiles file up to LINE (exclusive), then prints goals
f=$1; n=$2
head -n $((n-1)) $f > /tmp/_show.v
echo "Show. Abort." >> /tmp/_show.v
cd /verif/coq && coqc -Q theories TS /tmp/_show.v 2>&1 | head -${3:-60}
