#!/usr/bin/env python3
"""usage: tools/dev/fuzz_api.py [first_seed] [count]  -- run api_fuzz on both profiles, summarise panics by message/location"""
import subprocess,collections,time,sys,concurrent.futures
a=int(sys.argv[1]) if len(sys.argv)>1 else 1
n=int(sys.argv[2]) if len(sys.argv)>2 else 4000
for prof in ("debug","release"):
    t=time.time()
    chunks=[ "\n".join("api_fuzz %d %d"%(s, s%8) for s in range(a+k,a+n,16))+"\n" for k in range(16)]
    def run(c): return subprocess.run(["/verif/.build/cargo/%s/impl_run"%prof],input=c,capture_output=True,text=True).stdout.split("\n")
    with concurrent.futures.ThreadPoolExecutor(16) as ex: outs=list(ex.map(run,chunks))
    cnt=collections.Counter(); ex_={}
    for k,o in enumerate(outs):
        for i,l in enumerate(o):
            if l.startswith(("PANIC","-99","CRASH")):
                key=(l.split(" @ ")[-1] if " @ " in l else "")+" | "+l[:90]; cnt[key]+=1; ex_.setdefault(key, a+k+16*i)
    print(prof,"%.0fs"%(time.time()-t), sum(cnt.values()),"failures")
    for k,v in cnt.most_common(25): print("  ",v,k,"| seed",ex_[k],"fam",ex_[k]%8)
