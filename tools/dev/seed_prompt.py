#!/usr/bin/env python3
"""tools/dev/seed_prompt.py <Cxx> <k1> <k2> <outdir>: writes the prompt for a fresh seeding agent (property text only + earlier seeds to avoid)."""
import sys, json, os, glob
pid, k1, k2, out = sys.argv[1:5]
prop = [json.loads(l) for l in open("/verif/properties.jsonl") if json.loads(l)["id"] == pid][0]
done = []
for d in sorted(glob.glob("/verif/seeded/%s-*" % pid)):
    n = os.path.join(d, "notes.md")
    title = ""
    if os.path.exists(n):
        for line in open(n):
            if line.strip().startswith("#"):
                title = line.strip().lstrip("# ").strip(); break
    done.append(" - Seed %s: %s" % (os.path.basename(d), title))
wt = "/tmp/wt6-%s" % pid
t = open("/verif/tools/dev/seed_prompt.txt").read()
t = (t.replace("@PID@", pid).replace("@TITLE@", prop["title"]).replace("@STATEMENT@", prop["statement"])
      .replace("@QUANT@", prop["quantifier"]["text"]).replace("@WT@", wt).replace("@OUT@", out)
      .replace("@K1@", k1).replace("@K2@", k2).replace("@DONE@", "\n".join(done)))
os.makedirs(out, exist_ok=True)
open(os.path.join(out, "prompt-%s.txt" % pid), "w").write(t)
print(os.path.join(out, "prompt-%s.txt" % pid))
