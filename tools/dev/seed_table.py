#!/usr/bin/env python3
"""regenerate the seeds table of DESIGN.md section 12.6 from seeded/*/meta.json"""
import json, os, re
rows = []
for sid in sorted(os.listdir("/verif/seeded")):
    m = json.load(open(os.path.join("/verif/seeded", sid, "meta.json")))
    det = "neutralised" if m.get("neutralised_by_fix") else ("yes" if m.get("detected_by_check") else "NO")
    rows.append("| %s | %s | %s | %s |" % (sid, m["property"], det, m.get("detected_by", "").replace("|", "/")))
table = "| seed | property | detected | by |\n|---|---|---|---|\n" + "\n".join(rows) + "\n"
p = "/verif/DESIGN.md"
s = open(p).read()
a = s.index("| seed | property | detected | by |")
b = s.index("\n\n", a)
s = s[:a] + table.rstrip("\n") + s[b:]
open(p, "w").write(s)
print(len(rows), "rows")
