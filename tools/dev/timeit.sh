#!/bin/bash
# compile file with per-lemma progress: prints lemma names as they finish
f=$1
cd /verif/coq && timeout ${2:-120} coqc -Q theories TS $f 2>&1 | head -40
echo "exit=${PIPESTATUS[0]}"
