#!/usr/bin/env python3
"""usage: tools/dev/add_manifest.py Cxx <category> <text-file>   (text file: 3 paragraphs: level text / level_note / technique)"""
import json, sys
pid, cat, tf = sys.argv[1:4]
parts = [p.strip().replace("\n", " ") for p in open(tf).read().strip().split("\n\n")]
m = json.load(open('/verif/MANIFEST.json'))
m['checks'] = [c for c in m['checks'] if c['property_id'] != pid]
m['checks'].append({
    "property_id": pid,
    "quick_cmd": "python3 tools/vp.py check %s --tier quick" % pid,
    "thorough_cmd": "python3 tools/vp.py check %s --tier thorough" % pid,
    "evidence_file": "evidence/%s.json" % pid,
    "replay_cmd_template": "python3 tools/vp.py replay {path}",
    "engine": "coq-proof+correspondence",
    "level_claimed": {"category": cat, "text": parts[0], "design_ref": "DESIGN.md section 6 %s" % pid},
    "level_note": parts[1],
    "technique": parts[2],
})
m['checks'].sort(key=lambda c: c['property_id'])
m['not_applicable'] = [n for n in m['not_applicable'] if n['property_id'] != pid]
json.dump(m, open('/verif/MANIFEST.json', 'w'), indent=1)
print("ok", [c['property_id'] for c in m['checks']])
