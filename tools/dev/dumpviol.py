#!/usr/bin/env python3
"""usage: tools/dev/dumpviol.py <replay.json>  -- decode hair_px / fill_px style violations for reading"""
import json, struct, sys
r = json.load(open(sys.argv[1]))
skip = int(sys.argv[2]) if len(sys.argv) > 2 else 12
def b2f(b): return struct.unpack('<f', struct.pack('<I', b & 0xffffffff))[0]
def dec(a):
    head = a[:skip]; ops = a[skip:]
    out = []; i = 0
    while i < len(ops):
        k = ops[i]; n = {0: 2, 1: 2, 2: 4, 3: 6, 4: 0, 5: 4, 6: 4, 7: 3}.get(k, 0)
        out.append((k, [round(b2f(x), 4) for x in ops[i + 1:i + 1 + n]])); i += 1 + n
    return head[:6], [round(b2f(x), 4) for x in head[6:12]], out
for o in [r['violation']] + r.get('others', []):
    print(o['what'][:90], '| impl', o.get('impl')); print('   ', dec(o['args']))
