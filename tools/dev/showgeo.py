#!/usr/bin/env python3
"""decode stroke_geo violations of a replay file: tools/dev/showgeo.py <replay.json> [write-first-case-to]"""
import json, struct, sys
d = json.load(open(sys.argv[1]))
b2f = lambda b: round(struct.unpack('<f', struct.pack('<I', b & 0xffffffff))[0], 4)
def show(v):
    a = v['args']
    print(v['what'][:170], '|', v['impl'], '|', v.get('profile'))
    print('  w', b2f(a[0]), 'ml', b2f(a[1]), 'cap', a[2], 'join', a[3], 'res', b2f(a[4]))
    i = 5; out = []
    n = {0: 2, 1: 2, 2: 4, 3: 6, 4: 0}
    while i < len(a):
        op = a[i]; k = n[op]; out.append("MLQCZ"[op] + " " + " ".join(str(b2f(x)) for x in a[i + 1:i + 1 + k])); i += 1 + k
    print('  ', " ".join(out))
show(d['violation'])
for o in d['others']:
    show(o)
if len(sys.argv) > 2:
    open(sys.argv[2], 'w').write(d['violation']['suite'] + " " + " ".join(map(str, d['violation']['args'])) + "\n")
