#!/usr/bin/env python3
"""Search (with the extracted model, see Model/CurveEdgeSearch.v) for cubics on which CubicEdge::update needs its pin
`newy = max(newy, oldy)`: usage  find_pin_cubics.py <n cubics> <seed> [shift]   -> prints `fill_spans` corpus lines."""
import sys, random, struct, subprocess, os
from concurrent.futures import ThreadPoolExecutor
n, seed = int(sys.argv[1]), int(sys.argv[2])
shift = int(sys.argv[3]) if len(sys.argv) > 3 else 0
f2b = lambda x: struct.unpack('<I', struct.pack('<f', x))[0]
rng = random.Random(seed)
MODEL = "/verif/.build/ocaml/model_run"
def cubic():
    w = rng.choice([100.0, 100.0, 64.0, 300.0])
    k = rng.random()
    if k < 0.5:      # anything
        p = [(rng.uniform(0, w), rng.uniform(0, w)) for _ in range(4)]
    elif k < 0.8:    # a y extremum inside: the chopped pieces start / end flat
        y0, y3 = rng.uniform(0.2, 0.8) * w, rng.uniform(0.2, 0.8) * w
        top = rng.uniform(0.0, 0.15) * w
        p = [(rng.uniform(0, w), y0), (rng.uniform(0, w), top), (rng.uniform(0, w), top + rng.uniform(-3, 3)), (rng.uniform(0, w), y3)]
    else:            # nearly flat in y
        y = rng.uniform(5, w - 5)
        p = [(rng.uniform(0, w), y + rng.uniform(-2, 2)) for _ in range(4)]
    g = rng.choice([1.0, 256.0, 64.0, 0])
    if g:
        p = [(round(x * g) / g, round(yy * g) / g) for x, yy in p]
    return p
cubs = [cubic() for _ in range(n)]
lines = ["cubic_pin " + " ".join(str(f2b(v)) for pt in c for v in pt) + " %d" % shift for c in cubs]
def run(chunk):
    r = subprocess.run([MODEL], input="\n".join(chunk) + "\n", capture_output=True, text=True)
    return r.stdout.strip().split("\n")
nproc = 16
size = (len(lines) + nproc - 1) // nproc
with ThreadPoolExecutor(nproc) as ex:
    outs = sum(ex.map(run, [lines[i:i + size] for i in range(0, len(lines), size)]), [])
hits = [c for c, o in zip(cubs, outs) if o.strip() == "1"]
sys.stderr.write("%d cubics, %d need the pin\n" % (n, len(hits)))
for c in hits:
    w = 100 if max(max(p) for p in c) <= 100 else 320
    ops = [0, f2b(c[0][0]), f2b(c[0][1]), 3] + [f2b(v) for pt in c[1:] for v in pt] + [4]
    print("fill_spans 0 %d %d " % (w, w) + " ".join(map(str, ops)))
