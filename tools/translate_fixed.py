"""Rust -> Gallina translator for the integer helper functions of src/fixed_point.rs and src/math.rs
(fdot6::*, fdot8::*, fdot16::*, left_shift, left_shift64, bound): straight-line integer code with casts, shifts,
checked arithmetic, `if`, `let` and debug assertions.  Semantics: an overflow-checked (debug) build; values are Z within
the range of their Rust type, None = panic (Base/Checked.v).  Functions that cannot panic are emitted as plain Z functions.

gen_fixed(repo, outdir, results) writes Gen/FixedGen.v and appends ("fixed-point", ok, message)."""
import os, re, struct

TOK = re.compile(r"\s*(?:(0x[0-9a-fA-F_]+|\d[\d_]*\.\d+|\d[\d_]*)|([A-Za-z_][A-Za-z_0-9]*(?:::[A-Za-z_][A-Za-z_0-9]*)*!?)|(>>|<<|<=|>=|==|!=|&&|\|\||->|[-+*/()&,.|{};=:<>!^%]))")

INT_TYPES = {"i8": ("i", 8), "i16": ("i", 16), "i32": ("i", 32), "i64": ("i", 64), "u8": ("u", 8), "u16": ("u", 16), "u32": ("u", 32), "u64": ("u", 64)}
ALIASES = {"FDot6": "i32", "FDot8": "i32", "FDot16": "i32"}


class TErr(Exception):
    pass


def tokenize(s):
    s = re.sub(r"//[^\n]*", "", s)
    out, i = [], 0
    while i < len(s):
        m = TOK.match(s, i)
        if not m:
            if s[i:].strip() == "":
                break
            raise TErr("cannot tokenize at %r" % s[i:i + 30])
        if m.group(1) is not None:
            out.append(("num", m.group(1).replace("_", "")))
        elif m.group(2) is not None:
            out.append(("id", m.group(2)))
        else:
            out.append(("op", m.group(3)))
        i = m.end()
    return out


class P:
    def __init__(self, toks):
        self.t, self.i = toks, 0

    def peek(self, k=0):
        return self.t[self.i + k] if self.i + k < len(self.t) else ("eof", "")

    def next(self):
        x = self.peek(); self.i += 1; return x

    def expect(self, v):
        k, x = self.next()
        if x != v:
            raise TErr("expected %r got %r" % (v, x))

    def typ(self):
        k, x = self.next()
        if k != "id":
            raise TErr("type expected, got %r" % x)
        return ALIASES.get(x, x)

    # { stmt* expr }
    def block(self):
        self.expect("{")
        stmts = []
        while True:
            k, x = self.peek()
            if x == "let":
                self.next()
                k, name = self.next()
                if name == "mut":
                    k, name = self.next()
                ty = None
                if self.peek()[1] == ":":
                    self.next(); ty = self.typ()
                self.expect("=")
                e = self.expr()
                self.expect(";")
                stmts.append(("let", name, ty, e))
            elif x in ("debug_assert!", "debug_assert_ne!", "debug_assert_eq!"):
                self.next()
                self.expect("(")
                a = self.expr()
                if x != "debug_assert!":
                    self.expect(",")
                    b = self.expr()
                    a = ("cmp", "!=" if x == "debug_assert_ne!" else "==", a, b)
                self.expect(")"); self.expect(";")
                stmts.append(("assert", a))
            else:
                break
        e = self.expr()
        self.expect("}")
        for s in reversed(stmts):
            e = ("let", s[1], s[2], s[3], e) if s[0] == "let" else ("assert", s[1], e)
        return e

    def expr(self):
        if self.peek()[1] == "if":
            self.next()
            c = self.oror()
            a = self.block()
            self.expect("else")
            b = ("block", self.expr()) if self.peek()[1] == "if" else self.block()
            if isinstance(b, tuple) and b[0] == "block":
                b = b[1]
            return ("if", c, a, b)
        return self.oror()

    def oror(self):
        l = self.andand()
        while self.peek()[1] == "||":
            self.next(); l = ("lor", l, self.andand())
        return l

    def andand(self):
        l = self.cmp()
        while self.peek()[1] == "&&":
            self.next(); l = ("land", l, self.cmp())
        return l

    def cmp(self):
        l = self.shift()
        if self.peek()[1] in ("==", "!=", "<", "<=", ">", ">="):
            op = self.next()[1]
            return ("cmp", op, l, self.shift())
        return l

    def shift(self):
        l = self.add()
        while self.peek()[1] in (">>", "<<"):
            op = self.next()[1]; l = ("bin", op, l, self.add())
        return l

    def add(self):
        l = self.mul()
        while self.peek()[1] in ("+", "-"):
            op = self.next()[1]; l = ("bin", op, l, self.mul())
        return l

    def mul(self):
        l = self.cast()
        while self.peek()[1] in ("*", "/"):
            op = self.next()[1]; l = ("bin", op, l, self.cast())
        return l

    def cast(self):
        e = self.unary()
        while self.peek()[1] == "as":
            self.next(); e = ("cast", self.typ(), e)
        return e

    def unary(self):
        if self.peek()[1] == "-":
            self.next(); return ("neg", self.unary())
        if self.peek()[1] == "!":
            self.next(); return ("not", self.unary())
        return self.postfix()

    def postfix(self):
        e = self.primary()
        while self.peek()[1] == ".":
            self.next()
            k, name = self.next()
            e = ("meth", name, e, self.args())
        return e

    def args(self):
        self.expect("(")
        a = []
        while self.peek()[1] != ")":
            a.append(self.expr())
            if self.peek()[1] == ",":
                self.next()
        self.expect(")")
        return a

    def primary(self):
        k, x = self.next()
        if k == "num":
            return ("num", x)
        if x == "(":
            e = self.expr(); self.expect(")"); return e
        if k == "id":
            if self.peek()[1] == "(":
                return ("call", x, self.args())
            return ("var", x)
        raise TErr("unexpected token %r" % x)


def find_fns(src, prefix):
    """yield (coq_name, params [(name, type)], ret type, body source) for `pub fn name(params) -> T { ... }`"""
    for m in re.finditer(r"pub fn (\w+)(<[^>]*>)?\(([^)]*)\)\s*->\s*(\w+)\s*\{", src):
        i = m.end() - 1
        depth, j = 0, i
        while True:
            if src[j] == "{":
                depth += 1
            elif src[j] == "}":
                depth -= 1
                if depth == 0:
                    break
            j += 1
        params = []
        for p in m.group(3).split(","):
            p = p.strip()
            if not p or ":" not in p:
                continue      # `&self`: methods are never in the WANTED list
            n, t = [v.strip() for v in p.split(":", 1)]
            params.append((n.replace("mut ", ""), ALIASES.get(t, t)))
        generic = m.group(2) is not None
        yield prefix + m.group(1), params, ALIASES.get(m.group(4), m.group(4)), src[i:j + 1], generic


def modules(src):
    """split fixed_point.rs into (module name, body) pieces"""
    out = []
    for m in re.finditer(r"pub mod (\w+) \{", src):
        i = m.end() - 1
        depth, j = 0, i
        while True:
            if src[j] == "{":
                depth += 1
            elif src[j] == "}":
                depth -= 1
                if depth == 0:
                    break
            j += 1
        out.append((m.group(1), src[i + 1:j]))
    return out


class Tr:
    """typed emission; every emit returns (coq term, pure?, rust type)"""

    def __init__(self, fns, consts, mod):
        self.fns, self.consts, self.mod = fns, consts, mod
        self.fresh = 0

    def tmp(self):
        self.fresh += 1
        return "t%d" % self.fresh

    @staticmethod
    def lit(n):
        return str(n) if n >= 0 else "(%d)" % n

    def bindall(self, parts, k):
        """parts: [(term, pure)], k: function from list of pure terms to a final option term"""
        names, binds = [], []
        for t, pure in parts:
            if pure:
                names.append(t)
            else:
                v = self.tmp(); names.append(v); binds.append((v, t))
        body = k(names)
        for v, t in reversed(binds):
            body = "(obind %s (fun %s => %s))" % (t, v, body)
        return body

    def resolve(self, name):
        if name in self.fns:
            return name
        if "::" in name:
            n = name.replace("::", "_")
            if n in self.fns:
                return n
        n = self.mod + "_" + name if self.mod else name
        if n in self.fns:
            return n
        return None

    def ty_join(self, a, b):
        if a is None:
            return b
        if b is None or a == b:
            return a
        raise TErr("operand types differ: %s vs %s" % (a, b))

    def const_fold(self, e):
        """integer value of a literal-only expression, or None"""
        if e[0] == "num":
            if "." in e[1]:
                return None
            return int(e[1], 16) if e[1].startswith("0x") else int(e[1])
        if e[0] == "bin":
            a, b = self.const_fold(e[2]), self.const_fold(e[3])
            if a is None or b is None:
                return None
            return {"+": a + b, "-": a - b, "*": a * b, "<<": a << b, ">>": a >> b, "/": None}[e[1]] if e[1] != "/" else (abs(a) // abs(b)) * (1 if (a >= 0) == (b >= 0) else -1)
        if e[0] == "neg":
            a = self.const_fold(e[1])
            return None if a is None else -a
        return None

    def emit(self, e, env, want=None):
        k = e[0]
        cf = self.const_fold(e)
        if cf is not None:
            return self.lit(cf), True, want
        if k == "num":   # float literal
            bits = struct.unpack("<I", struct.pack("<f", float(e[1])))[0]
            return "(F32.of_bits %d)" % bits, True, "f32"
        if k == "var":
            n = e[1]
            if n in env:
                return n, True, env[n]
            if n in ("i32::MAX", "i32::MIN", "i64::MAX", "i64::MIN", "i16::MAX", "i16::MIN"):
                t, w = n.split("::")
                bits = INT_TYPES[t][1]
                return self.lit(2 ** (bits - 1) - 1 if w == "MAX" else -2 ** (bits - 1)), True, t
            cn = self.mod + "_" + n if (self.mod + "_" + n) in self.consts else n.replace("::", "_")
            if cn in self.consts:
                return self.lit(self.consts[cn][0]), True, self.consts[cn][1]
            raise TErr("unknown name %s" % n)
        if k == "cast":
            t, pure, src = self.emit(e[2], env)
            dst = e[1]
            if dst == "f32":
                if src == "f32":
                    return t, pure, "f32"
                return self.bindall([(t, pure)], lambda a: ("(F32.of_Z %s)" % a[0]) if pure else "(Some (F32.of_Z %s))" % a[0]), pure, "f32"
            if dst not in INT_TYPES:
                raise TErr("cast to %s" % dst)
            sg, bits = INT_TYPES[dst]
            if src == "f32":
                if dst != "i32":
                    raise TErr("float cast to %s" % dst)
                f = lambda a: "(F32.to_i32 %s)" % a
            elif src in INT_TYPES and (INT_TYPES[src][0] == sg and INT_TYPES[src][1] <= bits or (INT_TYPES[src][0] == "u" and sg == "i" and INT_TYPES[src][1] < bits)):
                f = lambda a: a                      # widening: the value is unchanged
            else:
                f = lambda a: "(wrap_%s %d %s)" % (sg, bits, a)
            if pure:
                return f(t), True, dst
            return self.bindall([(t, False)], lambda a: "(Some %s)" % f(a[0])), False, dst
        if k == "neg":
            t, pure, ty = self.emit(e[1], env, want)
            if ty == "f32":
                raise TErr("float negation")
            sg, bits = INT_TYPES[ty or "i32"]
            return self.bindall([(t, pure)], lambda a: "(ck_%s %d (- %s))" % (sg, bits, a[0])), False, ty
        if k == "not":
            t, pure, ty = self.emit(e[1], env, "bool")
            return self.bindall([(t, pure)], lambda a: ("(negb %s)" % a[0]) if pure else "(Some (negb %s))" % a[0]), pure, "bool"
        if k == "bin":
            op = e[1]
            if op in ("<<", ">>"):
                a, pa, ta = self.emit(e[2], env, want)
                b, pb, tb = self.emit(e[3], env, None)
                ty = ta or want or "i32"
                sg, bits = INT_TYPES[ty]
                f = (lambda x: "(shr %s %s)" % (x[0], x[1])) if op == ">>" else (lambda x: "(wrap_%s %d (%s * 2 ^ %s))" % (sg, bits, x[0], x[1]))
                pure = pa and pb
                return self.bindall([(a, pa), (b, pb)], (lambda x: f(x)) if pure else (lambda x: "(Some %s)" % f(x))), pure, ty
            a, pa, ta = self.emit(e[2], env, want)
            b, pb, tb = self.emit(e[3], env, ta or want)
            if ta is None and tb is not None:
                a, pa, ta = self.emit(e[2], env, tb)
            ty = self.ty_join(ta, tb) or want or "i32"
            if ty == "f32":
                name = {"+": "F32.add", "-": "F32.sub", "*": "F32.mul", "/": "F32.div"}[op]
                pure = pa and pb
                return self.bindall([(a, pa), (b, pb)], lambda x: ("(%s %s %s)" if pure else "(Some (%s %s %s))") % (name, x[0], x[1])), pure, "f32"
            if ty not in INT_TYPES:
                # a generic integer (bound<T>): no range
                raise TErr("arithmetic on type %s" % ty)
            sg, bits = INT_TYPES[ty]
            if op == "/":
                return self.bindall([(a, pa), (b, pb)], lambda x: "(div_%s %d %s %s)" % (sg, bits, x[0], x[1])), False, ty
            return self.bindall([(a, pa), (b, pb)], lambda x: "(ck_%s %d (%s %s %s))" % (sg, bits, x[0], op, x[1])), False, ty
        if k == "cmp":
            a, pa, ta = self.emit(e[2], env, None)
            b, pb, tb = self.emit(e[3], env, ta)
            if ta is None and tb is not None:
                a, pa, ta = self.emit(e[2], env, tb)
            if (ta or tb) == "f32":
                raise TErr("float comparison")
            f = {"==": "(%s =? %s)", "!=": "(negb (%s =? %s))", "<": "(%s <? %s)", "<=": "(%s <=? %s)", ">": "(%s >? %s)", ">=": "(%s >=? %s)"}[e[1]]
            pure = pa and pb
            return self.bindall([(a, pa), (b, pb)], lambda x: (f % (x[0], x[1])) if pure else "(Some %s)" % (f % (x[0], x[1]))), pure, "bool"
        if k in ("land", "lor"):
            a, pa, _ = self.emit(e[1], env, "bool")
            b, pb, _ = self.emit(e[2], env, "bool")
            if not pb:
                raise TErr("short-circuit operand that can panic")
            f = "(%s && %s)" if k == "land" else "(%s || %s)"
            return self.bindall([(a, pa)], lambda x: (f % (x[0], b)) if pa else "(Some %s)" % (f % (x[0], b))), pa, "bool"
        if k == "if":
            c, pc, _ = self.emit(e[1], env, "bool")
            a, pa, ta = self.emit(e[2], env, want)
            b, pb, tb = self.emit(e[3], env, ta or want)
            ty = self.ty_join(ta, tb)
            pure = pa and pb and pc
            if pure:
                return "(if %s then %s else %s)" % (c, a, b), True, ty
            oa = a if not pa else "(Some %s)" % a
            ob = b if not pb else "(Some %s)" % b
            return self.bindall([(c, pc)], lambda x: "(if %s then %s else %s)" % (x[0], oa, ob)), False, ty
        if k == "let":
            _, name, ty, v, rest = e
            t, pure, tv = self.emit(v, env, ty)
            env2 = dict(env); env2[name] = ty or tv or "i32"
            r, pr, tr = self.emit(rest, env2, want)
            if pure:
                return "(let %s := %s in %s)" % (name, t, r), pr, tr
            orr = r if not pr else "(Some %s)" % r
            return "(obind %s (fun %s => %s))" % (t, name, orr), False, tr
        if k == "assert":
            c, pc, _ = self.emit(e[1], env, "bool")
            r, pr, tr = self.emit(e[2], env, want)
            orr = r if not pr else "(Some %s)" % r
            return self.bindall([(c, pc)], lambda x: "(if %s then %s else None)" % (x[0], orr)), False, tr
        if k == "call":
            name = e[1]
            if re.match(r"^[iu](8|16|32|64)::from$", name):
                t, pure, ty = self.emit(e[2][0], env)
                return t, pure, name.split("::")[0]
            fn = self.resolve(name)
            if fn is None:
                raise TErr("call of untranslated function %s" % name)
            params, ret, fpure = self.fns[fn]
            parts = []
            generic_ty = None
            for (pn, pt), a in zip(params, e[2]):
                t, pure, ta = self.emit(a, env, pt if pt in INT_TYPES or pt == "f32" else want)
                if pt == ret and pt not in INT_TYPES and ta is not None:
                    generic_ty = self.ty_join(generic_ty, ta)     # a generic parameter T: instantiated by the arguments
                parts.append((t, pure))
            allpure = fpure and all(p for _, p in parts)
            rt = ret if (ret in INT_TYPES or ret in ("f32", "bool")) else (generic_ty or want)
            if allpure:
                return "(%s %s)" % (fn, " ".join(t for t, _ in parts)), True, rt
            return self.bindall(parts, lambda x: ("(%s %s)" if not fpure else "(Some (%s %s))") % (fn, " ".join(x))), False, rt
        if k == "meth":
            name, recv, args = e[1], e[2], e[3]
            if name == "is_ok" and recv[0] == "call" and recv[1].endswith("::try_from"):
                ty = recv[1].split("::")[0]
                sg, bits = INT_TYPES[ty]
                t, pure, _ = self.emit(recv[2][0], env)
                return self.bindall([(t, pure)], lambda x: ("(in_%s %d %s)" if pure else "(Some (in_%s %d %s))") % (sg, bits, x[0])), pure, "bool"
            t, pure, ty = self.emit(recv, env, want)
            if name == "abs":
                sg, bits = INT_TYPES[ty or "i32"]
                return self.bindall([(t, pure)], lambda x: "(ck_%s %d (Z.abs %s))" % (sg, bits, x[0])), False, ty
            if name in ("min", "max"):
                a, pa, ta = self.emit(args[0], env, ty)
                f = "(Z.%s %%s %%s)" % name
                allp = pure and pa
                return self.bindall([(t, pure), (a, pa)], lambda x: (f % (x[0], x[1])) if allp else "(Some %s)" % (f % (x[0], x[1]))), allp, ty or ta
            raise TErr("method %s" % name)
        raise TErr("cannot translate %r" % (k,))


HEADER = """(* GENERATED by tools/translate_fixed.py from %s -- do not edit.  Regenerated on every check. *)
From Coq Require Import ZArith Bool.
From TS Require Import Base.F32 Base.Checked.
Local Open Scope Z_scope.

"""

WANTED = ["left_shift", "left_shift64", "bound",
          "fdot6_from_i32", "fdot6_from_f32", "fdot6_floor", "fdot6_ceil", "fdot6_round", "fdot6_to_fdot16", "fdot6_can_convert_to_fdot16",
          "fdot6_small_scale", "fdot8_from_fdot16", "fdot16_floor_to_i32", "fdot16_ceil_to_i32", "fdot16_round_to_i32",
          "fdot16_mul", "fdot16_div", "fdot16_fast_div", "fdot6_div", "premultiply_u8"]


def gen_fixed(repo, outdir, results):
    out = HEADER % "src/fixed_point.rs, src/math.rs, src/color.rs"
    try:
        fp = open(os.path.join(repo, "src/fixed_point.rs")).read()
        mt = open(os.path.join(repo, "src/math.rs")).read()
        decls = []    # (coq name, params, ret, body, generic, module)
        for f in find_fns(mt, ""):
            if f[0] in ("left_shift", "left_shift64", "bound"):
                decls.append(f + ("",))
        co = open(os.path.join(repo, "src/color.rs")).read()
        for f in find_fns(co, ""):
            if f[0] == "premultiply_u8":
                decls.append(f + ("",))
        consts = {}
        for mod, body in modules(fp):
            for m in re.finditer(r"pub const (\w+): (\w+) = ([^;]+);", body):
                tr = Tr({}, consts, mod)
                v = tr.const_fold(P(tokenize(m.group(3))).expr())
                if v is None:
                    raise TErr("constant %s::%s is not a literal expression" % (mod, m.group(1)))
                consts[mod + "_" + m.group(1)] = (v, ALIASES.get(m.group(2), m.group(2)))
            for f in find_fns(body, mod + "_"):
                decls.append(f + (mod,))
        byname = {d[0]: d for d in decls}
        missing = [w for w in WANTED if w not in byname]
        if missing:
            raise TErr("functions not found in the source: %s" % ", ".join(missing))
        fns = {}
        done = []
        # emit in dependency order: retry until no progress
        pending = [byname[w] for w in WANTED]
        for c in sorted(consts):
            out += "Definition c_%s : Z := %s.\n" % (c, Tr.lit(consts[c][0]))
        out += "\n"
        last_err = None
        while pending:
            progress = False
            for d in list(pending):
                name, params, ret, body, generic, mod = d
                tr = Tr(fns, consts, mod)
                env = {pn: (pt if (pt in INT_TYPES or pt in ("f32", "bool")) else None) for pn, pt in params}
                try:
                    term, pure, ty = tr.emit(P(tokenize(body)).block(), env, ret if ret in INT_TYPES or ret in ("f32", "bool") else None)
                except TErr as ex:
                    if "untranslated function" in str(ex):
                        last_err = "%s: %s" % (name, ex)
                        continue
                    raise TErr("%s: %s" % (name, ex))
                cty = {"f32": "f32", "bool": "bool"}.get(ret, "Z")
                ptxt = " ".join("(%s : %s)" % (pn, "f32" if pt == "f32" else "Z") for pn, pt in params)
                out += "Definition %s %s : %s :=\n  %s.\n" % (name, ptxt, cty if pure else "option " + cty, term)
                fns[name] = (params, ret, pure)
                pending.remove(d)
                done.append((name, pure))
                progress = True
            if not progress:
                raise TErr(last_err or "cyclic definitions")
        out += "\nDefinition fixed_gen_ok : bool := true.\n"
        results.append(("fixed-point", True, "%d functions (%s pure)" % (len(done), sum(1 for _, p in done if p))))
    except (TErr, KeyError, IndexError, ValueError) as ex:
        out = HEADER % "src/fixed_point.rs, src/math.rs, src/color.rs"
        out += "(* translation failed: %s *)\nDefinition fixed_gen_ok : bool := false.\n" % str(ex).replace("*)", "* )")
        results.append(("fixed-point", False, str(ex)))
    from translate import write_if_changed
    write_if_changed(os.path.join(outdir, "FixedGen.v"), out)


if __name__ == "__main__":
    import sys
    sys.path.insert(0, os.path.dirname(os.path.abspath(__file__)))
    r = []
    gen_fixed(sys.argv[1] if len(sys.argv) > 1 else "/repo", "/verif/coq/theories/Gen", r)
    print(r)
