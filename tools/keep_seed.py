#!/usr/bin/env python3
"""tools/keep_seed.py <seed-dir> <id> <property> <detected:yes|no> <by-what> [needs...]  -> copies into /verif/seeded/<id>/ with meta.json"""
import sys, os, shutil, json
src, sid, prop, det, by = sys.argv[1:6]
needs = " ".join(sys.argv[6:])
dst = os.path.join("/verif/seeded", sid)
os.makedirs(dst, exist_ok=True)
patch = "patch_ported.diff" if os.path.exists(os.path.join(src, "patch_ported.diff")) else "patch.diff"
shutil.copy(os.path.join(src, patch), os.path.join(dst, "patch.diff"))
for n in ("demo.rs", "notes.md", "confirm.txt"):
    if os.path.exists(os.path.join(src, n)):
        shutil.copy(os.path.join(src, n), os.path.join(dst, n))
conf = open(os.path.join(src, "confirm.txt")).read() if os.path.exists(os.path.join(src, "confirm.txt")) else ""
json.dump({"property": prop, "id": sid, "breaks": prop, "needs_to_manifest": needs,
           "ported_to_current_head": patch == "patch_ported.diff",
           "confirmed": {"ran": "tools/confirm_seed.sh (scratch worktree: demo passes without patch, fails with patch, existing suite passes with patch)", "output": conf},
           "detected_by_check": det == "yes", "detected_by": by,
           "how_to_run": "tools/seedtest.sh seeded/%s/patch.diff %s" % (sid, prop)}, open(os.path.join(dst, "meta.json"), "w"), indent=1)
print("kept", dst)
