"""Rust-fragment -> Gallina translator.  Regenerates coq/theories/Gen/*.v from /repo on every run.

run(repo, outdir) -> list of (fragment, ok, message)

Only closed expressions and tables are translated (DESIGN.md section 4.1):
  Gen/LowpGen.v   lowp.rs: div255, inv, lerp, from_float, blend_fn!/blend_fn2! closures  -> Z (u16 wrapping)
  Gen/HighpGen.v  highp.rs: inv, two, mad, lerp, blend_fn!/blend_fn2! closures          -> F32 (bit-exact) and Q (ideal)
  Gen/BlendTable.v blend_mode.rs: should_pre_scale_coverage, to_stage; lowp::STAGES null_fn slots
  Gen/Consts.v    assorted constants
  Gen/NoGlobals.v occurrences of global mutable state
  Gen/FixedGen.v  fixed_point.rs, math.rs: the integer helpers (tools/translate_fixed.py)           -> checked Z arithmetic
A fragment that no longer parses is reported (ok=False) and the previous generated text is
replaced by a stub that makes dependent proofs fail, never silently kept.
"""
import os, re


def write_if_changed(path, txt):
    old = open(path).read() if os.path.exists(path) else None
    if old != txt:
        os.makedirs(os.path.dirname(path), exist_ok=True)
        open(path, "w").write(txt)


# ------------------------------------------------------------------------------------------
# a tiny expression parser for the Rust subset used in the pipeline closures
# ------------------------------------------------------------------------------------------
TOK = re.compile(r"\s*(?:(\d+\.\d+|\d+)|([A-Za-z_][A-Za-z_0-9]*(?:::[A-Za-z_][A-Za-z_0-9]*)*)|(>>|<<|<=|>=|==|[-+*/()&,.|{};=:]))")


class ParseError(Exception):
    pass


def tokenize(s):
    # strip // comments
    s = re.sub(r"//[^\n]*", "", s)
    out = []
    i = 0
    while i < len(s):
        m = TOK.match(s, i)
        if not m:
            if s[i:].strip() == "":
                break
            raise ParseError("cannot tokenize at %r" % s[i:i + 30])
        if m.group(1) is not None:
            out.append(("num", m.group(1)))
        elif m.group(2) is not None:
            out.append(("id", m.group(2)))
        else:
            out.append(("op", m.group(3)))
        i = m.end()
    return out


class P:
    def __init__(self, toks):
        self.t = toks
        self.i = 0

    def peek(self):
        return self.t[self.i] if self.i < len(self.t) else ("eof", "")

    def next(self):
        x = self.peek()
        self.i += 1
        return x

    def expect(self, v):
        k, x = self.next()
        if x != v:
            raise ParseError("expected %r got %r" % (v, x))

    # closure: |a, b: T, _, d| body
    def closure(self):
        self.expect("|")
        params = []
        while True:
            k, x = self.next()
            if x == "|":
                break
            if k != "id":
                raise ParseError("closure parameter expected, got %r" % x)
            params.append(x)
            k2, x2 = self.peek()
            if x2 == ":":
                self.next()
                self.next()  # type
                k2, x2 = self.peek()
            if x2 == ",":
                self.next()
        body = self.block_or_expr()
        return params, body

    def block_or_expr(self):
        k, x = self.peek()
        if x == "{":
            self.next()
            lets = []
            while True:
                k, x = self.peek()
                if k == "id" and x == "let":
                    self.next()
                    k, name = self.next()
                    if name == "mut":
                        k, name = self.next()
                    k, x = self.peek()
                    if x == ":":
                        self.next(); self.next()
                    self.expect("=")
                    e = self.expr()
                    self.expect(";")
                    lets.append((name, e))
                else:
                    break
            e = self.expr()
            self.expect("}")
            for name, v in reversed(lets):
                e = ("let", name, v, e)
            return e
        return self.expr()

    # precedence: cmp < shift < additive < multiplicative < unary < postfix
    def expr(self):
        return self.cmp()

    def cmp(self):
        l = self.shift()
        return l

    def shift(self):
        l = self.add()
        while self.peek()[1] in (">>", "<<"):
            op = self.next()[1]
            r = self.add()
            l = ("bin", op, l, r)
        return l

    def add(self):
        l = self.mul()
        while self.peek()[1] in ("+", "-"):
            op = self.next()[1]
            r = self.mul()
            l = ("bin", op, l, r)
        return l

    def mul(self):
        l = self.unary()
        while self.peek()[1] in ("*", "/"):
            op = self.next()[1]
            r = self.unary()
            l = ("bin", op, l, r)
        return l

    def unary(self):
        k, x = self.peek()
        if x == "&":
            self.next()
            return self.unary()
        if x == "*":   # deref
            self.next()
            return self.unary()
        if x == "-":
            self.next()
            return ("neg", self.unary())
        return self.postfix()

    def postfix(self):
        e = self.primary()
        while self.peek()[1] == ".":
            self.next()
            k, name = self.next()
            if k == "num":  # tuple field like .0
                e = ("field", name, e)
                continue
            args = []
            if self.peek()[1] == "(":
                args = self.args()
                e = ("meth", name, e, args)
            else:
                e = ("field", name, e)
        return e

    def args(self):
        self.expect("(")
        a = []
        while self.peek()[1] != ")":
            a.append(self.expr())
            if self.peek()[1] == ",":
                self.next()
        self.expect(")")
        return a

    def primary(self):
        k, x = self.next()
        if k == "num":
            return ("num", x)
        if x == "(":
            e = self.expr()
            self.expect(")")
            return e
        if k == "id":
            if self.peek()[1] == "(":
                return ("call", x, self.args())
            return ("var", x)
        raise ParseError("unexpected token %r" % x)


def parse_closure(src):
    p = P(tokenize(src))
    params, body = p.closure()
    if p.peek()[0] != "eof":
        raise ParseError("trailing tokens after closure: %r" % (p.t[p.i:p.i + 5],))
    return params, body


def parse_fn_body(src):
    p = P(tokenize(src))
    e = p.block_or_expr()
    return e


# ------------------------------------------------------------------------------------------
# backends
# ------------------------------------------------------------------------------------------
class LowpBackend:
    """u16 lanes as Z with wrapping arithmetic (the SIMD / release-build semantics)."""
    name = "lowp"

    def lit(self, x):
        if "." in x:
            raise ParseError("float literal in lowp")
        return "%s" % x

    def bin(self, op, a, b):
        f = {"+": "u16add", "-": "u16sub", "*": "u16mul", ">>": "u16shr", "/": "u16div"}.get(op)
        if not f:
            raise ParseError("operator %s" % op)
        return "(%s %s %s)" % (f, a, b)

    def call(self, name, args):
        if name == "u16x16::splat":
            return args[0]
        if name in ("div255", "inv", "lerp"):
            return "(lowp_%s %s)" % (name, " ".join(args))
        raise ParseError("call %s" % name)

    def meth(self, name, recv, args, raw_recv=None):
        if name == "min":
            return "(Z.min %s %s)" % (recv, args[0])
        if name == "max":
            return "(Z.max %s %s)" % (recv, args[0])
        raise ParseError("method %s" % name)

    def cmpblend(self, cmp, a, b, t, e):
        c = {"cmp_le": "Z.leb", "cmp_lt": "Z.ltb", "cmp_eq": "Z.eqb"}.get(cmp)
        if not c:
            raise ParseError("cmp %s" % cmp)
        return "(if %s %s %s then %s else %s)" % (c, a, b, t, e)

    def default(self):
        return "0"


class F32Backend:
    name = "f32"

    def lit(self, x):
        return {"1.0": "F32.one", "0.0": "F32.zero", "0.5": "F32.half"}.get(x) or "(f32_lit_%s)" % x.replace(".", "_")

    def bin(self, op, a, b):
        f = {"+": "F32.add", "-": "F32.sub", "*": "F32.mul", "/": "F32.div"}.get(op)
        if not f:
            raise ParseError("operator %s" % op)
        return "(%s %s %s)" % (f, a, b)

    def call(self, name, args):
        if name == "f32x8::splat":
            return args[0]
        if name == "f32x8::default":
            return "F32.zero"
        if name in ("inv", "two", "mad", "lerp"):
            return "(highp_%s %s)" % (name, " ".join(args))
        raise ParseError("call %s" % name)

    def meth(self, name, recv, args, raw_recv=None):
        if name == "min":
            return "(wide_min %s %s)" % (recv, args[0])
        if name == "max":
            return "(wide_max %s %s)" % (recv, args[0])
        if name == "sqrt":
            return "(F32.sqrt %s)" % recv
        if name == "abs":
            return "(F32.abs %s)" % recv
        if name == "recip_fast":
            return "(wide_recip_fast %s)" % recv
        raise ParseError("method %s" % name)

    def cmpblend(self, cmp, a, b, t, e):
        c = {"cmp_le": "F32.le", "cmp_lt": "F32.lt", "cmp_eq": "F32.eq", "cmp_gt": "F32.gt", "cmp_ge": "F32.ge"}.get(cmp)
        if not c:
            raise ParseError("cmp %s" % cmp)
        return "(if %s %s %s then %s else %s)" % (c, a, b, t, e)

    def default(self):
        return "F32.zero"


class QBackend:
    """ideal arithmetic over Q: the mathematics the float code implements"""
    name = "q"

    def lit(self, x):
        if "." in x:
            a, b = x.split(".")
            den = 10 ** len(b)
            return "(%d # %d)" % (int(a + b), den)
        return "(%s # 1)" % x

    def bin(self, op, a, b):
        f = {"+": "Qplus", "-": "Qminus", "*": "Qmult", "/": "Qdiv"}.get(op)
        if not f:
            raise ParseError("operator %s" % op)
        return "(%s %s %s)" % (f, a, b)

    def call(self, name, args):
        if name == "f32x8::splat":
            return args[0]
        if name == "f32x8::default":
            return "(0 # 1)"
        if name in ("inv", "two", "mad", "lerp"):
            return "(highpq_%s %s)" % (name, " ".join(args))
        raise ParseError("call %s" % name)

    def meth(self, name, recv, args, raw_recv=None):
        if name == "min":
            return "(Qmin %s %s)" % (recv, args[0])
        if name == "max":
            return "(Qmax %s %s)" % (recv, args[0])
        if name == "recip_fast":
            return "(Qinv %s)" % recv
        if name == "sqrt":
            raise ParseError("sqrt has no Q form")
        raise ParseError("method %s" % name)

    def cmpblend(self, cmp, a, b, t, e):
        c = {"cmp_le": "Qle_bool", "cmp_eq": "Qeq_bool"}.get(cmp)
        if cmp == "cmp_gt":
            return "(if Qle_bool %s %s then %s else %s)" % (a, b, e, t)
        if cmp == "cmp_lt":
            return "(if Qle_bool %s %s then %s else %s)" % (b, a, e, t)
        if cmp == "cmp_ge":
            return "(if Qle_bool %s %s then %s else %s)" % (b, a, t, e)
        if not c:
            raise ParseError("cmp %s" % cmp)
        return "(if %s %s %s then %s else %s)" % (c, a, b, t, e)

    def default(self):
        return "(0 # 1)"


def emit(e, be, env):
    k = e[0]
    if k == "num":
        return be.lit(e[1])
    if k == "var":
        v = e[1]
        if v in env:
            return env[v]
        raise ParseError("unbound variable %s" % v)
    if k == "bin":
        return be.bin(e[1], emit(e[2], be, env), emit(e[3], be, env))
    if k == "neg":
        raise ParseError("unary minus")
    if k == "call":
        return be.call(e[1], [emit(a, be, env) for a in e[2]])
    if k == "meth":
        name, recv, args = e[1], e[2], e[3]
        if name == "blend":
            # recv must be a comparison method call
            if recv[0] != "meth" or not recv[1].startswith("cmp_"):
                raise ParseError("blend on a non-comparison")
            a = emit(recv[2], be, env)
            b = emit(recv[3][0], be, env)
            return be.cmpblend(recv[1], a, b, emit(args[0], be, env), emit(args[1], be, env))
        return be.meth(name, emit(recv, be, env), [emit(a, be, env) for a in args])
    if k == "let":
        v = emit(e[2], be, env)
        nm = "v_" + e[1]
        env2 = dict(env)
        env2[e[1]] = nm
        return "(let %s := %s in %s)" % (nm, v, emit(e[3], be, env2))
    raise ParseError("node %s" % k)


def closure_to_def(prefix, name, src, be, ty):
    params, body = parse_closure(src)
    if len(params) != 4:
        raise ParseError("closure %s has %d parameters" % (name, len(params)))
    names = ["s", "d", "sa", "da"]
    env = {}
    for p, n in zip(params, names):
        if p != "_":
            env[p] = n
    return "Definition %s%s (s d sa da : %s) : %s :=\n  %s.\n" % (prefix, name, ty, ty, emit(body, be, env))


def find_macro_calls(src, macro):
    """yield (name, closure_source) for `macro!(name, closure);` invocations (balanced parens)"""
    out = []
    for m in re.finditer(r"^%s!\(\s*(\w+)\s*,\s*" % macro, src, re.M):
        i = m.end()
        depth = 1
        j = i
        while j < len(src) and depth > 0:
            if src[j] == "(":
                depth += 1
            elif src[j] == ")":
                depth -= 1
            j += 1
        out.append((m.group(1), src[i:j - 1]))
    return out


def find_fn(src, name):
    m = re.search(r"fn %s\s*\(([^)]*)\)\s*->\s*[\w:]+\s*\{" % name, src)
    if not m:
        raise ParseError("fn %s not found" % name)
    i = m.end() - 1
    depth = 0
    j = i
    while j < len(src):
        if src[j] == "{":
            depth += 1
        elif src[j] == "}":
            depth -= 1
            if depth == 0:
                break
        j += 1
    params = [p.split(":")[0].strip() for p in m.group(1).split(",") if p.strip()]
    return params, src[i:j + 1]


HEADER = "(* GENERATED by tools/translate.py from %s -- do not edit; regenerated on every check run *)\n"


def gen_lowp(repo, outdir, results):
    path = os.path.join(repo, "src/pipeline/lowp.rs")
    src = open(path).read()
    be = LowpBackend()
    out = [HEADER % "src/pipeline/lowp.rs",
           "From Coq Require Import ZArith List String.\nFrom TS Require Import Base.U16.\nImport ListNotations.\nLocal Open Scope Z_scope.\n\n"]
    ok_all = True
    # helper fns
    for fn, arity in (("div255", 1), ("inv", 1), ("lerp", 3)):
        try:
            params, body = find_fn(src, fn)
            e = parse_fn_body(body)
            env = {p: p for p in params}
            out.append("Definition lowp_%s (%s : Z) : Z :=\n  %s.\n\n" % (fn, " ".join(params), emit(e, be, env)))
            results.append(("lowp:" + fn, True, ""))
        except Exception as ex:
            ok_all = False
            out.append("(* lowp_%s: NOT TRANSLATED: %s *)\n" % (fn, ex))
            results.append(("lowp:" + fn, False, str(ex)))
    # from_float: u16x16::splat((f * 255.0 + 0.5) as u16)
    m = re.search(r"fn from_float\(f: f32\) -> u16x16 \{\s*u16x16::splat\(\(f \* 255\.0 \+ 0\.5\) as u16\)\s*\}", src)
    results.append(("lowp:from_float", bool(m), "" if m else "from_float has changed shape"))
    out.append("Definition lowp_from_float_shape_ok : bool := %s.\n\n" % ("true" if m else "false"))
    names1, names2 = [], []
    for macro, lst in (("blend_fn", names1), ("blend_fn2", names2)):
        for name, cl in find_macro_calls(src, macro):
            try:
                out.append(closure_to_def("lowp_", name, cl, be, "Z") + "\n")
                lst.append(name)
                results.append(("lowp:" + name, True, ""))
            except Exception as ex:
                ok_all = False
                out.append("(* lowp_%s: NOT TRANSLATED: %s *)\n" % (name, ex))
                results.append(("lowp:" + name, False, str(ex)))
    # the alpha rule of the two macros
    m1 = re.search(r"macro_rules! blend_fn \{.*?p\.a = \$f\(p\.a, p\.da, p\.a, p\.da\);", src, re.S)
    m2 = re.search(r"macro_rules! blend_fn2 \{.*?p\.a = p\.a \+ div255\(p\.da \* inv\(p\.a\)\);", src, re.S)
    results.append(("lowp:macro-shapes", bool(m1 and m2), "" if (m1 and m2) else "blend_fn!/blend_fn2! bodies changed"))
    out.append("Definition lowp_macro_shapes_ok : bool := %s.\n\n" % ("true" if (m1 and m2) else "false"))
    out.append("(* name -> (closure, kind): kind 1 = blend_fn! (alpha through the same closure),\n   kind 2 = blend_fn2! (alpha = source-over) *)\n")
    out.append("Definition lowp_blend_table : list (string * ((Z -> Z -> Z -> Z -> Z) * Z)) := [\n")
    rows = ['  ("%s"%%string, (lowp_%s, 1))' % (n, n) for n in names1] + ['  ("%s"%%string, (lowp_%s, 2))' % (n, n) for n in names2]
    out.append(";\n".join(rows) + "\n].\n")
    write_if_changed(os.path.join(outdir, "LowpGen.v"), "".join(out))


def gen_highp(repo, outdir, results):
    path = os.path.join(repo, "src/pipeline/highp.rs")
    src = open(path).read()
    out = [HEADER % "src/pipeline/highp.rs",
           "From Coq Require Import ZArith QArith Qminmax List String.\nFrom TS Require Import Base.F32 Base.Wide.\nImport ListNotations.\n\n"]
    for be, pre, ty in ((F32Backend(), "highp_", "f32"), (QBackend(), "highpq_", "Q")):
        for fn in ("inv", "two", "mad", "lerp"):
            try:
                params, body = find_fn(src, fn)
                e = parse_fn_body(body)
                env = {p: p for p in params}
                out.append("Definition %s%s (%s : %s) : %s :=\n  %s.\n\n" % (pre, fn, " ".join(params), ty, ty, emit(e, be, env)))
                results.append(("highp:%s:%s" % (be.name, fn), True, ""))
            except Exception as ex:
                out.append("(* %s%s: NOT TRANSLATED: %s *)\n" % (pre, fn, ex))
                results.append(("highp:%s:%s" % (be.name, fn), False, str(ex)))
        names1, names2 = [], []
        for macro, lst in (("blend_fn", names1), ("blend_fn2", names2)):
            for name, cl in find_macro_calls(src, macro):
                try:
                    out.append(closure_to_def(pre, name, cl, be, ty) + "\n")
                    lst.append(name)
                    results.append(("highp:%s:%s" % (be.name, name), True, ""))
                except Exception as ex:
                    out.append("(* %s%s: NOT TRANSLATED (%s backend): %s *)\n" % (pre, name, be.name, ex))
                    if be.name == "f32":
                        results.append(("highp:%s:%s" % (be.name, name), False, str(ex)))
        out.append("Definition %sblend_table : list (string * ((%s -> %s -> %s -> %s -> %s) * Z)) := [\n" % (pre, ty, ty, ty, ty, ty))
        rows = ['  ("%s"%%string, (%s%s, 1%%Z))' % (n, pre, n) for n in names1] + ['  ("%s"%%string, (%s%s, 2%%Z))' % (n, pre, n) for n in names2]
        out.append(";\n".join(rows) + "\n].\n\n")
    m1 = re.search(r"macro_rules! blend_fn \{.*?p\.a = \$f\(p\.a, p\.da, p\.a, p\.da\);", src, re.S)
    m2 = re.search(r"macro_rules! blend_fn2 \{.*?p\.a = mad\(p\.da, inv\(p\.a\), p\.a\);", src, re.S)
    results.append(("highp:macro-shapes", bool(m1 and m2), "" if (m1 and m2) else "blend_fn!/blend_fn2! bodies changed"))
    out.append("Definition highp_macro_shapes_ok : bool := %s.\n" % ("true" if (m1 and m2) else "false"))
    write_if_changed(os.path.join(outdir, "HighpGen.v"), "".join(out))


STAGE_ENUM_RE = re.compile(r"pub enum Stage \{(.*?)\n\}", re.S)


def gen_blend_table(repo, outdir, results):
    out = [HEADER % "src/blend_mode.rs, src/pipeline/mod.rs, src/pipeline/lowp.rs",
           "From Coq Require Import List String ZArith.\nImport ListNotations.\nLocal Open Scope string_scope.\n\n"]
    ok = True
    msg = ""
    try:
        bm = open(os.path.join(repo, "src/blend_mode.rs")).read()
        enum = re.search(r"pub enum BlendMode \{(.*?)\n\}", bm, re.S).group(1)
        modes = re.findall(r"^\s*(\w+),", re.sub(r"///[^\n]*|#\[[^\]]*\]", "", enum), re.M)
        pre = re.search(r"fn should_pre_scale_coverage.*?matches!\(\s*self,(.*?)\)\s*\}", bm, re.S).group(1)
        pre = re.sub(r"//[^\n]*", "", pre)
        prescale = re.findall(r"BlendMode::(\w+)", pre)
        ts = re.search(r"fn to_stage.*?match self \{(.*?)\n        \}", bm, re.S).group(1)
        to_stage = re.findall(r"BlendMode::(\w+) => (None|Some\(pipeline::Stage::(\w+)\))", ts)
        out.append("Definition blend_modes : list string := [%s].\n\n" % "; ".join('"%s"' % m for m in modes))
        out.append("Definition prescale_modes : list string := [%s].\n\n" % "; ".join('"%s"' % m for m in prescale))
        out.append("Definition to_stage_table : list (string * option string) := [\n%s\n].\n\n" % ";\n".join(
            '  ("%s", %s)' % (m, "None" if s == "None" else 'Some "%s"' % st) for m, s, st in to_stage))
        if len(modes) != 29 or len(to_stage) != 29:
            ok = False
            msg = "expected 29 blend modes, got %d / %d" % (len(modes), len(to_stage))
        pm = open(os.path.join(repo, "src/pipeline/mod.rs")).read()
        enum = STAGE_ENUM_RE.search(pm).group(1)
        stages = re.findall(r"^\s*(\w+)(?:\s*=\s*\d+)?,", re.sub(r"//[^\n]*", "", enum), re.M)
        lp = open(os.path.join(repo, "src/pipeline/lowp.rs")).read()
        tbl = re.search(r"pub const STAGES: &\[StageFn; super::STAGES_COUNT\] = &\[(.*?)\];", lp, re.S).group(1)
        fns = re.findall(r"^\s*(\w+),", re.sub(r"//[^\n]*", "", tbl), re.M)
        if len(fns) != len(stages):
            ok = False
            msg += " lowp STAGES has %d entries, Stage enum %d" % (len(fns), len(stages))
        out.append("Definition stage_names : list string := [%s].\n\n" % "; ".join('"%s"' % s for s in stages))
        out.append("(* Stage -> lowp function name; null_fn = not available in lowp *)\nDefinition lowp_stage_fn : list (string * string) := [\n%s\n].\n\n" % ";\n".join(
            '  ("%s", "%s")' % (s, f) for s, f in zip(stages, fns)))
        hp = open(os.path.join(repo, "src/pipeline/highp.rs")).read()
        tbl = re.search(r"pub const STAGES: &\[StageFn; super::STAGES_COUNT\] = &\[(.*?)\];", hp, re.S).group(1)
        hfns = re.findall(r"^\s*(\w+),", re.sub(r"//[^\n]*", "", tbl), re.M)
        out.append("Definition highp_stage_fn : list (string * string) := [\n%s\n].\n" % ";\n".join(
            '  ("%s", "%s")' % (s, f) for s, f in zip(stages, hfns)))
    except Exception as ex:
        ok = False
        msg = "blend table: %s" % ex
        out.append("(* NOT TRANSLATED: %s *)\n" % ex)
    results.append(("blend-table", ok, msg))
    write_if_changed(os.path.join(outdir, "BlendTable.v"), "".join(out))


GLOBAL_PATTERNS = [r"\bstatic\s+mut\b", r"\bthread_local!", r"\blazy_static!", r"\bOnceCell\b", r"\bOnceLock\b", r"\bLazy<",
                   r"\bCell<", r"\bRefCell<", r"\bAtomic[A-Z]\w*", r"\bUnsafeCell\b", r"\bMutex<", r"\bRwLock<"]


def gen_noglobals(repo, outdir, results):
    hits = []
    for base in ("src", "path/src"):
        for d, _, names in os.walk(os.path.join(repo, base)):
            for n in sorted(names):
                if not n.endswith(".rs"):
                    continue
                p = os.path.join(d, n)
                for i, line in enumerate(open(p), 1):
                    code = line.split("//")[0]
                    for pat in GLOBAL_PATTERNS:
                        if re.search(pat, code):
                            hits.append("%s:%d: %s" % (os.path.relpath(p, repo), i, code.strip()[:80].replace('"', "'")))
    txt = HEADER % "src/**/*.rs, path/src/**/*.rs"
    txt += "From Coq Require Import List String.\nImport ListNotations.\nLocal Open Scope string_scope.\n\n"
    txt += "(* occurrences of global / interior mutable state in the library sources *)\n"
    txt += "Definition global_state_hits : list string := [%s].\n" % "; ".join('"%s"' % h for h in hits)
    results.append(("no-globals", True, "%d hits" % len(hits)))
    write_if_changed(os.path.join(outdir, "NoGlobals.v"), txt)


def gen_stroker_fields(repo, outdir, results):
    ok = True
    msg = ""
    txt = HEADER % "path/src/stroker.rs, path/src/path_builder.rs"
    txt += "From Coq Require Import List String.\nImport ListNotations.\nLocal Open Scope string_scope.\n\n"
    try:
        src = open(os.path.join(repo, "path/src/stroker.rs")).read()
        st = re.search(r"pub struct PathStroker \{(.*?)\n\}", src, re.S).group(1)
        st = re.sub(r"//[^\n]*", "", st)
        fields = re.findall(r"^\s*(\w+)\s*:", st, re.M)
        body = re.search(r"fn stroke_inner\(.*?\) -> Option<Path> \{(.*?)\n    \}\n", src, re.S).group(1)
        # assignments before the segment loop, at the top nesting level only (an assignment under an `if` does
        # not reset the field on every call)
        head = body.split("let mut last_segment_is_line")[0] if "let mut last_segment_is_line" in body else body.split("for ")[0]
        head = re.sub(r"//[^\n]*", "", head)
        depth, top = 0, ""
        for ch in head:
            if ch == "{":
                depth += 1
            elif ch == "}":
                depth -= 1
            elif depth == 0:
                top += ch
        assigned = sorted(set(re.findall(r"self\.(\w+)\s*=[^=]", top)))
        cleared = sorted(set(re.findall(r"self\.(\w+)\s*\.clear\(\)", top)))
        txt += "Definition stroker_fields : list string := [%s].\n" % "; ".join('"%s"' % f for f in fields)
        txt += "Definition stroker_reset_assigned : list string := [%s].\n" % "; ".join('"%s"' % f for f in assigned)
        txt += "Definition stroker_reset_cleared : list string := [%s].\n" % "; ".join('"%s"' % f for f in cleared)
    except Exception as ex:
        ok = False
        msg = str(ex)
        txt += "(* NOT TRANSLATED: %s *)\n" % ex
    # the three ways to obtain an empty builder: PathBuilder::new, PathBuilder::clear, Path::clear
    try:
        pb = open(os.path.join(repo, "path/src/path_builder.rs")).read()
        pa = open(os.path.join(repo, "path/src/path.rs")).read()

        def norm(v):
            v = v.strip().rstrip(",;").strip()
            return {"Vec::new()": "empty", "self.verbs": "empty", "self.points": "empty"}.get(v, v)

        def lit(body):
            m = re.search(r"PathBuilder \{(.*?)\n\s*\}", body, re.S)
            out = []
            for line in m.group(1).split("\n"):
                line = re.sub(r"//.*", "", line).strip()
                if not line:
                    continue
                if line.startswith(".."):
                    out.append(("..", norm(line[2:])))
                else:
                    k, v = line.split(":", 1)
                    out.append((k.strip(), norm(v)))
            return sorted(out)
        new_body = re.search(r"pub fn new\(\) -> Self \{(.*?)\n    \}\n", pb, re.S).group(1)
        clr_body = re.search(r"pub fn clear\(&mut self\) \{(.*?)\n    \}\n", pb, re.S).group(1)
        pcl_body = re.search(r"pub fn clear\(mut self\) -> PathBuilder \{(.*?)\n    \}\n", pa, re.S).group(1)
        f_new = lit(new_body)
        f_clr = []
        for line in clr_body.split("\n"):
            line = re.sub(r"//.*", "", line).strip()
            m1 = re.match(r"self\.(\w+)\.clear\(\);", line)
            m2 = re.match(r"self\.(\w+)\s*=\s*(.*);", line)
            if m1:
                f_clr.append((m1.group(1), "empty"))
            elif m2:
                f_clr.append((m2.group(1), norm(m2.group(2))))
            elif line:
                f_clr.append(("?", line))
        f_clr = sorted(f_clr)
        pre = [re.match(r"self\.(\w+)\.clear\(\);", l.strip()) for l in pcl_body.split("PathBuilder {")[0].split("\n")]
        cleared_first = sorted(m.group(1) for m in pre if m)
        f_pcl = lit(pcl_body)
        # `verbs: self.verbs` only counts as empty when self.verbs.clear() ran before
        f_pcl = sorted((k, v if (k not in ("verbs", "points") or k in cleared_first) else "not-cleared") for k, v in f_pcl)

        def coq(l):
            return "[%s]" % "; ".join('("%s", "%s")' % kv for kv in l)
        txt += "Definition builder_new_state : list (string * string) := %s.\n" % coq(f_new)
        txt += "Definition builder_clear_state : list (string * string) := %s.\n" % coq(f_clr)
        txt += "Definition path_clear_state : list (string * string) := %s.\n" % coq(f_pcl)
        # <PathBuilder as Default>::default(): hand-written (its body decides), derived (every field gets its type's
        # default: 0 / false / empty), or absent (then there is nothing to compare: the state of new())
        m = re.search(r"impl Default for PathBuilder \{\s*fn default\(\) -> Self \{(.*?)\n    \}\n", pb, re.S)
        derive = re.search(r"#\[derive\(([^)]*)\)\]\s*pub struct PathBuilder", pb)
        if m:
            body = re.sub(r"//[^\n]*", "", m.group(1)).strip()
            if body in ("PathBuilder::new()", "Self::new()"):
                f_def = f_new
            elif "PathBuilder {" in body or "Self {" in body:
                f_def = lit(body.replace("Self {", "PathBuilder {"))
            else:
                f_def = [("?", body[:60].replace('"', "'"))]
        elif derive and "Default" in derive.group(1):
            f_def = sorted((k, {"verbs": "empty", "points": "empty", "last_move_to_index": "0"}.get(k, "false")) for k, _ in f_new)
        else:
            f_def = f_new
        txt += "Definition builder_default_state : list (string * string) := %s.\n" % coq(f_def)
    except Exception as ex:
        ok = False
        msg += " builder states: " + str(ex)
        txt += "(* NOT TRANSLATED: %s *)\n" % ex
    results.append(("stroker-fields", ok, msg))
    write_if_changed(os.path.join(outdir, "StrokerFields.v"), txt)


def gen_gradient_stage(repo, outdir, results):
    """the comparison operator each lane of the `gradient` stage uses to count the stops at or below t"""
    txt = HEADER % "src/pipeline/lowp.rs, src/pipeline/highp.rs (fn gradient)"
    txt += "From Coq Require Import List String.\nImport ListNotations.\nLocal Open Scope string_scope.\n\n"
    ok, msg = True, ""
    for name, rel in (("lowp", "src/pipeline/lowp.rs"), ("highp", "src/pipeline/highp.rs")):
        try:
            src = open(os.path.join(repo, rel)).read()
            m = re.search(r"\nfn gradient\(p: &mut Pipeline\) \{", src)
            if not m:
                raise ParseError("fn gradient not found in %s" % rel)
            i = m.end() - 1
            depth, j = 0, i
            while j < len(src):
                if src[j] == "{":
                    depth += 1
                elif src[j] == "}":
                    depth -= 1
                    if depth == 0:
                        break
                j += 1
            body = re.sub(r"//[^\n]*", "", src[i:j + 1])
            loop = re.search(r"for i in 1\.\.ctx\.len \{(.*?)\n    \}", body, re.S)
            if not loop:
                raise ParseError("the stop loop `for i in 1..ctx.len` was not found in %s" % rel)
            ops = re.findall(r"\(\s*t\d?\[\s*\d+\s*\]\s*(>=|<=|>|<|==)\s*tt\s*\)", loop.group(1))
            other = re.findall(r"\.cmp_(\w+)\(", loop.group(1))
            ops += ["cmp_" + o for o in other]
            txt += "Definition %s_gradient_cmps : list string := [%s].\n" % (name, "; ".join('"%s"' % o for o in ops))
            msg += "%s: %d lanes " % (name, len(ops))
        except Exception as ex:
            ok = False
            msg += "%s: %s " % (name, ex)
            txt += "Definition %s_gradient_cmps : list string := [].  (* NOT TRANSLATED: %s *)\n" % (name, str(ex).replace("*)", "* )"))
    results.append(("gradient-stage", ok, msg))
    write_if_changed(os.path.join(outdir, "GradientStage.v"), txt)


def run(repo, outdir):
    results = []
    os.makedirs(outdir, exist_ok=True)
    gen_lowp(repo, outdir, results)
    gen_highp(repo, outdir, results)
    gen_blend_table(repo, outdir, results)
    gen_noglobals(repo, outdir, results)
    gen_stroker_fields(repo, outdir, results)
    gen_gradient_stage(repo, outdir, results)
    from translate_fixed import gen_fixed
    gen_fixed(repo, outdir, results)
    return results


if __name__ == "__main__":
    import sys
    for r in run(sys.argv[1] if len(sys.argv) > 1 else "/repo", os.path.join(os.path.dirname(os.path.dirname(os.path.abspath(__file__))), "coq", "theories", "Gen")):
        print(r)
