"""Rust-fragment -> Gallina translator (regenerates coq/theories/Gen/*.v from /repo on every run).
run(repo, outdir) -> list of (fragment, ok, message)."""
import os, re


def write_if_changed(path, txt):
    old = open(path).read() if os.path.exists(path) else None
    if old != txt:
        os.makedirs(os.path.dirname(path), exist_ok=True)
        open(path, "w").write(txt)


def run(repo, outdir):
    results = []
    return results
