#!/bin/bash
# run every claimed check (quick tier) on the current tree; prints one line per property
cd /verif
for p in $(python3 -c "import json; print(' '.join(c['property_id'] for c in json.load(open('MANIFEST.json'))['checks']))"); do
  out=$(python3 tools/vp.py check $p --tier ${1:-quick} 2>&1); rc=$?
  echo "$p rc=$rc $(echo "$out" | grep -E '^check ' | tail -1) $(echo "$out" | grep -c '^KNOWN-FINDING') known"
  echo "$out" | grep -E "^VIOLATION" | head -2
done
