#!/bin/bash
# run every kept seed against the check of its property (quick tier); one line per seed. Usage: tools/seed_regress.sh [ids...]
cd /verif
ids="$@"; [ -z "$ids" ] && ids=$(ls seeded)
for id in $ids; do
  p=$(python3 -c "import json;print(json.load(open('seeded/$id/meta.json'))['property'])")
  out=$(tools/seedtest.sh /verif/seeded/$id/patch.diff $p 2>&1)
  rc=$(echo "$out" | grep -o "rc=[0-9]*" | tail -1)
  echo "$id $p $rc $(echo "$out" | grep -E '^check |patch does not apply' | tail -1 | cut -c1-110)"
done
